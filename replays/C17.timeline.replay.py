import os, sys
sys.path.insert(0, os.environ.get("VERIF_REPO", "/repo"))

import json, datetime as _real_datetime
from BPTK_Py import Model, bptk
from BPTK_Py.server import BptkServer
import BPTK_Py.server.bptkServer as srvmod

DESTROYED = []      # serial numbers of destroyed bptk objects (NOT id(): python reuses the id of a freed object)
_SERIAL = [0]

SM = ["sm"]          # name of the scenario manager the factory registers (a harness may switch it, e.g. to "2024")
RUNSPEC = [1.0, 10.0, 1.0]

def make_bptk():
    m = Model(starttime=RUNSPEC[0], stoptime=RUNSPEC[1], dt=RUNSPEC[2], name="m")
    s = m.stock("s"); f = m.flow("f"); c = m.constant("c")
    s.initial_value = 0.0; c.equation = 1.0; f.equation = c; s.equation = f
    b = bptk()
    b.register_model(m)
    b.register_scenario_manager({SM[0]: {"model": m}})
    b.register_scenarios(scenario_manager=SM[0], scenarios={"base": {"constants": {"c": 1.0}}})
    orig = b.destroy
    _SERIAL[0] += 1
    b._verif_serial = _SERIAL[0]
    def destroy(orig=orig, b=b):
        DESTROYED.append(b._verif_serial); return orig()
    b.destroy = destroy
    return b

class FakeClock:
    now_value = _real_datetime.datetime(2030, 1, 1, 0, 0, 0)
    class datetime(_real_datetime.datetime):
        @classmethod
        def now(cls, tz=None):
            return FakeClock.now_value
    timedelta = _real_datetime.timedelta
    @classmethod
    def advance(cls, seconds):
        cls.now_value = cls.now_value + _real_datetime.timedelta(seconds=seconds)

def make_app(token=None, fake_clock=False, adapter=None):
    if fake_clock:
        srvmod.datetime = FakeClock
    app = BptkServer(__name__, make_bptk, external_state_adapter=adapter, bearer_token=token)
    return app

BEGIN = {"scenario_managers": ["sm"], "scenarios": ["base"], "equations": ["s", "c"]}

def start(client, headers=None, timeout=None):
    r = client.post("/start-instance", json=({"timeout": timeout} if timeout else None), headers=headers or {})
    return json.loads(r.data)["instance_uuid"]

def begin(client, u, headers=None):
    return client.post("/%s/begin-session" % u, json=dict(BEGIN, scenario_managers=[SM[0]]), headers=headers or {})

def digest(app):
    """server-side state that a refused request must not change"""
    d = {}
    for k, rec in app._instance_manager._instances.items():
        ss = rec["instance"].session_state
        d[k] = None if ss is None else (ss.get("step"), ss.get("lock"), len(ss.get("results_log", {}) or {}), repr(ss.get("settings_log"))[:200])
    sc = app._bptk.get_scenario(SM[0], "base")
    return (d, dict(sc.constants), len(DESTROYED))

UNIT_SECONDS = {"weeks": 604800, "days": 86400, "hours": 3600, "minutes": 60, "seconds": 1, "milliseconds": 0.001, "microseconds": 0.000001}

def run(case):
    """case: list of ops  ('create', timeout_dict) | ('advance', seconds) | ('access', idx, kind) | ('metrics',)"""
    del DESTROYED[:]
    import tempfile, shutil
    tmpd = None
    use_adapter = bool(case) and case[0] == ("adapter",)
    if use_adapter:
        from BPTK_Py.externalstateadapter import FileAdapter
        tmpd = tempfile.mkdtemp(prefix="c17_")
    try:
        return _run(case, make_app(fake_clock=True, adapter=(FileAdapter(False, tmpd) if use_adapter else None)), use_adapter)
    finally:
        if tmpd:
            shutil.rmtree(tmpd, ignore_errors=True)

def _run(case, app, use_adapter):
    client = app.test_client()
    ids = []          # created instance ids
    last = {}         # id -> clock value of creation / last access
    tmo = {}          # id -> seconds
    objs = {}
    def now():
        return (FakeClock.now_value - _real_datetime.datetime(2030, 1, 1)).total_seconds()
    def expired(u):
        return now() >= last[u] + tmo[u]
    def expect(step, swept_except=None):
        table = app._instance_manager._instances
        for u in ids:
            if u == swept_except:
                continue
            if u in gone:
                if u in table:
                    return "step %d: instance %d is back although it had timed out" % (step, ids.index(u))
                continue
            if expired(u):
                if u in table:
                    return "step %d: instance %d not accessed for %.6gs (timeout %.6gs) is still there" % (step, ids.index(u), now() - last[u], tmo[u])
                gone.add(u)
                if DESTROYED.count(objs[u]) != 1:
                    return "step %d: resources of timed-out instance %d released %d times" % (step, ids.index(u), DESTROYED.count(objs[u]))
            elif u not in table:
                return "step %d: instance %d vanished %.6gs after its last access (timeout %.6gs)" % (step, ids.index(u), now() - last[u], tmo[u])
        return None
    gone = set()
    held = []
    held_ids = set()
    for step, op in enumerate(case):
        if op[0] == "adapter":
            continue
        if op[0] == "create":
            u = start(client, timeout=op[1]); ids.append(u); last[u] = now()
            tmo[u] = sum(UNIT_SECONDS[k] * v for k, v in op[1].items())
            objs[u] = app._instance_manager._instances[u]["instance"]._verif_serial
            begin(client, u); last[u] = now()
            if use_adapter:
                client.post("/%s/run-step" % u); last[u] = now()        # a stepping request externalises the state
            bad = expect(step)
        elif op[0] == "advance":
            FakeClock.advance(op[1]); bad = None
        elif op[0] == "hold":
            # a stream in progress (instance locked) that nobody reads any more: it times out like any other instance
            live = [u for u in ids if u not in gone and not expired(u)]
            bad = None
            if live:
                u = live[op[1] % len(live)]
                r = client.post("/%s/stream-steps" % u, buffered=False)
                it = iter(r.response)
                try:
                    next(it); next(it)
                except StopIteration:
                    pass
                held.append((r, it)); held_ids.add(u)
                last[u] = now()
                bad = expect(step)
        elif op[0] == "metrics":
            r = client.get("/full-metrics" if op[1] else "/metrics")
            bad = expect(step)
            if not bad and op[1]:
                m = json.loads(r.data)
                alive = [u for u in ids if u not in gone]
                if m.get("instanceCount") != len(alive):
                    bad = "step %d: metrics report %r instances, %d are alive" % (step, m.get("instanceCount"), len(alive))
                elif sorted(k for k in m if k not in ("instanceCount", "threadCount")) != sorted(alive):
                    bad = "step %d: metrics list the wrong instances" % step
        elif op[0] == "access":
            if not ids:
                continue
            u = ids[op[1] % len(ids)]
            path = {"keep": "/%s/keep-alive", "step": "/%s/run-step", "results": "/%s/session-results"}[op[2]] % u
            was_expired = (u in gone) or expired(u)
            r = client.open(path, method="GET" if op[2] == "results" else "POST")
            if u in gone and use_adapter and op[2] != "keep":
                # its state was externalised: the request restores it transparently, and it lives on from this access
                bad = None
                if not (200 <= r.status_code < 300):
                    bad = "step %d: instance %d had timed out with its state externalised; the next request must restore it, it answered %d" % (step, ids.index(u), r.status_code)
                else:
                    gone.discard(u); last[u] = now()
                    objs[u] = app._instance_manager._instances[u]["instance"]._verif_serial
                    bad = expect(step)
            elif u in gone:
                # the id is no longer known: the request is refused and (not being an access to any instance) sweeps nothing
                bad = None
                if 200 <= r.status_code < 300 and not use_adapter:
                    bad = "step %d: timed-out instance %d answered %d" % (step, ids.index(u), r.status_code)
            elif was_expired:
                # expired but not swept yet: this access re-stamps it first, so it either survives or is refused
                if u in app._instance_manager._instances:
                    last[u] = now()
                else:
                    gone.add(u)
                bad = expect(step)
            else:
                if not (200 <= r.status_code < 300) and not (op[2] == "step" and u in held_ids):
                    return "step %d: live instance %d refused %s with %d" % (step, ids.index(u), op[2], r.status_code)
                last[u] = now()
                bad = expect(step)
        if bad:
            return bad
    return None

case = [('create', {'hours': 3}), ('create', {'microseconds': 3, 'minutes': 1}), ('create', {'milliseconds': 1}), ('create', {'weeks': 3, 'minutes': 1}), ('create', {'seconds': 90}), ('advance', 43200), ('access', 1, 'results'), ('advance', 86400), ('metrics', True), ('advance', 0.9), ('hold', 1), ('advance', 43200)]
bad = run(case)
print("timeline:", case)
print("FAIL: " + bad if bad else "PASS")
sys.stdout.flush()
os._exit(1 if bad else 0)
