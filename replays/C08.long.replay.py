import os, sys
sys.path.insert(0, os.environ.get("VERIF_REPO", "/repo"))

import math
from BPTK_Py import Model
from BPTK_Py import sd_functions as sd

DEFS0 = {"k": ("constant", 2.0), "g": ("converter", "k*1.5"), "h": ("converter", "g+s"), "f": ("flow", "g"), "o": ("flow", "s*0.1"),
         "s": ("stock", 3.0)}

def build(defs):
    m = Model(starttime=0.0, stoptime=6.0, dt=0.5)
    els = {n: getattr(m, kind)(n) for n, (kind, _) in defs.items()}
    for n, (kind, d) in defs.items():
        define(m, els, n, kind, d)
    els["s"].equation = els["f"] - els["o"]
    return m, els

def define(m, els, n, kind, d):
    if kind == "constant":
        els[n].equation = float(d)
    elif kind == "stock":
        # "@x": the initial value is the element x itself (its value at the start time), otherwise a number
        els[n].initial_value = els[d[1:]] if isinstance(d, str) else float(d)
    else:
        els[n].equation = eval(d, {"__builtins__": {}}, dict(els, T=sd.time(), sd=sd))

def run(ops):
    """ops: ('eval', name, t) | ('edit', name, new definition)"""
    defs = dict(DEFS0)
    m, els = build(defs)
    for op in ops:
        if op[0] == "eval":
            els[op[1]](op[2])
        elif op[0] == "plot":
            els[op[1]].plot(return_df=True)       # another way of reading: fills the memo through Element.plot
        else:
            kind = defs[op[1]][0]
            defs[op[1]] = (kind, op[2])
            define(m, els, op[1], kind, op[2])
    fresh_m, fresh = build(defs)
    for n in defs:
        for k in range(0, 13):
            t = k * 0.5
            a, b = els[n](t), fresh[n](t)
            if not math.isclose(a, b, rel_tol=1e-9, abs_tol=1e-9):
                return "%s(%r) = %r on the edited model, %r on a freshly built model with the final definitions" % (n, t, a, b)
    # repeating the evaluation returns identical results
    for n in defs:
        if els[n](6.0) != els[n](6.0):
            return "repeated evaluation of %s differs" % n
    return None

def run_stochastic(seed, order):
    import random as _r
    _r.seed(seed)
    m = Model(starttime=0.0, stoptime=5.0, dt=0.1)
    f = m.flow("f"); f.equation = sd.random(0.0, 1.0)
    a = m.stock("a"); a.initial_value = 0.0; a.equation = f
    b = m.stock("b"); b.initial_value = 100.0; b.equation = 0.0 - f * 1.0
    names = {"a": a, "b": b, "f": f}
    for n in order:
        names[n](5.0)
    ts = [round(i * 0.1, 1) for i in range(51)]
    for t0, t1 in zip(ts, ts[1:]):
        if not math.isclose(a(t1) - a(t0), 0.1 * f(t0), rel_tol=1e-9, abs_tol=1e-12):
            return "stock a consumed %r at t=%r but the flow reports %r" % ((a(t1) - a(t0)) / 0.1, t0, f(t0))
        if not math.isclose(a(t1) + b(t1), 100.0, rel_tol=1e-9, abs_tol=1e-9):
            return "a+b = %r at t=%r: the two stocks consumed different values of the same flow" % (a(t1) + b(t1), t1)
    return None

def run_stochastic_constant(seed):
    """a CONSTANT whose function is stochastic (a scenario constant given as an expression, installed the way scenarios do it):
    within one run it has one value per time, the value every dependent consumed"""
    import numpy as np
    from BPTK_Py.sdsimulation import SdSimulation
    np.random.seed(seed)
    m = Model(starttime=0.0, stoptime=4.0, dt=0.5)
    d = m.constant("demand"); d.equation = 3.0
    o = m.converter("orders"); o.equation = d * 2.0
    s = m.stock("s"); s.initial_value = 0.0; fl = m.flow("fl"); fl.equation = d * 1.0; s.equation = fl
    sim = SdSimulation(model=m, name="x")
    sim.change_equation(name="demand", value="float(np.random.poisson(3.0)) + float(np.random.random())")
    ts = [i * 0.5 for i in range(9)]
    for t in ts:
        if o(t) != 2.0 * d(t):
            return "orders(%r) = %r was computed from demand = %r, but demand(%r) is reported as %r" % (t, o(t), o(t) / 2.0, t, d(t))
    for t0, t1 in zip(ts, ts[1:]):
        if not math.isclose(s(t1) - s(t0), 0.5 * d(t0), rel_tol=1e-9, abs_tol=1e-12):
            return "the stock consumed demand = %r at t=%r, demand(%r) is reported as %r" % ((s(t1) - s(t0)) / 0.5, t0, t0, d(t0))
    if [d(t) for t in ts] != [d(t) for t in ts]:
        return "repeating the evaluation of the constant gives other values"
    return None

def run_long(n_steps, seed):
    """a long run of a stochastic element: every (element, time) keeps the one value its dependents consumed, however many
    entries the memo holds by then (bounded: n_steps is stated in the evidence)"""
    import random as _r
    _r.seed(seed)
    m = Model(starttime=0.0, stoptime=float(n_steps), dt=1.0)
    noise = m.converter("noise"); noise.equation = sd.random(0.0, 1.0)
    reading = m.converter("reading"); reading.equation = noise * 2.0
    first = [reading(float(t)) for t in range(n_steps + 1)]
    for t in range(n_steps + 1):
        v = noise(float(t))
        if 2.0 * v != first[t]:
            return "after %d steps: reading(%d) was computed from noise = %r, noise(%d) is now reported as %r" % (n_steps, t, first[t] / 2.0, t, v)
    for t in (0, 1, n_steps // 2, n_steps):
        if reading(float(t)) != first[t]:
            return "after %d steps: repeating reading(%d) gives %r, the first evaluation gave %r" % (n_steps, t, reading(float(t)), first[t])
    return None

bad = run_long(70001, 0)
print("FAIL: " + bad if bad else "PASS")
sys.exit(1 if bad else 0)
