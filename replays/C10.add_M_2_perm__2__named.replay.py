import os, sys
sys.path.insert(0, os.environ.get("VERIF_REPO", "/repo"))
sys.path.insert(0, '/verif')
from verif.native import c10_extract as X
from verif.native.c10_harness import judge
rec = X.run_case('add', (('M', (2,), 'perm'), (2,)), True)
bad = judge(rec)
print("case:", 'add[M(2,perm);2].named')
print("FAIL: " + bad if bad else "PASS")
sys.stdout.flush()
os._exit(1 if bad else 0)
