import os, sys
sys.path.insert(0, os.environ.get("VERIF_REPO", "/repo"))

import json, datetime as _real_datetime
from BPTK_Py import Model, bptk
from BPTK_Py.server import BptkServer
import BPTK_Py.server.bptkServer as srvmod

DESTROYED = []      # serial numbers of destroyed bptk objects (NOT id(): python reuses the id of a freed object)
_SERIAL = [0]

SM = ["sm"]          # name of the scenario manager the factory registers (a harness may switch it, e.g. to "2024")
RUNSPEC = [1.0, 10.0, 1.0]
TWO = [False]        # True: the factory registers a second manager "sm2" (another model) and sessions span both managers

def make_bptk():
    m = Model(starttime=RUNSPEC[0], stoptime=RUNSPEC[1], dt=RUNSPEC[2], name="m")
    s = m.stock("s"); f = m.flow("f"); c = m.constant("c")
    s.initial_value = 0.0; c.equation = 1.0; f.equation = c; s.equation = f
    b = bptk()
    b.register_model(m)
    b.register_scenario_manager({SM[0]: {"model": m}})
    b.register_scenarios(scenario_manager=SM[0], scenarios={"base": {"constants": {"c": 1.0}}})
    if TWO[0]:
        m2 = Model(starttime=RUNSPEC[0], stoptime=RUNSPEC[1], dt=RUNSPEC[2], name="m2")
        s2 = m2.stock("s"); f2 = m2.flow("f"); c2 = m2.constant("c")
        s2.initial_value = 5.0; c2.equation = 3.0; f2.equation = c2 * 2.0; s2.equation = f2
        b.register_scenario_manager({"sm2": {"model": m2}})
        b.register_scenarios(scenario_manager="sm2", scenarios={"base": {"constants": {"c": 3.0}}})
    orig = b.destroy
    _SERIAL[0] += 1
    b._verif_serial = _SERIAL[0]
    def destroy(orig=orig, b=b):
        DESTROYED.append(b._verif_serial); return orig()
    b.destroy = destroy
    return b

class FakeClock:
    now_value = _real_datetime.datetime(2030, 1, 1, 0, 0, 0)
    class datetime(_real_datetime.datetime):
        @classmethod
        def now(cls, tz=None):
            return FakeClock.now_value
    timedelta = _real_datetime.timedelta
    @classmethod
    def advance(cls, seconds):
        cls.now_value = cls.now_value + _real_datetime.timedelta(seconds=seconds)

def make_app(token=None, fake_clock=False, adapter=None):
    if fake_clock:
        srvmod.datetime = FakeClock
    app = BptkServer(__name__, make_bptk, external_state_adapter=adapter, bearer_token=token)
    return app

BEGIN = {"scenario_managers": ["sm"], "scenarios": ["base"], "equations": ["s", "c"]}

def start(client, headers=None, timeout=None):
    r = client.post("/start-instance", json=({"timeout": timeout} if timeout else None), headers=headers or {})
    return json.loads(r.data)["instance_uuid"]

def begin(client, u, headers=None):
    return client.post("/%s/begin-session" % u, json=dict(BEGIN, scenario_managers=[SM[0]] + (["sm2"] if TWO[0] else [])), headers=headers or {})

def digest(app):
    """server-side state that a refused request must not change"""
    d = {}
    for k, rec in app._instance_manager._instances.items():
        ss = rec["instance"].session_state
        d[k] = None if ss is None else (ss.get("step"), ss.get("lock"), len(ss.get("results_log", {}) or {}), repr(ss.get("settings_log"))[:200])
    sc = app._bptk.get_scenario(SM[0], "base")
    return (d, dict(sc.constants), len(DESTROYED))

import os, sys, time

def isolated(fn, *args, **kw):
    """run fn in a forked child and return its (pickled) result: process-wide state a run leaves behind (class
    attributes, module globals) must not leak from the interleaved run into the solo runs it is compared with"""
    import pickle, select, signal
    r, w = os.pipe()
    sys.stdout.flush()
    pid = os.fork()
    if pid == 0:
        try:
            os.close(r)
            try:
                res = ("ok", fn(*args, **kw))
            except BaseException as e:
                res = ("err", "%s: %s" % (type(e).__name__, e))
            with os.fdopen(w, "wb") as f:
                pickle.dump(res, f)
        finally:
            os._exit(0)
    os.close(w)
    data = b""
    deadline = time.time() + 300
    with os.fdopen(r, "rb") as f:
        while True:
            left = deadline - time.time()
            if left <= 0 or not select.select([f], [], [], left)[0]:
                os.kill(pid, signal.SIGKILL)
                os.waitpid(pid, 0)
                raise RuntimeError("isolated run did not finish in 300 s")
            chunk = os.read(f.fileno(), 1 << 16)
            if not chunk:
                break
            data += chunk
    os.waitpid(pid, 0)
    kind, val = pickle.loads(data)
    if kind == "err":
        raise RuntimeError(val)
    return val


import os, shutil, tempfile, copy
from BPTK_Py.externalstateadapter import FileAdapter

def norm(x):
    """JSON-ish normal form: dict keys as strings of floats where they are numbers"""
    if isinstance(x, dict):
        out = {}
        for k, v in x.items():
            try:
                k2 = "%.6f" % float(k)
            except (TypeError, ValueError):
                k2 = str(k)
            out[k2] = norm(v)
        return out
    if isinstance(x, (list, tuple)):
        return [norm(v) for v in x]
    if isinstance(x, float):
        return round(x, 9)
    return x

def step_req(client, u, kind):
    """kind: 'set' (settings with a constant), 'empty' (settings {}), 'none' (no body)"""
    if kind == "none":
        return client.post("/%s/run-step" % u)
    if kind == "empty":
        return client.post("/%s/run-step" % u, json={"settings": {}})
    if kind.startswith("multi"):
        # one request that advances two steps with the same settings object
        return client.post("/%s/run-steps" % u, json={"numberSteps": 2, "settings": {SM[0]: {"base": {"constants": {"c": float(kind[5:])}}}}})
    return client.post("/%s/run-step" % u, json={"settings": {SM[0]: {"base": {"constants": {"c": float(kind)}}}}})

def snapshot(app, client, u):
    ss = app._instance_manager._instances[u]["instance"].session_state
    keep_clock = ss.get("step")
    r1 = client.get("/%s/session-results" % u)
    r2 = client.get("/%s/flat-session-results" % u)
    keep = {k: ss[k] for k in ss if k != "lock"}
    def body(r):
        try:
            return json.loads(r.data) if r.status_code == 200 else {"HTTP status": r.status_code}
        except ValueError:
            return {"HTTP status": r.status_code, "body": "not JSON"}
    return norm(dict(state=keep, results=body(r1), flat=body(r2)))

def run_c19(case):
    """case: dict(compress, kinds=[...per step...], mode='evict'|'server', manager='sm'|'2024', runspec=[start, stop, dt])"""
    d = tempfile.mkdtemp()
    SM[0] = case.get("manager", "sm")
    RUNSPEC[:] = case.get("runspec", [1.0, 10.0, 1.0])
    try:
        app = make_app(fake_clock=True, adapter=FileAdapter(case["compress"], d))
        client = app.test_client()
        u = start(client, timeout={"seconds": 100}); begin(client, u)
        if case.get("resession"):
            # an earlier session of the same instance that was saved at the same clock positions
            for kind in case["resession"]:
                step_req(client, u, kind)
            client.post("/%s/begin-session" % u, json={"scenario_managers": [SM[0]], "scenarios": ["base"], "equations": ["s"]})
        for kind in case["kinds"]:
            r = step_req(client, u, kind)
            if r.status_code != 200:
                return "run-step (%s settings) answered %d with the %scompressing adapter" % (kind, r.status_code, "" if case["compress"] else "non-")
        before = snapshot(app, client, u)
        if case["mode"] == "evict":
            FakeClock.advance(1000)
            client.get("/full-metrics")
            if u in app._instance_manager._instances:
                return "instance not evicted"
            r = client.get("/%s/session-results" % u)         # transparent restore
            if r.status_code != 200:
                return "restore after eviction failed with %d" % r.status_code
            after = snapshot(app, client, u)
        else:
            r = client.get("/save-state")
            if r.status_code != 200:
                return "/save-state answered %d" % r.status_code
            app2 = make_app(fake_clock=True, adapter=FileAdapter(case["compress"], d))
            if u not in app2._instance_manager._instances:
                return "instance missing after a whole-server restore"
            after = snapshot(app2, app2.test_client(), u)
        if before != after:
            for k in before:
                if before[k] != after[k]:
                    sub = [kk for kk in before[k] if isinstance(before[k], dict) and before[k].get(kk) != (after[k].get(kk) if isinstance(after[k], dict) else None)] if isinstance(before[k], dict) else []
                    return "restored session differs in %s %s: before %s after %s" % (k, sub[:4], str({s: before[k][s] for s in sub[:2]})[:200], str({s: after[k].get(s) for s in sub[:2]})[:200])
        return None
    finally:
        shutil.rmtree(d, ignore_errors=True)

def _c20_begin2():
    return {"scenario_managers": ["sm"] + (["sm2"] if TWO[0] else []), "scenarios": ["base"], "equations": ["s"]}

def _c20_prehistory(case, cl, uu):
    # an earlier session of the same instance with other equations, m steps long, saved at the same clock positions
    if case.get("resession"):
        for _ in range(int(case["resession"])):
            step_req(cl, uu, "1.0" if case["compress"] else "none")
        cl.post("/%s/begin-session" % uu, json=_c20_begin2())

def _c20_setup(case):
    SM[0] = "sm"
    TWO[0] = bool(case.get("two"))
    RUNSPEC[:] = case.get("runspec", [1.0, 10.0, 1.0])

def _c20_reference(case, d_ref):
    """the uninterrupted session: every request answered by one server process"""
    _c20_setup(case)
    ref = make_app(fake_clock=True, adapter=FileAdapter(case["compress"], d_ref))
    rc = ref.test_client()
    ur = start(rc, timeout={"hours": 5}); begin(rc, ur)
    _c20_prehistory(case, rc, ur)
    ref_out = []
    for kind in case["kinds"]:
        r = step_req(rc, ur, kind); ref_out.append((r.status_code, norm(json.loads(r.data))))
    return ref_out

def _c20_before_crash(case, d):
    """the server process that is lost after request crash_at; only the external state in d survives it"""
    _c20_setup(case)
    app = make_app(fake_clock=True, adapter=FileAdapter(case["compress"], d))
    c = app.test_client()
    u = start(c, timeout={"hours": 5}); begin(c, u)
    others = []
    for _ in range(case.get("neighbours", 0)):
        o = start(c, timeout={"hours": 5}); begin(c, o); step_req(c, o, "none" if not case["compress"] else "1.0"); others.append(o)
    _c20_prehistory(case, c, u)
    for kind in case["kinds"][:case["crash_at"]]:
        step_req(c, u, kind)
    return u, others

def _c20_after_crash(case, d, u, others, ref_out):
    """a new server process on the same external state"""
    _c20_setup(case)
    k = case["crash_at"]
    try:
        app2 = make_app(fake_clock=True, adapter=FileAdapter(case["compress"], d))
    except Exception as e:
        return "a new server on the same external state does not start: %s: %s" % (type(e).__name__, e)
    c2 = app2.test_client()
    for o in others:
        r = c2.get("/%s/session-results" % o)
        if r.status_code != 200:
            return "a neighbouring instance was not restored (%d)" % r.status_code
    if case.get("torn") is not None:
        return None                                # a damaged file may cost that one instance
    if k == 0:
        return None                                # nothing had been externalised yet
    out = []
    for kind in case["kinds"][k:]:
        r = step_req(c2, u, kind)
        try:
            out.append((r.status_code, norm(json.loads(r.data))))
        except Exception:
            out.append((r.status_code, None))
    if out != ref_out[k:]:
        for i, (a, b) in enumerate(zip(out, ref_out[k:])):
            if a != b:
                return "after a crash behind request %d, request %d answers %s, an uninterrupted session answers %s" % (k, k + i + 1, str(a)[:160], str(b)[:160])
    return None

def run_c20(case):
    """case: dict(compress, kinds=[...], crash_at=k, torn=None|fraction, neighbours=0|1).  The three server processes of a
    case (reference, before the crash, after the crash) are forked children of the harness: whatever the first keeps in
    process memory (module globals, class attributes) is really gone when the third one starts."""
    d = tempfile.mkdtemp()
    d_ref = tempfile.mkdtemp()
    try:
        ref_out = isolated(_c20_reference, case, d_ref)
        u, others = isolated(_c20_before_crash, case, d)
        path = os.path.join(d, u + ".json")
        if case.get("torn") is not None and os.path.exists(path):
            data = open(path).read()
            open(path, "w").write(data[: int(len(data) * case["torn"])])
        return isolated(_c20_after_crash, case, d, u, others, ref_out)
    finally:
        shutil.rmtree(d, ignore_errors=True); shutil.rmtree(d_ref, ignore_errors=True)

case = {'compress': False, 'kinds': ['1.0', '1.0', '1.0', '1.0'], 'crash_at': 2, 'torn': None, 'neighbours': 0, 'resession': 0, 'two': True}
bad = run_c20(case)
print("case:", case)
print("FAIL: " + bad if bad else "PASS")
sys.stdout.flush()
os._exit(1 if bad else 0)
