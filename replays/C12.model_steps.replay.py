import os, sys
sys.path.insert(0, os.environ.get("VERIF_REPO", "/repo"))

from BPTK_Py import Model, Agent
from BPTK_Py.modeling.simultaneousScheduler import SimultaneousScheduler
from BPTK_Py.modeling.dataCollector import DataCollector

TR = []

class DC(DataCollector):
    def collect_agent_statistics(self, time, agents):
        TR.append(("collect", time))
        return super().collect_agent_statistics(time, agents)

class TA(Agent):
    def initialize(self):
        self.agent_type = "a"
    def handle_events(self, time, r, s):
        TR.append(("handle", self.id, time))
        return super().handle_events(time, r, s)
    def act(self, time, r, s):
        TR.append(("act", self.id, time))
        for (when, victim) in self.model.kills:
            if when == (r, s, self.id):
                self.model.delete_agent(victim)

class TB(TA):
    def initialize(self):
        self.agent_type = "b"

class TM(Model):
    def begin_round(self, time, r, s):
        TR.append(("begin", time, r, s))
    def end_round(self, time, r, s):
        TR.append(("end", time, r, s))

def run(case):
    """case: dict(start, stop, n, agents, collect, mode='run'|'steps', kills=[((r,s,actor), victim)])"""
    del TR[:]
    n = case["n"]; dt = 1.0 / n
    m = TM(scheduler=SimultaneousScheduler(), data_collector=DC())
    m.kills = case.get("kills", [])
    m.run_specs(case["start"], case["stop"], dt)
    m.register_agent_factory("a", lambda i, mod, p: TA(i, mod, p))
    m.register_agent_factory("b", lambda i, mod, p: TB(i, mod, p))
    types = case.get("types") or ["a"] * case["agents"]
    for i in range(case["agents"]):
        m.create_agent(types[i % len(types)], None)       # agent types interleaved in creation order
    live = list(range(case["agents"]))
    exp = []
    try:
        if case["mode"] == "run" and not m.kills:
            m.run(False, case["collect"])
        else:
            for r in range(case["start"], case["stop"] + 1):
                for s in range(n):
                    m.scheduler.run_step(m, r, s, None, case["collect"])
    except Exception as e:
        return "raised %s: %s" % (type(e).__name__, e)
    pos = 0
    for r in range(case["start"], case["stop"] + 1):
        for s in range(n):
            t = r + s * dt
            whole = list(live)
            dead = []
            for (when, victim) in m.kills:
                if when[0] == r and when[1] == s and when[2] in live and victim in live and victim not in dead:
                    dead.append(victim)
            # agents that stay in the model for the whole step handle their events and act exactly once, in creation order
            must = [a for a in whole if a not in dead]
            seg_end = pos
            while seg_end < len(TR) and not (TR[seg_end][0] == "end"):
                seg_end += 1
            seg = TR[pos:seg_end + 1]
            if not seg or seg[0] != ("begin", t, r, s):
                return "step (%d,%d): expected begin at trace position %d, got %r" % (r, s, pos, seg[:1])
            if seg[-1] != ("end", t, r, s):
                return "step (%d,%d): missing end record" % (r, s)
            acts = [x[1] for x in seg if x[0] == "act"]
            hands = [x[1] for x in seg if x[0] == "handle"]
            for a in must:
                if acts.count(a) != 1 or hands.count(a) != 1:
                    return "step (%d,%d): live agent %d handled %d times and acted %d times (acted: %r)" % (r, s, a, hands.count(a), acts.count(a), acts)
            if [a for a in acts if a in must] != must:
                return "step (%d,%d): act order %r, expected creation order %r" % (r, s, acts, must)
            for i in range(1, len(seg) - 1, 2):
                if not (seg[i][0] == "handle" and seg[i + 1][0] == "act" and seg[i][1] == seg[i + 1][1]):
                    return "step (%d,%d): handle/act not paired: %r" % (r, s, seg)
            pos = seg_end + 1
            want_collect = case["collect"] or (r == case["stop"] and s == n - 1)
            if want_collect:
                if pos >= len(TR) or TR[pos] != ("collect", t):
                    return "step (%d,%d): expected statistics for time %r, trace continues with %r" % (r, s, t, TR[pos:pos + 1])
                pos += 1
            elif pos < len(TR) and TR[pos][0] == "collect":
                return "step (%d,%d): statistics recorded for time %r although data collection is off" % (r, s, TR[pos][1])
            live = [a for a in live if a not in dead]
    if pos != len(TR):
        return "extra trace records after the last step: %r" % (TR[pos:pos + 3],)
    # every time for which statistics were due has an entry in the collector (also when no agent was there to be counted)
    due = [r + s * dt for r in range(case["start"], case["stop"] + 1) for s in range(n)
           if case["collect"] or (r == case["stop"] and s == n - 1)]
    try:
        have = sorted(m.statistics().keys())
    except Exception as e:
        return "statistics() raised %s: %s" % (type(e).__name__, e)
    if have != sorted(due):
        return "statistics hold entries for the times %r, they were due for %r (%d agents)" % (have[:8], sorted(due)[:8], case["agents"])
    if case.get("again") and not m.kills:
        # the same model is run once more without data collection: its statistics are those of THAT run (the final step only)
        try:
            m.run(False, False)
            keys = sorted(m.statistics().keys())
        except Exception as e:
            return "second run raised %s: %s" % (type(e).__name__, e)
        last = case["stop"] + (n - 1) * dt
        if keys != [last]:
            return "after a second run without data collection the statistics hold the times %r, that run recorded only %r" % (keys[:6], [last])
    return None

def run_model_steps(case):
    """steps driven from outside through Model.run_step(k): step k is the time k*dt; every step inside the run is executed
    (begin_round, every agent, end_round, statistics).  case = (steps per round, stop time, agents)"""
    del TR[:]
    n, stop, agents = case
    dt = 1.0 / n
    m = TM(scheduler=SimultaneousScheduler(), data_collector=DC())
    m.kills = []
    m.run_specs(0, stop, dt)
    m.register_agent_factory("a", lambda i, mod, p: TA(i, mod, p))
    for i in range(agents):
        m.create_agent("a", None)
    total = stop * n
    try:
        for k in range(total + 1):
            m.run_step(k, False, True)
    except Exception as e:
        return "Model.run_step raised %s: %s" % (type(e).__name__, e)
    exp = []
    for k in range(total + 1):
        t = 0 + k * dt
        exp.append(("begin", t, 0, k))
        for a in range(agents):
            exp.append(("handle", a, t)); exp.append(("act", a, t))
        exp.append(("end", t, 0, k)); exp.append(("collect", t))
    if TR != exp:
        for i, (x, y) in enumerate(zip(TR, exp)):
            if x != y:
                return "Model.run_step over %d steps (dt %r, stop %r): trace record %d is %r, expected %r" % (total + 1, dt, stop, i, x, y)
        return "Model.run_step over %d steps (dt %r, stop %r): %d trace records, expected %d (first missing: %r)" % (total + 1, dt, stop, len(TR), len(exp), exp[len(TR):len(TR) + 1])
    return None

case = (2, 2, 3)
bad = run_model_steps(case)
print("case (steps per round, stop, agents):", case)
print("FAIL: " + bad if bad else "PASS")
sys.exit(1 if bad else 0)
