import os, sys
sys.path.insert(0, os.environ.get("VERIF_REPO", "/repo"))
sys.path.insert(0, '/verif')
from verif.native import c10_extract as X
from verif.native.c10_harness import judge
rec = X.run_case('dot', ((12, 11), (11, 12)), False)
bad = judge(rec)
print("case:", 'dot[12x11;11x12]')
print("FAIL: " + bad if bad else "PASS")
sys.stdout.flush()
os._exit(1 if bad else 0)
