import os, sys
sys.path.insert(0, os.environ.get("VERIF_REPO", "/repo"))
sys.path.insert(0, '/verif')

import os, sys, json, tempfile, shutil
from verif.native.xmile_gen import xmile

def run_files(case):
    """case: dict(base_rate, scen_rate | None, same_file) -> None | text.  Two managers laid out symmetrically over
    a_part.json / z_part.json so that the outcome does not depend on the directory listing order."""
    d = tempfile.mkdtemp(prefix="c07_files_")
    cwd = os.getcwd()
    try:
        os.makedirs(os.path.join(d, "scenarios")); os.makedirs(os.path.join(d, "models"))
        with open(os.path.join(d, "models", "m.stmx"), "w") as f:
            f.write(xmile("m", 0, 10, 1, [dict(kind="stock", name="level", eqn="0", inflows=["inflow"], outflows=[]),
                                           dict(kind="flow", name="inflow", eqn="rate"), dict(kind="aux", name="rate", eqn="1")]))
        files = {"a_part.json": {}, "z_part.json": {}}
        def manager(name, base_file, scen_file):
            head = {"model": "models/m", "source": "models/m.stmx"}
            scen = {"run": {"constants": ({"rate": case["scen_rate"]} if case["scen_rate"] is not None else {})}}
            base = {"rate": case["base_rate"]} if case["base_rate"] is not None else {}
            if base_file == scen_file:
                files[base_file][name] = dict(head, base_constants=base, scenarios=scen)
            else:
                files[base_file][name] = dict(head, base_constants=base, scenarios={})
                files[scen_file][name] = dict(head, scenarios=scen)
        if case["same_file"]:
            manager("alpha", "a_part.json", "a_part.json"); manager("omega", "z_part.json", "z_part.json")
        else:
            manager("alpha", "a_part.json", "z_part.json"); manager("omega", "z_part.json", "a_part.json")
        for fn, content in files.items():
            with open(os.path.join(d, "scenarios", fn), "w") as f:
                json.dump(content, f)
        os.chdir(d); sys.path.insert(0, d)
        from BPTK_Py import bptk
        b = bptk()
        want_rate = case["scen_rate"] if case["scen_rate"] is not None else (case["base_rate"] if case["base_rate"] is not None else 1.0)
        for mgr in ("alpha", "omega"):
            df = b.run_scenarios(scenario_managers=[mgr], scenarios=["run"], equations=["level"], return_format="df")
            got = float(df.iloc[-1, 0])
            if abs(got - 10 * want_rate) > 1e-9:
                return ("scenario manager %r (base constants %s, scenario constants %s, %s): level(10) = %r, with the rate the settings determine (%r) it is %r"
                        % (mgr, {"rate": case["base_rate"]}, {"rate": case["scen_rate"]}, "one file" if case["same_file"] else "base values and scenario in different files", got, want_rate, 10 * want_rate))
        # an in-memory override (session settings), then the scenarios are read again from the unchanged files: the file values are back
        b.begin_session(scenarios=["run"], scenario_managers=["alpha"], equations=["level"], settings={"alpha": {"run": {"constants": {"rate": 50.0}}}})
        b.run_step(); b.end_session()
        b.reset_all_scenarios()
        df = b.run_scenarios(scenario_managers=["alpha"], scenarios=["run"], equations=["level"], return_format="df")
        got = float(df.iloc[-1, 0])
        if abs(got - 10 * want_rate) > 1e-9:
            return ("after an in-memory override (rate=50 through session settings) and reset_all_scenarios, scenario alpha/run read again from the unchanged "
                    "files gives level(10) = %r, the files determine %r" % (got, 10 * want_rate))
        return None
    finally:
        os.chdir(cwd)
        shutil.rmtree(d, ignore_errors=True)

case = {'base_rate': 3.0, 'scen_rate': None, 'same_file': False}
bad = run_files(case)
print("FAIL: " + bad if bad else "PASS")
sys.stdout.flush()
os._exit(1 if bad else 0)
