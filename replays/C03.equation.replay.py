import os, sys
sys.path.insert(0, os.environ.get("VERIF_REPO", "/repo"))
sys.path.insert(0, '/verif')

import os, sys, math, logging
from verif.native.xmile_gen import xmile, Compiled
from verif import c03_trees as T

DEFINED = {"alpha": "Alpha Rate", "beta": "beta", "gamma": "Gamma_Level", "delta": "DELTA"}
VALUES = {"alpha": 3.5, "beta": -1.25, "gamma": 0.0, "delta": 12.0}
REFS = {
    "asdefined": lambda n: DEFINED[n].replace(" ", "_"),
    "lower": lambda n: DEFINED[n].replace(" ", "_").lower(),
    "upper": lambda n: DEFINED[n].replace(" ", "_").upper(),
}

class _Warned(logging.Handler):
    def __init__(self):
        super().__init__(); self.msgs = []
    def emit(self, record):
        self.msgs.append(record.getMessage())

VALUES_B = {"alpha": -2.0, "beta": 4.5, "gamma": 1.0, "delta": 0.5}

def run(case):
    """case: (tree, [sources], start, dt[, 'modules']) -> None | text"""
    if len(case) == 5 and case[4] == "modules":
        return run_modules(case)
    tree, sources, start, dt = case
    variables = [dict(kind="aux", name=DEFINED[n], eqn=repr(v)) for n, v in VALUES.items()]
    for i, src in enumerate(sources):
        variables.append(dict(kind="aux", name="Result %d" % i, eqn=src))
    h = _Warned(); root = logging.getLogger(); root.addHandler(h)
    c = None
    try:
        try:
            c = Compiled(xmile("m", start, start + 4 * dt, dt, variables))
            sim = c.model()
        except BaseException as e:
            return None          # does not compile / load: fails loudly
        for t in (start, start + dt, start + 3 * dt):
            env = dict(VALUES, TIME=t, DT=dt, STARTTIME=start)
            try:
                want = T.eval_num(tree, env)
                if isinstance(want, complex) or want != want or abs(want) == float("inf"):
                    continue
            except (ZeroDivisionError, ValueError, OverflowError, TypeError):
                continue
            for i, src in enumerate(sources):
                try:
                    got = sim.equation("result%d" % i, t)
                    got = float(got)
                except BaseException:
                    continue     # raises when evaluated: fails loudly
                if got != got or abs(got - want) > 1e-9 * max(1.0, abs(want)):
                    silent = [m for m in h.msgs if "has not been implemented yet" in m]
                    return ("%sXMILE equation %r evaluates to %r at t=%r in the transpiled model, the XMILE value is %r (alpha=3.5, beta=-1.25, gamma=0, delta=12; same tree as %r)"
                            % ("[unknown function replaced by 0] " if silent else "", src, got, t, want, T.show(tree)))
        return None
    finally:
        root.removeHandler(h)
        if c is not None:
            c.cleanup()

def run_modules(case):
    """the same equation texts in two modules over module-local variables with different values: each module's
    equations must be computed from its own variables"""
    tree, sources, start, dt, _ = case
    mods = {}
    for mname, vals in (("Plant A", VALUES), ("Plant B", VALUES_B)):
        vs = [dict(kind="aux", name=DEFINED[n], eqn=repr(v)) for n, v in vals.items()]
        for i, src in enumerate(sources):
            vs.append(dict(kind="aux", name="Result %d" % i, eqn=src))
        mods[mname] = vs
    c = None
    try:
        try:
            c = Compiled(xmile("m", start, start + 4 * dt, dt, [dict(kind="aux", name="total", eqn="Plant_A.Result_0 + Plant_B.Result_0")], modules=mods))
            sim = c.model()
        except BaseException:
            return None
        for t in (start, start + dt):
            for mname, pre, vals in (("Plant A", "plantA", VALUES), ("Plant B", "plantB", VALUES_B)):
                env = dict(vals, TIME=t, DT=dt, STARTTIME=start)
                try:
                    want = T.eval_num(tree, env)
                    if isinstance(want, complex) or want != want or abs(want) == float("inf"):
                        continue
                except (ZeroDivisionError, ValueError, OverflowError, TypeError):
                    continue
                for i, src in enumerate(sources):
                    try:
                        got = float(sim.equation("%s.result%d" % (pre, i), t))
                    except BaseException:
                        continue
                    if got != got or abs(got - want) > 1e-9 * max(1.0, abs(want)):
                        return ("module %r: XMILE equation %r evaluates to %r at t=%r, with the module's own variables %r the XMILE value is %r (the other module holds %r)"
                                % (mname, src, got, t, vals, want, VALUES_B if vals is VALUES else VALUES))
        return None
    finally:
        if c is not None:
            c.cleanup()

case = (['neg', ['bin', '-', ['bin', '-', ['call', 'MIN', [['var', 'gamma'], ['num', 3.0]]], ['bin', '*', ['var', 'alpha'], ['var', 'beta']]], ['bin', '*', ['bin', '/', ['num', 7.0], ['var', 'beta']], ['bin', '*', ['num', 3.0], ['var', 'delta']]]]], ['(-((MIN(gamma_level,  3)  -  ((alpha_rate)  *  beta))  -  7  /  (beta)  *  (3  *  delta)))', '-(Min(Gamma_Level,3.0)-((Alpha_Rate)*beta)-(7.0)/beta*(3.0*(DELTA)))', '-(MIN(Gamma_Level, 3.0) - Alpha_Rate * beta - 7.0 / beta * (3.0 * DELTA))'], 0, 1)
bad = run(case)
print("FAIL: " + bad if bad else "PASS")
sys.stdout.flush()
os._exit(1 if bad else 0)
