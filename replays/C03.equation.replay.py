import os, sys
sys.path.insert(0, os.environ.get("VERIF_REPO", "/repo"))
sys.path.insert(0, '/verif')

import os, sys, math, logging
from verif.native.xmile_gen import xmile, Compiled
from verif import c03_trees as T

DEFINED = {"alpha": "Alpha Rate", "beta": "beta", "gamma": "Gamma_Level", "delta": "DELTA"}
VALUES = {"alpha": 3.5, "beta": -1.25, "gamma": 0.0, "delta": 12.0}
REFS = {
    "asdefined": lambda n: DEFINED[n].replace(" ", "_"),
    "lower": lambda n: DEFINED[n].replace(" ", "_").lower(),
    "upper": lambda n: DEFINED[n].replace(" ", "_").upper(),
}

class _Warned(logging.Handler):
    def __init__(self):
        super().__init__(); self.msgs = []
    def emit(self, record):
        self.msgs.append(record.getMessage())

VALUES_B = {"alpha": -2.0, "beta": 4.5, "gamma": 1.0, "delta": 0.5}

def run(case):
    """case: (tree, [sources], start, dt[, 'modules']) -> None | text"""
    if len(case) == 5 and case[4] == "modules":
        return run_modules(case)
    tree, sources, start, dt = case
    variables = [dict(kind="aux", name=DEFINED[n], eqn=repr(v)) for n, v in VALUES.items()]
    for i, src in enumerate(sources):
        variables.append(dict(kind="aux", name="Result %d" % i, eqn=src))
    h = _Warned(); root = logging.getLogger(); root.addHandler(h)
    c = None
    try:
        try:
            c = Compiled(xmile("m", start, start + 4 * dt, dt, variables))
            sim = c.model()
        except BaseException as e:
            return None          # does not compile / load: fails loudly
        for t in (start, start + dt, start + 3 * dt):
            env = dict(VALUES, TIME=t, DT=dt, STARTTIME=start)
            try:
                want = T.eval_num(tree, env)
                if isinstance(want, complex) or want != want or abs(want) == float("inf"):
                    continue
            except (ZeroDivisionError, ValueError, OverflowError, TypeError):
                continue
            for i, src in enumerate(sources):
                try:
                    got = sim.equation("result%d" % i, t)
                    got = float(got)
                except BaseException:
                    continue     # raises when evaluated: fails loudly
                if got != got or abs(got - want) > 1e-9 * max(1.0, abs(want)):
                    silent = [m for m in h.msgs if "has not been implemented yet" in m]
                    return ("%sXMILE equation %r evaluates to %r at t=%r in the transpiled model, the XMILE value is %r (alpha=3.5, beta=-1.25, gamma=0, delta=12; same tree as %r)"
                            % ("[unknown function replaced by 0] " if silent else "", src, got, t, want, T.show(tree)))
        return None
    finally:
        root.removeHandler(h)
        if c is not None:
            c.cleanup()

def run_modules(case):
    """the same equation texts in two modules over module-local variables with different values: each module's
    equations must be computed from its own variables"""
    tree, sources, start, dt, _ = case
    mods = {}
    for mname, vals in (("Plant A", VALUES), ("Plant B", VALUES_B)):
        vs = [dict(kind="aux", name=DEFINED[n], eqn=repr(v)) for n, v in vals.items()]
        for i, src in enumerate(sources):
            vs.append(dict(kind="aux", name="Result %d" % i, eqn=src))
        mods[mname] = vs
    c = None
    try:
        try:
            c = Compiled(xmile("m", start, start + 4 * dt, dt, [dict(kind="aux", name="total", eqn="Plant_A.Result_0 + Plant_B.Result_0")], modules=mods))
            sim = c.model()
        except BaseException:
            return None
        for t in (start, start + dt):
            for mname, pre, vals in (("Plant A", "plantA", VALUES), ("Plant B", "plantB", VALUES_B)):
                env = dict(vals, TIME=t, DT=dt, STARTTIME=start)
                try:
                    want = T.eval_num(tree, env)
                    if isinstance(want, complex) or want != want or abs(want) == float("inf"):
                        continue
                except (ZeroDivisionError, ValueError, OverflowError, TypeError):
                    continue
                for i, src in enumerate(sources):
                    try:
                        got = float(sim.equation("%s.result%d" % (pre, i), t))
                    except BaseException:
                        continue
                    if got != got or abs(got - want) > 1e-9 * max(1.0, abs(want)):
                        return ("module %r: XMILE equation %r evaluates to %r at t=%r, with the module's own variables %r the XMILE value is %r (the other module holds %r)"
                                % (mname, src, got, t, vals, want, VALUES_B if vals is VALUES else VALUES))
        return None
    finally:
        if c is not None:
            c.cleanup()

def run_names(_case=None):
    """variables whose names differ only in characters that are not identifier characters stay DIFFERENT variables"""
    variables = [dict(kind="aux", name="cost", eqn="3"), dict(kind="aux", name="Cost $", eqn="11"),
                 dict(kind="aux", name="share", eqn="0.25"), dict(kind="aux", name="Share %", eqn="25"),
                 dict(kind="aux", name="Probe 0", eqn="cost"), dict(kind="aux", name="Probe 1", eqn="cost_$"),
                 dict(kind="aux", name="Probe 2", eqn="share"), dict(kind="aux", name="Probe 3", eqn="Share_%"),
                 dict(kind="aux", name="Probe 4", eqn="cost_$ - cost + share_% / share")]
    want = [3.0, 11.0, 0.25, 25.0, 108.0]
    try:
        c = Compiled(xmile("m", 0, 2, 1, variables))
    except BaseException:
        return None
    try:
        try:
            sim = c.model()
        except BaseException:
            return None
        for i, w in enumerate(want):
            try:
                got = float(sim.equation("probe%d" % i, 1.0))
            except BaseException:
                continue
            if abs(got - w) > 1e-9:
                return ("document with the variables 'cost' = 3, 'Cost $' = 11, 'share' = 0.25, 'Share %%' = 25: the probe %r evaluates to %r, the XMILE value is %r"
                        % (variables[4 + i]["eqn"], got, w))
        return None
    finally:
        c.cleanup()

case = (['bin', '*', ['num', -0.5], ['var', 'alpha']], ['- .5 * Alpha_Rate'], 0, 1)
bad = run(case)
print("FAIL: " + bad if bad else "PASS")
sys.stdout.flush()
os._exit(1 if bad else 0)
