import os, sys
sys.path.insert(0, os.environ.get("VERIF_REPO", "/repo"))
sys.path.insert(0, '/verif')

import os, sys
from verif.native.xmile_gen import xmile, Compiled
from BPTK_Py.util import timerange

GF = [(0.0, 0.0), (10.0, 5.0), (20.0, 5.5), (30.0, 9.0)]

def lerp_ref(x, pts):
    if x <= pts[0][0]:
        return pts[0][1]
    if x >= pts[-1][0]:
        return pts[-1][1]
    for (x0, y0), (x1, y1) in zip(pts, pts[1:]):
        if x0 <= x <= x1:
            return y0 + (y1 - y0) * (x - x0) / (x1 - x0)

MODELS = {
    # name: (xmile variables, reference net flow given (state dict, t) -> {stock: net}, initial values)
    "tank": dict(
        variables=[
            dict(kind="stock", name="Tank", eqn="10", inflows=["fill", "adjust"], outflows=["drain", "leak"]),
            dict(kind="flow", name="fill", eqn="2 + rate", non_negative=True),
            dict(kind="flow", name="adjust", eqn="1 - Tank * 0.05"),
            dict(kind="flow", name="drain", eqn="Tank * 0.1", non_negative=True),
            dict(kind="flow", name="leak", eqn="curve * 0.2", non_negative=True),
            dict(kind="aux", name="rate", eqn="3"),
            dict(kind="aux", name="curve", eqn="Tank * 2 - 5", gf=GF)],
        init={"tank": 10.0},
        net=lambda s, t: {"tank": max(0, 2 + 3) + (1 - s["tank"] * 0.05) - (max(0, s["tank"] * 0.1) + max(0, lerp_ref(s["tank"] * 2 - 5, GF) * 0.2))}),
    "chain": dict(
        variables=[
            dict(kind="stock", name="Upper Pool", eqn="50", inflows=[], outflows=["spill", "evaporate", "pump"]),
            dict(kind="stock", name="Lower Pool", eqn="0", inflows=["spill", "pump"], outflows=["use"]),
            dict(kind="flow", name="spill", eqn="Upper_Pool * 0.2", non_negative=True),
            dict(kind="flow", name="evaporate", eqn="0.5", non_negative=True),
            dict(kind="flow", name="pump", eqn="(Upper_Pool - Lower_Pool) * 0.1"),
            dict(kind="flow", name="use", eqn="IF TIME > STARTTIME + 2 THEN Lower_Pool * 0.3 ELSE 0", non_negative=True)],
        init={"upperPool": 50.0, "lowerPool": 0.0},
        net=lambda s, t, start=None: None),
}

def chain_net(s, t, start):
    spill = max(0, s["upperPool"] * 0.2); evap = max(0, 0.5); pump = (s["upperPool"] - s["lowerPool"]) * 0.1
    use = max(0, (s["lowerPool"] * 0.3) if t > start + 2 else 0)
    return {"upperPool": -(spill + evap + pump), "lowerPool": spill + pump - use}

def reference(model, start, stop, dt):
    """explicit Euler, exactly one step per grid interval; -> {stock: [values on the grid]}, grid"""
    grid = timerange(start, stop, dt, exclusive=False)
    s = dict(MODELS[model]["init"])
    out = {k: [v] for k, v in s.items()}
    for k in range(1, len(grid)):
        tprev = grid[k - 1]
        net = chain_net(s, tprev, start) if model == "chain" else MODELS[model]["net"](s, tprev)
        s = {n: s[n] + dt * net[n] for n in s}
        for n in s:
            out[n].append(s[n])
    return out, grid

def run(case):
    model, start, stop, dt_text, reciprocal = case
    c = Compiled(xmile("m", start, stop, dt_text, MODELS[model]["variables"], reciprocal=reciprocal))
    try:
        sim = c.model()
        dt = sim.dt
        want = (1.0 / int(dt_text)) if reciprocal else float(dt_text)
        if abs(dt - want) > 1e-15:
            return "run spec: dt parsed as %r, the document says %s%s" % (dt, "1/" if reciprocal else "", dt_text)
        if float(sim.starttime) != float(start) or float(sim.stoptime) != float(stop):
            return "run spec: start/stop parsed as %r/%r, the document says %r/%r" % (sim.starttime, sim.stoptime, start, stop)
        ref, grid = reference(model, float(start), float(stop), dt)
        for name, vals in ref.items():
            for k, t in enumerate(grid):
                v = sim.equation(name, t)
                if abs(v - vals[k]) > 1e-9 * max(1.0, abs(vals[k])):
                    return ("%s(t=%r) = %r, explicit Euler with one step per grid interval gives %r (grid point %d of %d, start=%r, dt=%r)"
                            % (name, t, v, vals[k], k, len(grid) - 1, start, dt))
        return None
    finally:
        c.cleanup()

def run_dsl(case):
    """the tank model written in the SD DSL gives the same trajectory as the transpiled document"""
    model, start, stop, dt_text, reciprocal = case
    from BPTK_Py import Model
    from BPTK_Py import sd_functions as sd
    dt = (1.0 / int(dt_text)) if reciprocal else float(dt_text)
    m = Model(starttime=float(start), stoptime=float(stop), dt=dt, name="dsl")
    tank = m.stock("tank"); fill = m.flow("fill"); adjust = m.biflow("adjust"); drain = m.flow("drain"); rate = m.constant("rate")
    tank.initial_value = 10.0; rate.equation = 3.0
    fill.equation = 2.0 + rate; adjust.equation = 1.0 - tank * 0.05; drain.equation = tank * 0.1
    tank.equation = fill + adjust - drain
    c = Compiled(xmile("m", start, stop, dt_text, [
        dict(kind="stock", name="Tank", eqn="10", inflows=["fill", "adjust"], outflows=["drain"]),
        dict(kind="flow", name="fill", eqn="2 + rate", non_negative=True), dict(kind="flow", name="adjust", eqn="1 - Tank * 0.05"),
        dict(kind="flow", name="drain", eqn="Tank * 0.1", non_negative=True), dict(kind="aux", name="rate", eqn="3")], reciprocal=reciprocal))
    try:
        sim = c.model()
        for t in timerange(float(start), float(stop), dt, exclusive=False):
            a, b = sim.equation("tank", t), tank(t)
            if abs(a - b) > 1e-9 * max(1.0, abs(b)):
                return "tank(t=%r): transpiled XMILE gives %r, the same model in the SD DSL gives %r (start=%r, dt=%r)" % (t, a, b, start, dt)
        return None
    finally:
        c.cleanup()

def run_bptk(case):
    """the same through the framework: a scenario file with a 'source' entry, bptk.run_scenarios as a dataframe"""
    import tempfile, shutil, json as _json
    model, start, stop, dt_text, reciprocal = case
    d = tempfile.mkdtemp(prefix="c04_bptk_")
    cwd = os.getcwd()
    try:
        os.makedirs(os.path.join(d, "scenarios")); os.makedirs(os.path.join(d, "models"))
        with open(os.path.join(d, "models", "m.stmx"), "w") as f:
            f.write(xmile("m", start, stop, dt_text, MODELS[model]["variables"], reciprocal=reciprocal))
        with open(os.path.join(d, "scenarios", "s.json"), "w") as f:
            _json.dump({"xm": {"model": "models/m", "source": "models/m.stmx", "base_constants": {}, "scenarios": {"base": {"constants": {}}}}}, f)
        os.chdir(d)
        sys.path.insert(0, d)
        from BPTK_Py import bptk
        b = bptk()
        names = sorted(MODELS[model]["init"])
        df = b.run_scenarios(scenario_managers=["xm"], scenarios=["base"], equations=names, return_format="df")
        dt = (1.0 / int(dt_text)) if reciprocal else float(dt_text)
        ref, grid = reference(model, float(start), float(stop), dt)
        if len(df.index) != len(grid):
            return "bptk.run_scenarios returns %d rows, the grid from %r to %r with dt %r has %d points" % (len(df.index), start, stop, dt, len(grid))
        for name in names:
            col = [c for c in df.columns if name in c][0]
            for k, t in enumerate(grid):
                v = float(df[col].iloc[k])
                if abs(v - ref[name][k]) > 1e-9 * max(1.0, abs(ref[name][k])):
                    return "run_scenarios: %s at row %d (t=%r) = %r, explicit Euler gives %r (start=%r, dt=%r)" % (name, k, t, v, ref[name][k], start, dt)
        return None
    finally:
        os.chdir(cwd)
        shutil.rmtree(d, ignore_errors=True)

def run_lerp(_case=None):
    """graphical functions: linear between the points, clamped outside (XMILE continuous gf)"""
    c = Compiled(xmile("m", 0, 4, 1, [dict(kind="aux", name="curve", eqn="TIME * 10 - 8", gf=GF)]))
    try:
        sim = c.model()
        for t in [0.0, 0.5, 0.8, 1.0, 1.3, 2.0, 2.8, 3.0, 3.8, 4.0, 9.0, -3.0]:
            x = t * 10 - 8
            v, w = sim.equation("curve", t), lerp_ref(x, GF)
            if abs(v - w) > 1e-9:
                return "graphical function at x=%r evaluates to %r, linear interpolation with clamping gives %r" % (x, v, w)
        return None
    finally:
        c.cleanup()

case = ('chain', 1, 5.0, '0.1', False)
bad = run(case)
print("case:", case)
print("FAIL: " + bad if bad else "PASS")
sys.stdout.flush()
os._exit(1 if bad else 0)
