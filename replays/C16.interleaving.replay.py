import os, sys
sys.path.insert(0, os.environ.get("VERIF_REPO", "/repo"))

import json, datetime as _real_datetime
from BPTK_Py import Model, bptk
from BPTK_Py.server import BptkServer
import BPTK_Py.server.bptkServer as srvmod

DESTROYED = []      # serial numbers of destroyed bptk objects (NOT id(): python reuses the id of a freed object)
_SERIAL = [0]

SM = ["sm"]          # name of the scenario manager the factory registers (a harness may switch it, e.g. to "2024")
RUNSPEC = [1.0, 10.0, 1.0]
TWO = [False]        # True: the factory registers a second manager "sm2" (another model) and sessions span both managers

def make_bptk():
    m = Model(starttime=RUNSPEC[0], stoptime=RUNSPEC[1], dt=RUNSPEC[2], name="m")
    s = m.stock("s"); f = m.flow("f"); c = m.constant("c")
    s.initial_value = 0.0; c.equation = 1.0; f.equation = c; s.equation = f
    b = bptk()
    b.register_model(m)
    b.register_scenario_manager({SM[0]: {"model": m}})
    b.register_scenarios(scenario_manager=SM[0], scenarios={"base": {"constants": {"c": 1.0}}})
    if TWO[0]:
        m2 = Model(starttime=RUNSPEC[0], stoptime=RUNSPEC[1], dt=RUNSPEC[2], name="m2")
        s2 = m2.stock("s"); f2 = m2.flow("f"); c2 = m2.constant("c")
        s2.initial_value = 5.0; c2.equation = 3.0; f2.equation = c2 * 2.0; s2.equation = f2
        b.register_scenario_manager({"sm2": {"model": m2}})
        b.register_scenarios(scenario_manager="sm2", scenarios={"base": {"constants": {"c": 3.0}}})
    orig = b.destroy
    _SERIAL[0] += 1
    b._verif_serial = _SERIAL[0]
    def destroy(orig=orig, b=b):
        DESTROYED.append(b._verif_serial); return orig()
    b.destroy = destroy
    return b

class FakeClock:
    now_value = _real_datetime.datetime(2030, 1, 1, 0, 0, 0)
    class datetime(_real_datetime.datetime):
        @classmethod
        def now(cls, tz=None):
            return FakeClock.now_value
    timedelta = _real_datetime.timedelta
    @classmethod
    def advance(cls, seconds):
        cls.now_value = cls.now_value + _real_datetime.timedelta(seconds=seconds)

def make_app(token=None, fake_clock=False, adapter=None):
    if fake_clock:
        srvmod.datetime = FakeClock
    app = BptkServer(__name__, make_bptk, external_state_adapter=adapter, bearer_token=token)
    return app

BEGIN = {"scenario_managers": ["sm"], "scenarios": ["base"], "equations": ["s", "c"]}

def start(client, headers=None, timeout=None):
    r = client.post("/start-instance", json=({"timeout": timeout} if timeout else None), headers=headers or {})
    return json.loads(r.data)["instance_uuid"]

def begin(client, u, headers=None):
    return client.post("/%s/begin-session" % u, json=dict(BEGIN, scenario_managers=[SM[0]] + (["sm2"] if TWO[0] else [])), headers=headers or {})

def digest(app):
    """server-side state that a refused request must not change"""
    d = {}
    for k, rec in app._instance_manager._instances.items():
        ss = rec["instance"].session_state
        d[k] = None if ss is None else (ss.get("step"), ss.get("lock"), len(ss.get("results_log", {}) or {}), repr(ss.get("settings_log"))[:200])
    sc = app._bptk.get_scenario(SM[0], "base")
    return (d, dict(sc.constants), len(DESTROYED))

import os, sys, time

def isolated(fn, *args, **kw):
    """run fn in a forked child and return its (pickled) result: process-wide state a run leaves behind (class
    attributes, module globals) must not leak from the interleaved run into the solo runs it is compared with"""
    import pickle, select, signal
    r, w = os.pipe()
    sys.stdout.flush()
    pid = os.fork()
    if pid == 0:
        try:
            os.close(r)
            try:
                res = ("ok", fn(*args, **kw))
            except BaseException as e:
                res = ("err", "%s: %s" % (type(e).__name__, e))
            with os.fdopen(w, "wb") as f:
                pickle.dump(res, f)
        finally:
            os._exit(0)
    os.close(w)
    data = b""
    deadline = time.time() + 300
    with os.fdopen(r, "rb") as f:
        while True:
            left = deadline - time.time()
            if left <= 0 or not select.select([f], [], [], left)[0]:
                os.kill(pid, signal.SIGKILL)
                os.waitpid(pid, 0)
                raise RuntimeError("isolated run did not finish in 300 s")
            chunk = os.read(f.fileno(), 1 << 16)
            if not chunk:
                break
            data += chunk
    os.waitpid(pid, 0)
    kind, val = pickle.loads(data)
    if kind == "err":
        raise RuntimeError(val)
    return val


import os, sys, time, re, tempfile, shutil

def make_bptk2():
    m = Model(starttime=1.0, stoptime=12.0, dt=1.0, name="m")
    s = m.stock("s"); f = m.flow("f"); c = m.constant("c"); g = m.constant("g")
    s.initial_value = 0.0; c.equation = 1.0; g.equation = 2.0; f.equation = c * g; s.equation = f
    b = bptk()
    b.register_model(m)
    b.register_scenario_manager({"sm": {"model": m}})
    # "plain" is registered WITHOUT constants / points (the default a user gets from register_model)
    b.register_scenarios(scenario_manager="sm", scenarios={"base": {"constants": {"c": 1.0}}, "alt": {"constants": {"c": 3.0, "g": 0.5}}, "plain": {}})
    return b

def norm(data, ids):
    s = data.decode() if isinstance(data, bytes) else str(data)
    for u in ids:
        s = s.replace(u, "ID")
    # the order of the keys of a JSON object carries no meaning (the per-equation worker threads fill the frame in any order)
    try:
        if s.lstrip().startswith(("{", "[")):
            return json.dumps(json.loads(s), sort_keys=True)
    except ValueError:
        pass
    return s

def settings_of(v):
    if v is None:
        return None
    scen, const, val = v
    return {"sm": {scen: {"constants": {const: val}}}}

def perform(client, u, op):
    k = op[0]
    if k == "begin":
        body = {"scenario_managers": ["sm"], "scenarios": list(op[1]), "equations": list(op[2])}
        if op[3] is not None:
            body["settings"] = settings_of(op[3])
        return client.post("/%s/begin-session" % u, json=body)
    if k == "step":
        s = settings_of(op[1])
        return client.post("/%s/run-step" % u, json=({"settings": s} if s is not None else None))
    if k == "steps":
        body = {"numberSteps": op[1]}
        if op[2] is not None:
            body["settings"] = settings_of(op[2])
        return client.post("/%s/run-steps" % u, json=body)
    if k == "stream":
        return client.post("/%s/stream-steps" % u, json={"settings": settings_of(op[1])} if op[1] is not None else None)
    if k == "results":
        return client.get("/%s/%s" % (u, "flat-session-results" if op[1] else "session-results"))
    if k == "end":
        return client.post("/%s/end-session" % u)
    if k == "keep":
        return client.post("/%s/keep-alive" % u)
    if k == "stop":
        return client.post("/%s/stop-instance" % u)
    raise ValueError(k)

def execute(cfg, timeouts, schedule, only=None):
    """schedule: list of (instance index | None, op); only: run the requests of that instance alone.
    -> per instance the list of (position in the schedule, status, normalised body)"""
    d = tempfile.mkdtemp(prefix="c16_") if cfg["adapter"] else None
    try:
        adapter = None
        if d:
            from BPTK_Py.externalstateadapter import FileAdapter
            adapter = FileAdapter(cfg["compress"], d)
        FakeClock.now_value = _real_datetime.datetime(2030, 1, 1, 0, 0, 0)
        srvmod.datetime = FakeClock
        app = BptkServer(__name__, make_bptk2, external_state_adapter=adapter)
        client = app.test_client()
        idx = list(range(len(timeouts))) if only is None else [only]
        ids = {}
        if cfg["batch"]:
            # one request creates all instances of this run (they share the timeout of instance 0 ... so only when equal)
            r = client.post("/start-instances", json={"instances": len(idx), "timeout": timeouts[idx[0]]})
            us = json.loads(r.data)["instance_uuids"]
            for i, u in zip(idx, us):
                ids[i] = u
        else:
            for i in idx:
                r = client.post("/start-instance", json={"timeout": timeouts[i]})
                ids[i] = json.loads(r.data)["instance_uuid"]
        out = {i: [] for i in idx}
        for pos, (i, op) in enumerate(schedule):
            if i is None:
                # environment: the clock moves and somebody looks at the metrics (sweeps everything that has expired)
                FakeClock.advance(op[1])
                if op[0] == "tick":
                    continue          # the clock moves, nobody looks
                client.get("/full-metrics")
                continue
            if i not in ids:
                continue
            r = perform(client, ids[i], op)
            out[i].append((pos, r.status_code, norm(r.data, ids.values())))
        return out
    finally:
        if d:
            shutil.rmtree(d, ignore_errors=True)

def run(case):
    cfg, timeouts, schedule = case
    joint = isolated(execute, cfg, timeouts, schedule)
    for i in range(len(timeouts)):
        solo = isolated(execute, cfg, timeouts, schedule, only=i)[i]
        if solo != joint[i]:
            for a, b in zip(joint[i], solo):
                if a != b:
                    return ("instance %d, request #%d %r: with the other instances' requests interleaved it answers %d %s, alone it answers %d %s"
                            % (i, a[0], schedule[a[0]][1], a[1], a[2][:300], b[1], b[2][:300]))
            return "instance %d: %d responses interleaved, %d alone" % (i, len(joint[i]), len(solo))
    return None

case = ({'adapter': False, 'compress': False, 'batch': False}, [{'seconds': 2}, {'minutes': 5}], [(1, ('begin', ('base',), ('s', 'f', 'g'), None)), (0, ('begin', ('base',), ('s', 'f', 'g'), None)), (0, ('step', None)), (None, ('tick', 1)), (0, ('step', None)), (None, ('tick', 1)), (0, ('step', None)), (None, ('tick', 1)), (0, ('step', None)), (None, ('tick', 1)), (1, ('keep',)), (0, ('step', None)), (0, ('results', False)), (1, ('step', None)), (0, ('step', ('base', 'c', 5.0))), (1, ('step', None)), (0, ('results', True)), (1, ('results', False))])
bad = run(case)
print("configuration:", case[0], "timeouts:", case[1])
for p, s in enumerate(case[2]):
    print(p, s)
print("FAIL: " + bad if bad else "PASS")
sys.stdout.flush()
os._exit(1 if bad else 0)
