import os, sys
sys.path.insert(0, os.environ.get("VERIF_REPO", "/repo"))

import math
from BPTK_Py import Model, Agent
from BPTK_Py.modeling.dataCollector import DataCollector
from BPTK_Py.scenariorunners.hybrid_runner import HybridRunner

def build(pop):
    m = Model(data_collector=DataCollector())
    agents = []
    for i, (ty, st, props) in enumerate(pop):
        a = Agent(i, m, {k: {"type": t, "value": v} for k, (t, v) in props.items()}, agent_type=ty)
        a.state = st
        agents.append(a)
    return m, agents

def oracle(pop):
    out = {}
    for (ty, st, props) in pop:
        g = out.setdefault(ty, {}).setdefault(st, {"count": 0})
        g["count"] += 1
    for (ty, st, props) in pop:
        g = out[ty][st]
        for k, (t, v) in props.items():
            if t in ("Integer", "Double"):
                vals = [p[2][k][1] for p in pop if p[0] == ty and p[1] == st and k in p[2] and p[2][k][0] in ("Integer", "Double")]
                g[k] = {"total": sum(vals), "max": max(vals), "min": min(vals), "mean": sum(vals) / g["count"]}
    return out

def close(a, b):
    return a == b or (isinstance(a, (int, float)) and isinstance(b, (int, float)) and math.isclose(a, b, rel_tol=1e-9, abs_tol=1e-9))

def run(case):
    """case = (list of (time, population)) ; population = list of (type, state, {prop: (ptype, value)})"""
    dc = DataCollector()
    for t, pop in case:
        m, agents = build(pop)
        dc.collect_agent_statistics(t, agents)
    stats = dc.statistics()
    for t, pop in case:
        exp = oracle(pop)
        got = stats.get(t)
        if got is None:
            return "no statistics recorded for time %r" % (t,)
        if set(got) != set(exp):
            return "t=%r: types %r expected %r" % (t, sorted(got), sorted(exp))
        for ty in exp:
            if set(got[ty]) != set(exp[ty]):
                return "t=%r type %s: states %r expected %r" % (t, ty, sorted(got[ty]), sorted(exp[ty]))
            for st in exp[ty]:
                g, e = got[ty][st], exp[ty][st]
                if set(g) != set(e):
                    return "t=%r %s/%s: keys %r expected %r" % (t, ty, st, sorted(g), sorted(e))
                if g["count"] != e["count"]:
                    return "t=%r %s/%s: count %r expected %r" % (t, ty, st, g["count"], e["count"])
                for k in e:
                    if k == "count":
                        continue
                    for agg in ("total", "max", "min", "mean"):
                        if not close(g[k].get(agg), e[k][agg]):
                            return "t=%r %s/%s %s.%s = %r expected %r" % (t, ty, st, k, agg, g[k].get(agg), e[k][agg])
    # dataframe assembly for one agent type: zero where a state was empty
    types = sorted({p[0] for _, pop in case for p in pop})
    states = sorted({p[1] for _, pop in case for p in pop})
    for ty in types:
        df = HybridRunner.get_df_for_agent(None, stats, ty, states, [], [])
        for t, pop in case:
            exp = oracle(pop).get(ty)
            if exp is None:
                continue
            for st in states:
                e = exp.get(st, {}).get("count", 0)
                try:
                    g = df.loc[t, st] if st in df.columns else 0
                except KeyError:
                    return "df for %s has no row for t=%r" % (ty, t)
                if not close(float(g), float(e)):
                    return "df[%s] at t=%r state %s = %r expected %r" % (ty, t, st, g, e)
    return None

case = [(0.0, [('b', 'active', {'y': ('Double', 2.5), 's': ('String', 'txt')}), ('c', 'active', {}), ('b', 'active', {'y': ('Double', 0.0), 's': ('String', 'txt')})]), (1.0, [])]
try:
    bad = run(case)
except Exception as e:
    bad = "raised %s: %s" % (type(e).__name__, e)
print("population:", case)
print("FAIL: " + bad if bad else "PASS")
sys.exit(1 if bad else 0)
