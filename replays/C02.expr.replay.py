import os, sys
sys.path.insert(0, os.environ.get("VERIF_REPO", "/repo"))

import math
import numpy as np
from BPTK_Py import Model
from BPTK_Py import sd_functions as sd

VALS = {"a": 7.0, "b": 3.0, "c": 2.0, "d": 5.0, "e": 11.0}

def ref_env():
    env = dict(VALS)
    vec = [1.5, 4.0, 0.5]
    env.update(dict(vsum=sum(vec), vprod=vec[0] * vec[1] * vec[2]))
    env.update(dict(sd_max=max, sd_min=min, sd_abs=abs, sd_sqrt=lambda x: x ** 0.5, sd_exp=math.exp, sd_round=round,
                    sd_If=lambda c, x, y: x if c else y, sd_And=lambda x, y: x and y, sd_Or=lambda x, y: x or y,
                    sd_Not=lambda x: not x))
    return env

def dsl_env(m):
    env = {}
    for k, v in VALS.items():
        # d and e are converters (their values are re-assigned after the first evaluation), the others constants
        el = m.converter(k) if k in ("d", "e") else m.constant(k)
        el.equation = v; env[k] = el
    # aggregates of an arrayed element: operators (not binary ones) whose text is a bare chain  v0+v1+v2 / v0*v1*v2
    v = m.constant("v"); v.setup_vector(3, [1.5, 4.0, 0.5])
    env.update(dict(vsum=v.arr_sum(), vprod=v.arr_prod()))
    env.update(dict(sd_max=sd.max, sd_min=sd.min, sd_abs=sd.abs, sd_sqrt=sd.sqrt, sd_exp=sd.exp, sd_round=sd.round,
                    sd_If=sd.If, sd_And=sd.And, sd_Or=sd.Or, sd_Not=sd.Not))
    return env

def run(expr):
    """expr: python source over a..e, numbers and sd_* functions; -> None | description"""
    try:
        want = eval(expr, {"__builtins__": {}}, ref_env())
    except Exception as e:
        return None            # reference undefined (division by zero, complex power, ...): not a test
    if isinstance(want, complex) or (isinstance(want, float) and (math.isnan(want) or math.isinf(want))):
        return None
    m = Model(starttime=0.0, stoptime=2.0, dt=1.0)
    try:
        denv = dsl_env(m)
        node = eval(expr, {"__builtins__": {}}, denv)
    except Exception as e:
        return None            # the DSL rejects the nesting with an exception: allowed by the property
    if isinstance(node, (int, float, bool)):
        return None
    x = m.converter("x")
    try:
        x.equation = node
        got = x(1.0)
    except Exception as e:
        return None            # rejected at build / evaluation time
    try:
        ok = math.isclose(float(got), float(want), rel_tol=1e-9, abs_tol=1e-9)
    except Exception:
        ok = False
    if not ok:
        return "%s evaluates to %r with the DSL, %r with ordinary arithmetic" % (expr, got, want)
    # the operands d and e get other values: the element is still the value of the same expression tree
    renv = ref_env(); renv.update(d=6.5, e=-2.25)
    try:
        want2 = eval(expr, {"__builtins__": {}}, renv)
    except Exception:
        return None
    if isinstance(want2, complex) or (isinstance(want2, float) and (math.isnan(want2) or math.isinf(want2))):
        return None
    try:
        denv["d"].equation = 6.5
        denv["e"].equation = -2.25
        got2 = x(1.0)
    except Exception:
        return None
    try:
        ok = math.isclose(float(got2), float(want2), rel_tol=1e-9, abs_tol=1e-9)
    except Exception:
        ok = False
    if not ok:
        return "%s evaluates to %r with the DSL after d and e were set to 6.5 and -2.25, %r with ordinary arithmetic" % (expr, got2, want2)
    return None

expr = '(-sd_If(e, e, vprod))'
bad = run(expr)
print("FAIL: " + bad if bad else "PASS")
sys.exit(1 if bad else 0)
