import os, sys
sys.path.insert(0, os.environ.get("VERIF_REPO", "/repo"))

from decimal import Decimal
from BPTK_Py import Model, bptk
from BPTK_Py.util.floating_point import timerange
from BPTK_Py import sd_functions as sd

def grid(start, dt, n):
    return [float(Decimal(str(start)) + i * Decimal(str(dt))) for i in range(n + 1)]

def run_labels(case):
    """the label generator alone, on a much larger lattice (cheap): exactly the decimal grid, first to last point"""
    start, dt, n = case
    g = grid(start, dt, n)
    tr = timerange(start, g[-1], dt, exclusive=False)
    if tr != g:
        k = next((i for i, (a, b) in enumerate(zip(tr, g)) if a != b), min(len(tr), len(g)))
        return "timerange(%r,%r,%r) has %d labels, the grid has %d; first difference at index %d: %r vs %r" % (
            start, g[-1], dt, len(tr), len(g), k, tr[k:k + 3], g[k:k + 3])
    tr2 = timerange(start, g[-1], dt)        # exclusive: everything but the stop time
    if tr2 != g[:-1]:
        return "timerange(%r,%r,%r, exclusive) = ...%r, expected ...%r" % (start, g[-1], dt, tr2[-3:], g[:-1][-3:])
    return None

def run(case):
    start, dt, n = case
    g = grid(start, dt, n)
    stop = g[-1]
    tr = timerange(start, stop, dt, exclusive=False)
    if tr != g:
        return "timerange(%r,%r,%r) = %r, expected %r" % (start, stop, dt, tr[:12], g[:12])
    def fresh():
        m = Model(starttime=start, stoptime=stop, dt=dt, name="m")
        tm = m.converter("tm"); tm.equation = sd.time()
        s = m.stock("s"); f = m.flow("f"); s.initial_value = 0.0; f.equation = 1.0; s.equation = f
        return m, tm, s
    # cold caches: the FIRST evaluation of a grid point comes from an arithmetic route, late times first
    m, tm, s = fresh()
    acc = start
    routes = []
    for i, t in enumerate(g):
        routes.append((acc, start + i * dt, t, i))
        acc = acc + dt
    for (a1, a2, t, i) in reversed(routes):
        exp = float(Decimal(str(dt)) * i)
        got = s(a1)
        if abs(got - exp) > 1e-9 * max(1, abs(exp)):
            return "cold cache: stock at %r (route to grid point %r) is %r, expected %r" % (a1, t, got, exp)
    m, tm, s = fresh()
    for (a1, a2, t, i) in routes:
        if tm(a1) != t:
            return "cold cache: time converter at %r (route to grid point %r) reports %r" % (a1, t, tm(a1))
    m, tm, s = fresh()
    for (a1, a2, t, i) in routes:
        if tm(a2) != t:
            return "cold cache: time converter at %r (route to grid point %r) reports %r" % (a2, t, tm(a2))
    m, tm, s = fresh()
    # evaluation at a time reached by any arithmetic route returns the value of the grid point
    acc = start
    for i, t in enumerate(g):
        v_grid = tm(t)
        if v_grid != t:
            return "time converter at grid label %r reports %r" % (t, v_grid)
        if tm(acc) != t or tm(start + i * dt) != t:
            return "evaluation at %r / %r (routes to grid point %r) gives %r / %r" % (acc, start + i * dt, t, tm(acc), tm(start + i * dt))
        exp = float(Decimal(str(dt)) * i)
        if abs(s(acc) - exp) > 1e-9 * max(1, abs(exp)):
            return "stock at route %r to grid point %r is %r, expected %r" % (acc, t, s(acc), exp)
        acc = acc + dt
    b = bptk()
    try:
        b.register_model(m)
        b.register_scenario_manager({"sm": {"model": m}})
        b.register_scenarios(scenario_manager="sm", scenarios={"base": {}})
        df = b.run_scenarios(scenario_managers=["sm"], scenarios=["base"], equations=["s", "tm"])
        idx = [float(x) for x in df.index]
        if idx != g:
            return "run_scenarios index %r, expected %r" % (idx[:12], g[:12])
        vals = [float(x) for x in df["tm"]]
        if vals != g:
            return "time converter column %r differs from the index %r" % (vals[:12], g[:12])
        # the same model under a scenario that overrides the run specs with a finer / differently scaled grid
        start2, dt2 = start + 0.5, dt / 2 if dt / 2 in (0.5, 0.25, 0.125, 0.05, 0.025, 0.1, 0.15, 0.35, 0.005, 0.0625) else dt
        g2 = [float(Decimal(str(start2)) + i * Decimal(str(dt2))) for i in range(n + 1)]
        b.register_scenarios(scenario_manager="sm", scenarios={"fine": {"runspecs": {"starttime": start2, "stoptime": g2[-1], "dt": dt2}}})
        df2 = b.run_scenarios(scenario_managers=["sm"], scenarios=["fine"], equations=["tm"])
        idx2 = [float(x) for x in df2.index]
        if idx2 and idx2[0] == start2:      # (a start time override that is ignored is C07's business, not C05's)
            if idx2 != g2:
                return "scenario with run specs (%r,%r,%r): index %r, expected %r" % (start2, g2[-1], dt2, idx2[:12], g2[:12])
            if [float(x) for x in df2[df2.columns[0]]] != g2:
                return "scenario with run specs (%r,%r,%r): time converter reports %r at labels %r" % (start2, g2[-1], dt2, [float(x) for x in df2[df2.columns[0]]][:8], g2[:8])
        b.begin_session(scenarios=["base"], scenario_managers=["sm"], equations=["s"], starttime=start, dt=dt)
        for k in range(n + 3):
            res = b.run_step()
            if k <= n:
                # every step reports exactly one entry, labelled with its own grid value
                tt = [float(x) for x in res["sm"]["base"]["s"].keys()]
                if tt != [g[k]]:
                    return "session step %d reports the times %r, expected [%r]" % (k, tt, g[k])
        keys = [float(k) for k in b.session_results().keys()]
        if keys != g:
            return "session labels %r, expected %r" % (keys[:12], g[:12])
    finally:
        b.destroy()
    return None

case = (-0.3, 0.1, 8)
bad = run(case)
print("case (start, dt, steps):", case)
print("FAIL: " + bad if bad else "PASS")
sys.stdout.flush()
os._exit(1 if bad else 0)
