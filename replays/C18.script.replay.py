import os, sys
sys.path.insert(0, os.environ.get("VERIF_REPO", "/repo"))

import json, datetime as _real_datetime
from BPTK_Py import Model, bptk
from BPTK_Py.server import BptkServer
import BPTK_Py.server.bptkServer as srvmod

DESTROYED = []      # serial numbers of destroyed bptk objects (NOT id(): python reuses the id of a freed object)
_SERIAL = [0]

SM = ["sm"]          # name of the scenario manager the factory registers (a harness may switch it, e.g. to "2024")
RUNSPEC = [1.0, 10.0, 1.0]
TWO = [False]        # True: the factory registers a second manager "sm2" (another model) and sessions span both managers

def make_bptk():
    m = Model(starttime=RUNSPEC[0], stoptime=RUNSPEC[1], dt=RUNSPEC[2], name="m")
    s = m.stock("s"); f = m.flow("f"); c = m.constant("c")
    s.initial_value = 0.0; c.equation = 1.0; f.equation = c; s.equation = f
    b = bptk()
    b.register_model(m)
    b.register_scenario_manager({SM[0]: {"model": m}})
    b.register_scenarios(scenario_manager=SM[0], scenarios={"base": {"constants": {"c": 1.0}}})
    if TWO[0]:
        m2 = Model(starttime=RUNSPEC[0], stoptime=RUNSPEC[1], dt=RUNSPEC[2], name="m2")
        s2 = m2.stock("s"); f2 = m2.flow("f"); c2 = m2.constant("c")
        s2.initial_value = 5.0; c2.equation = 3.0; f2.equation = c2 * 2.0; s2.equation = f2
        b.register_scenario_manager({"sm2": {"model": m2}})
        b.register_scenarios(scenario_manager="sm2", scenarios={"base": {"constants": {"c": 3.0}}})
    orig = b.destroy
    _SERIAL[0] += 1
    b._verif_serial = _SERIAL[0]
    def destroy(orig=orig, b=b):
        DESTROYED.append(b._verif_serial); return orig()
    b.destroy = destroy
    return b

class FakeClock:
    now_value = _real_datetime.datetime(2030, 1, 1, 0, 0, 0)
    class datetime(_real_datetime.datetime):
        @classmethod
        def now(cls, tz=None):
            return FakeClock.now_value
    timedelta = _real_datetime.timedelta
    @classmethod
    def advance(cls, seconds):
        cls.now_value = cls.now_value + _real_datetime.timedelta(seconds=seconds)

def make_app(token=None, fake_clock=False, adapter=None):
    if fake_clock:
        srvmod.datetime = FakeClock
    app = BptkServer(__name__, make_bptk, external_state_adapter=adapter, bearer_token=token)
    return app

BEGIN = {"scenario_managers": ["sm"], "scenarios": ["base"], "equations": ["s", "c"]}

def start(client, headers=None, timeout=None):
    r = client.post("/start-instance", json=({"timeout": timeout} if timeout else None), headers=headers or {})
    return json.loads(r.data)["instance_uuid"]

def begin(client, u, headers=None):
    return client.post("/%s/begin-session" % u, json=dict(BEGIN, scenario_managers=[SM[0]] + (["sm2"] if TWO[0] else [])), headers=headers or {})

def digest(app):
    """server-side state that a refused request must not change"""
    d = {}
    for k, rec in app._instance_manager._instances.items():
        ss = rec["instance"].session_state
        d[k] = None if ss is None else (ss.get("step"), ss.get("lock"), len(ss.get("results_log", {}) or {}), repr(ss.get("settings_log"))[:200])
    sc = app._bptk.get_scenario(SM[0], "base")
    return (d, dict(sc.constants), len(DESTROYED))

SET = {"settings": {"sm": {"base": {"constants": {"c": 1.0}}}}}

def run(case):
    """case: list of ops on ONE instance:
       ('steps', n) run-steps | ('step',) run-step | ('stream_all',) | ('stream_open', k) read k chunks and keep it open
       | ('stream_close',) close the open stream | ('stream_finish',) read the open stream to the end | ('bad_steps',) run-steps that fails inside"""
    import tempfile, shutil
    from BPTK_Py.externalstateadapter import FileAdapter
    tmpd = tempfile.mkdtemp(prefix="c18_")
    try:
        FakeClock.now_value = _real_datetime.datetime(2030, 1, 1, 0, 0, 0)
        return _run(case, make_app(fake_clock=True, adapter=FileAdapter(False, tmpd)))
    finally:
        shutil.rmtree(tmpd, ignore_errors=True)

def _run(case, app):
    client = app.test_client()
    u = start(client, timeout={"seconds": 30}); begin(client, u)
    inst = app._instance_manager._instances[u]["instance"]
    open_stream = None
    stream_live = False      # the harness' own view: a stream was opened, not read to its end and not closed
    times = []         # all simulation times returned by successful responses, in order of production
    def clock():
        return inst.session_state["step"]
    def parse_steps(objs):
        out = []
        for o in objs:
            if not isinstance(o, dict):
                continue
            for sm in o.values():
                if not isinstance(sm, dict):
                    continue
                for sc in sm.values():
                    if not isinstance(sc, dict):
                        continue
                    for eq, series in sc.items():
                        if eq == "s" and isinstance(series, dict):
                            out.extend(float(t) for t in series.keys())
        return out
    for n, op in enumerate(case):
        locked_before = inst.is_locked() or stream_live
        c0 = clock()
        if op[0] == "wait":
            # time passes (more than a third of the instance timeout) while the client keeps the instance alive
            FakeClock.advance(11)
            r = client.post("/%s/keep-alive" % u)
            if r.status_code != 200:
                return "op %d %r: keep-alive answered %d" % (n, op, r.status_code)
            continue
        if op[0] == "steps":
            r = client.post("/%s/run-steps" % u, json=dict(SET, numberSteps=op[1]))
            if locked_before:
                if r.status_code != 500:
                    return "op %d %r: accepted (%d) while a multi-step request is in progress" % (n, op, r.status_code)
                if clock() != c0:
                    return "op %d %r: refused request advanced the clock" % (n, op)
                if not inst.is_locked():
                    return "op %d %r: a refused request released the lock held by the request in progress" % (n, op)
            else:
                if r.status_code != 200:
                    return "op %d %r: refused with %d although the instance was free" % (n, op, r.status_code)
                got = parse_steps(json.loads(r.data))
                times.extend(got)
                if inst.is_locked():
                    return "op %d %r: lock not released after run-steps" % (n, op)
        elif op[0] == "bad_steps":
            r = client.post("/%s/run-steps" % u, json={"settings": {"sm": {"nope": {"constants": {"c": 1.0}}}}, "numberSteps": 2})
            if not locked_before and inst.is_locked():
                return "op %d %r: lock not released after a failing run-steps" % (n, op)
            if locked_before and not inst.is_locked():
                return "op %d %r: a refused request released the lock held by the request in progress" % (n, op)
        elif op[0] == "save":
            # another client externalises the whole server state: this must not change any lock or clock
            r = client.get("/save-state")
            if inst.is_locked() != locked_before:
                return "op %d %r: /save-state changed the lock of the instance from %r to %r" % (n, op, locked_before, inst.is_locked())
            if clock() != c0:
                return "op %d %r: /save-state moved the session clock" % (n, op)
        elif op[0] == "bad_step":
            # a step whose settings cannot be applied: the request ends by error; no step is delivered, so the clock must not move
            r = client.post("/%s/run-step" % u, json={"settings": {"sm": {"base": {"constants": None}}}})
            delivered = []
            if r.status_code == 200:
                try:
                    delivered = parse_steps([json.loads(r.data)])
                except Exception:
                    delivered = []
            times.extend(delivered)
            if not locked_before and clock() != c0 + len(delivered):
                return "op %d %r: the request returned %d step(s) (status %d) but the session clock advanced from %r to %r" % (n, op, len(delivered), r.status_code, c0, clock())
            if not locked_before and inst.is_locked():
                return "op %d %r: lock left set after a failing run-step" % (n, op)
        elif op[0] == "bad_steps2":
            r = client.post("/%s/run-steps" % u, json={"settings": {"sm": {"base": {"constants": None}}}, "numberSteps": 2})
            delivered = []
            if r.status_code == 200:
                try:
                    delivered = parse_steps(json.loads(r.data))
                except Exception:
                    delivered = []
            times.extend(delivered)
            if not locked_before and clock() != c0 + len(delivered):
                return "op %d %r: run-steps returned %d step(s) (status %d) but the session clock advanced from %r to %r" % (n, op, len(delivered), r.status_code, c0, clock())
            if not locked_before and inst.is_locked():
                return "op %d %r: lock not released after a failing run-steps" % (n, op)
        elif op[0] == "step":
            r = client.post("/%s/run-step" % u, json=SET)
            if locked_before:
                if r.status_code != 500:
                    return "op %d %r: run-step accepted (%d) while a multi-step request is in progress" % (n, op, r.status_code)
                if clock() != c0:
                    return "op %d %r: refused run-step advanced the clock" % (n, op)
            elif r.status_code == 200:
                try:
                    times.extend(parse_steps([json.loads(r.data)]))
                except Exception:
                    pass
        elif op[0] == "stream_all" and open_stream is None:
            r = client.post("/%s/stream-steps" % u, json=SET)
            if locked_before:
                if r.status_code != 500:
                    return "op %d %r: stream accepted while locked" % (n, op)
            else:
                data = r.get_data(as_text=True)
                try:
                    times.extend(parse_steps(json.loads(data)))
                except Exception:
                    pass
                if inst.is_locked():
                    return "op %d %r: lock not released after a complete stream" % (n, op)
        elif op[0] == "stream_open" and open_stream is None and not locked_before:
            r = client.post("/%s/stream-steps" % u, json=SET, buffered=False)
            it = iter(r.response)
            chunks = []
            stream_live = True
            try:
                for _ in range(op[1]):
                    chunks.append(next(it))
            except StopIteration:
                stream_live = False
            open_stream = (r, it, chunks)
            if not inst.is_locked() and len(chunks) == op[1] and op[1] > 0:
                return "op %d %r: stream in progress but the instance is not locked" % (n, op)
        elif op[0] == "stream_close" and open_stream is not None:
            r, it, chunks = open_stream
            r.close()
            open_stream = None
            stream_live = False
            if inst.is_locked():
                return "op %d %r: lock not released after the client went away" % (n, op)
        elif op[0] == "stream_finish" and open_stream is not None:
            r, it, chunks = open_stream
            for ch in it:
                chunks.append(ch)
            r.close()
            open_stream = None
            stream_live = False
            text = "".join(c.decode() if isinstance(c, bytes) else c for c in chunks)
            try:
                got = parse_steps(json.loads(text))
            except Exception:
                got = None
            if got is not None:
                if any(b - a != 1.0 for a, b in zip(got, got[1:])):
                    return "op %d %r: a stream returned non-consecutive steps %r" % (n, op, got)
                times.extend(got)
            if inst.is_locked():
                return "op %d %r: lock not released after the stream completed" % (n, op)
    s = sorted(times)
    if len(set(times)) != len(times):
        return "a simulation time was produced twice: %r" % (times,)
    return None

case = [('stream_open', 2), ('wait',), ('step',), ('wait',), ('wait',), ('steps', 1), ('wait',), ('step',), ('steps', 2), ('stream_finish',)]
bad = run(case)
print("script:", case)
print("FAIL: " + bad if bad else "PASS")
sys.stdout.flush()
os._exit(1 if bad else 0)
