import os, sys
sys.path.insert(0, os.environ.get("VERIF_REPO", "/repo"))

import math
from fractions import Fraction
from BPTK_Py import Model, Agent, Event, DelayedEvent
from BPTK_Py.modeling.simultaneousScheduler import SimultaneousScheduler
from BPTK_Py.modeling.dataCollector import DataCollector

LOG = []

class TA(Agent):
    def initialize(self):
        self.agent_type = "a"
        self.register_event_handler(["active", "other"], "msg", self.on_msg)
        self.register_event_handler(["active", "other"], "note", self.on_msg)
    def on_msg(self, e):
        LOG.append((e.data, self.id, self.model.scheduler.current_round, self.model.scheduler.current_step))
    def act(self, time, sim_round, step):
        # scripted deletions from INSIDE a step: {global step: [(acting agent, agent it deletes)]}
        for (actor, victim) in INSTEP.get((sim_round, step), []):
            if actor == self.id:
                self.model.delete_agent(victim)

class TN(TA):
    """an agent whose initialize() creates another agent: the child is appended to the model before its parent"""
    def initialize(self):
        TA.initialize(self)
        self.model.create_agent("a", None)

INSTEP = {}

def run(case):
    """case: dict(n=steps per round, rounds, agents, ops=[(global_step, op...)])
    ops: ('send', tag, receiver_id, delay_in_steps_or_None) | ('delete', id) | ('create',) | ('state', id, s)"""
    del LOG[:]
    n = case["n"]; dt = 1.0 / n
    m = Model(scheduler=SimultaneousScheduler(), data_collector=DataCollector())
    m.run_specs(0, case["rounds"], dt)
    m.register_agent_factory("a", lambda i, mod, p: TA(i, mod, p))
    m.register_agent_factory("n", lambda i, mod, p: TN(i, mod, p))
    INSTEP.clear()
    for o in case["ops"]:
        if o[1] == "indelete":
            INSTEP.setdefault((o[0] // n, o[0] % n), []).append((o[2], o[3]))
    for _ in range(case["agents"]):
        m.create_agent("a", None)
    live = set(range(case["agents"])); nxt = case["agents"]
    expected = []   # (tag, receiver, global step at which it must be handled)
    total = (case["rounds"] + 1) * n
    for g in range(total):
        for op in [o for o in case["ops"] if o[0] == g]:
            k = op[1]
            if k == "send":
                _, _, tag, rid, d = op[:5]
                name = op[5] if len(op) > 5 else "msg"
                sender = op[6] if len(op) > 6 else 0
                if d is None:
                    ev = Event(name, sender, rid, data=tag); extra = 0
                else:
                    ev = DelayedEvent(name, sender, rid, delay=d * dt, data=tag); extra = int(math.ceil(d))   # ceil((d*dt)/dt)
                m.enqueue_event(ev)
                expected.append([tag, rid, g + extra])
            elif k == "delete":
                m.delete_agent(op[2]); live.discard(op[2])
            elif k == "create":
                m.create_agent("a", None); live.add(nxt); nxt += 1
            elif k == "createn":
                # the parent takes the id nxt, the child it creates in initialize() the id nxt + 1
                m.create_agent("n", None); live.add(nxt); live.add(nxt + 1); nxt += 2
            elif k == "reconf":
                # reconfiguration: all agents are replaced by op[2] new ones (ids are never reused)
                m.configure_agents([{"name": "a", "count": op[2]}])
                live = set(range(nxt, nxt + op[2])); nxt += op[2]
            elif k == "state":
                a = m.agent(op[2])
                if a is not None:
                    a.state = op[3]
        try:
            m.scheduler.run_step(m, g // n, g % n, None, True)
        except Exception as e:
            return "step %d raised %s: %s" % (g, type(e).__name__, e)
        # agents deleted from inside this step (by an agent that was itself still there): whether THEY still handled what was
        # due now is left open, everybody else is held to the property
        gone = set()
        for (actor, victim) in INSTEP.get((g // n, g % n), []):
            if actor in live and actor not in gone and victim in live:
                gone.add(victim)
        live -= gone
        # events due now must have been handled in this very step, by the addressed agent, if it is live
        for x in expected:
            if x[2] == g:
                hits = [l for l in LOG if l[0] == x[0]]
                if x[1] in gone:
                    if hits and (len(hits) != 1 or hits[0][1] != x[1]):
                        return "event %r for agent %d (deleted during step %d) was handled %r" % (x[0], x[1], g, hits)
                elif x[1] in live:
                    if len(hits) != 1:
                        return "event %r for agent %d due in step %d handled %d times: %r" % (x[0], x[1], g, len(hits), hits)
                    if hits[0][1] != x[1] or hits[0][2] * n + hits[0][3] != g:
                        return "event %r for agent %d due in step %d was handled by agent %d in step %d" % (x[0], x[1], g, hits[0][1], hits[0][2] * n + hits[0][3])
                elif hits:
                    return "event %r addressed to deleted id %d was handled by agent %d" % (x[0], x[1], hits[0][1])
        # order: undelayed events sent in the same step to the same agent are handled in the order sent
        same = {}
        for l in LOG:
            same.setdefault((l[1], l[2] * n + l[3]), []).append(l[0])
        for (aid, gs), tags in same.items():
            plain = [t for t in tags if t[0] == "p"]
            if plain != sorted(plain, key=lambda t: int(t[1:])):
                return "agent %d handled same-step events in order %r" % (aid, plain)
    return None

case = {'n': 1, 'rounds': 2, 'agents': 2, 'ops': [(1, 'createn'), (2, 'send', 'p22', 2, None, 'msg', 0)]}
bad = run(case)
print("script:", case)
print("FAIL: " + bad if bad else "PASS")
sys.exit(1 if bad else 0)
