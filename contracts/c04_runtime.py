"""C04 -- the RUNTIME of a transpiled model: `simulation_model.memoize`, extracted mechanically on every run from the Jinja template
(BPTK_Py/sdcompiler/generator/py/jinja_template.py: the text between `def memoize(self, equation, arg):` and the next method; it
contains no template placeholders, so it is exactly the code every generated model runs; nothing is dropped).

K1 contract (float-agnostic encoding: `round` uninterpreted with idempotence, reals otherwise): for an equation the model defines,
memoize evaluates the equation AT THE KEY IT STORES THE RESULT UNDER, that key is the grid point next to the argument whenever the
argument is within the stated tolerance of it (so `t - self.dt` lands on the previous grid point) and the argument itself otherwise,
a key that is present is returned without re-evaluation and no other entry changes.  What the encoding cannot see (whether a
floating-point `t - self.dt` really is within 1e-9 of the grid point) is what the native run-spec enumeration checks."""
import os
import re
import textwrap

from .c05_grid import *  # noqa  (SdModel class table: memo, equations, dt, starttime; RND / ROUND; fun:equation)
from . import c05_grid as g5

TEMPLATE = 'BPTK_Py/sdcompiler/generator/py/jinja_template.py'
SCRATCH = os.path.join(os.path.dirname(os.path.dirname(os.path.abspath(__file__))), '.scratch')


def extract_runtime():
    """-> path of a python file holding `class simulation_model` with the memoize method copied from the template"""
    from verif.pyvc import binder
    src = open(os.path.join(binder.REPO, TEMPLATE)).read()
    m = re.search(r"\n(    def memoize\(self, equation, arg\):\n.*?)\n    def ", src, re.S)
    if not m:
        raise FileNotFoundError('memoize not found in the template')
    body = m.group(1)
    if '{{' in body or '{%' in body:
        raise FileNotFoundError('memoize contains template placeholders: it cannot be verified as plain code')
    os.makedirs(SCRATCH, exist_ok=True)
    path = os.path.join(SCRATCH, 'xmile_runtime.py')
    tmp = path + '.%d' % os.getpid()
    with open(tmp, 'w') as f:
        f.write('import logging\n\n\nclass simulation_model:\n' + body + '\n')
    os.replace(tmp, path)      # atomic: the pool workers all extract the same text
    return path


try:
    RUNTIME_FILE = extract_runtime()
except (OSError, FileNotFoundError) as e:
    RUNTIME_FILE = '/nonexistent/%s' % e

contract('simulation_model.get_dimensions', trusted=True, props=['C04'], params=dict(self=SDM, equation=STR, arg=REAL), returns=REAL,
         note='array access (x[*], ranges): outside the vocabulary checked', raises={'Exception': lambda C: True})
contract('re.findall', trusted=True, props=['C04'], params=dict(pattern=STR, string=STR), returns=TList(STR), note='regular expression search: pure')
contract('logging.error', trusted=True, props=['C04'], params=dict(msg=ANY), note='log line')
contract('str.replace', trusted=True, props=['C04'], params=dict(self=STR, old=STR, new=STR), returns=STR, note='pure')
contract('str.format', trusted=True, props=['C04'], params=dict(self=STR, a=ANY), returns=STR, note='pure')


def snapped(C):
    m = C.old.self
    a = C.arg
    grid = RND(m.starttime + z3.ToReal(ROUND((a - m.starttime) / m.dt)) * m.dt, z3.IntVal(10))
    absd = If(grid - a >= 0, grid - a, a - grid)
    absa = If(a >= 0, a, -a)
    tol = z3.RealVal('1e-9') * If(absa > 1, absa, z3.RealVal(1))
    return If(And(m.dt > 0, absd <= tol), grid, a)


def runtime_post(C):
    m1, m0 = C.self, C.old.self
    e = C.equation
    key = snapped(C)
    had = m0.memo[e].has(key)
    return And(
        m1.memo.has(e), m1.memo[e].has(key), m1.memo[e][key] == C.result,
        Implies(had, And(C.result == m0.memo[e][key], m1.memo.z == m0.memo.z)),
        # a missing value is computed by calling the equation with THE KEY (the snapped time), not with the raw argument
        Implies(Not(had), C.g('lastarg') == key),
        g5.memo_kept(C))


c = contract('simulation_model.memoize', file=RUNTIME_FILE, props=['C04'], params=dict(self=SDM, equation=STR, arg=REAL), returns=REAL,
             requires=lambda C: And(C.self.dt != 0, C.self.equations.has(C.equation), C.self.memo.has(C.equation),
                                    Not(STR_CONTAINS(C.equation, strlit('*'))), Not(STR_CONTAINS(C.equation, strlit(':')))),
             ensures=runtime_post, modifies=['SdModel.memo'], ghost_mods=['SdModel.g_evals', '$lastarg'], ghost=GH5)
c.locals = dict(mymemo=TDict(REAL, REAL))
