"""C08 -- memoised results are never stale (sequential part): every modelling-API setter empties the WHOLE memo.
Real code: sddsl/element.py, stock.py, flow.py, constant.py (property setters), Model.reset_cache (c14), scenario.reset_cache."""
from .abm_classes import *  # noqa
from . import c14_registry  # Model.reset_cache contract
from .c05_grid import EQFUN

CLASSES['Model'].fields.update(equations=TDict(STR, EQFUN))
declare_class('SdElement', ['object'], model=TRef('Model'), name=STR, _equation=TRef('object'), equation=TRef('object'), _function_string=STR,
              __initial_value=TRef('object'))
declare_class('Constant', ['SdElement'])
declare_class('Converter', ['SdElement'])
declare_class('Scenario', ['object'], model=TRef('Model'), __sd_simulation=TRef('object'), sd_simulation=TRef('object'))
declare_exception('ElementError')
EL = TRef('SdElement')


def memo_empty(m):
    return FA('str', lambda e: Implies(m.memo.has(e), m.memo[e].size == 0))


HELPER_MODS = ['SdElement._function_string', 'SdElement._equation']
contract('SdElement._handle_arrayed', trusted=True, props=['C08', 'C01'], params=dict(self=EL, equation=TRef('object')), returns=BOOL,
         note='array expansion helper (C10): creates / re-binds sub-elements through their own setters; does not write memo entries')
contract('SdElement.build_function_string', trusted=True, props=['C08'], params=dict(self=EL),
         note='text generator (contracted under C01/K2): only writes self._function_string', modifies=['SdElement._function_string'])


def gen_post(C):
    m1, m0 = C.self.model, C.old.self.model
    n = C.self.name
    return And(m1 == m0, m1.memo.has(n), m1.memo[n].size == 0, m1.equations.has(n),
               FA('str', lambda e: Implies(e != n, And(m1.memo.has(e) == m0.memo.has(e), m1.memo.raw(e) == m0.memo.raw(e)))))


for f, cls in (('BPTK_Py/sddsl/element.py', 'Element'),):
    contract('SdElement.generate_function', file=f, src_name='Element.generate_function', props=['C08', 'C01'], params=dict(self=EL),
             requires=lambda C: And(C.self.model != NULL, C.self.model.memo.wf), ensures=gen_post,
             modifies=['Model.memo', 'Model.equations'])


def setter_post(C):
    return memo_empty(C.self.model)


SETTER_MODS = ['Model.memo', 'Model.equations', 'SdElement._function_string', 'SdElement._equation',
               'DataCollector.agent_statistics', 'DataCollector.event_statistics', 'Agent.properties']


def setter_pre(C):
    m = C.self.model
    return And(m != NULL, m.memo.wf,
               FA('idx', lambda i: Implies(And(0 <= i, i < m.agents.len), m.agents[i] != NULL)))


for f, src in (('BPTK_Py/sddsl/element.py', 'Element.equation.setter'), ('BPTK_Py/sddsl/stock.py', 'Stock.equation.setter'),
               ('BPTK_Py/sddsl/flow.py', 'Flow.equation.setter'), ('BPTK_Py/sddsl/constant.py', 'Constant.equation.setter')):
    contract('SdElement.' + src, file=f, src_name=src, props=['C08', 'C01'], params=dict(self=EL, equation=TRef('object')),
             requires=setter_pre, ensures=setter_post, modifies=SETTER_MODS,
             raises={'ElementError': lambda C: True}, exc_ensures={})

contract('SdElement.Stock.initial_value.setter', file='BPTK_Py/sddsl/stock.py', src_name='Stock.initial_value.setter', props=['C08', 'C01'],
         params=dict(self=EL, initial_value=TRef('object')), requires=setter_pre, ensures=setter_post, modifies=SETTER_MODS + ['SdElement.__initial_value'],
         raises={'ElementError': lambda C: True})


def scen_reset_post(C):
    m = C.self.model
    return And(memo_empty(m), C.self.__getattr__('__sd_simulation').is_null)


contract('Scenario.reset_cache', file='BPTK_Py/scenariomanager/scenario.py', src_name='SimulationScenario.reset_cache', props=['C08'],
         params=dict(self=TRef('Scenario')), requires=lambda C: And(C.self.model != NULL, C.self.model.memo.wf),
         ensures=lambda C: memo_empty(C.self.model),
         loops={0: lambda C: And(C.self.model == C.old.self.model, C.self.model.memo.keys.z == C.old.self.model.memo.keys.z,
                                 C.self.model.memo.wf,
                                 FA('str', lambda e: C.self.model.memo.has(e) == C.old.self.model.memo.has(e)),
                                 FA('idx', lambda j: Implies(And(0 <= j, j < C.k), C.self.model.memo[C.old.self.model.memo.keys.raw(j)].size == 0)))},
         modifies=['Model.memo', 'Scenario.sd_simulation', 'Scenario.__sd_simulation'])
