"""C15 (bearer token), C18 (stepping lock, sequential part) and the handler-level part of C17:
contracts on the real handlers of BptkServer and the lock functions of bptk."""
from .server_classes import *  # noqa
from . import c17_timeouts as c17
from .c17_timeouts import wf_im, expiry, uuid_ok

F = F_SRV
RESP = TRef('Response')
REQ = z3.Const('flask_request', RefS)
REQ_V = SV(TRef('Request'), REQ)
SRV_GLOBALS = {'request': REQ_V}

CONTENT = TRec('content', {'settings': ANY, 'numberSteps': INT, 'flatResults': BOOL, 'timeout': TIMEOUT, 'instances': INT,
                           'scenario_managers': ANY, 'scenarios': ANY, 'equations': ANY, 'agents': ANY, 'agent_states': ANY,
                           'agent_properties': ANY, 'agent_property_types': ANY, 'individual_agent_properties': ANY})

GH = dict(GHOST_SRV, entered=BOOL, steps_run=INT, yields=INT, **GH_SAVE)

RESP_FIELDS = ['Response.status', 'Response.headers', 'Response.body']


def fresh_frame(C, fields):
    """objects that existed before the call keep these fields (only fresh objects are written)"""
    out = []
    for cf in fields:
        cls, f = cf.split('.')
        a1, a0 = C.st.heap_arr_cf(cls, f), C.old_st.heap_arr_cf(cls, f)
        out.append(FA('ref', lambda r, a1=a1, a0=a0: Implies(z3.Select(C.old_st.alloc, r), z3.Select(a1, r) == z3.Select(a0, r)),
                      pats=lambda r, a1=a1: [z3.Select(a1, r)]))
    return And(*out)


contract('make_response', trusted=True, props=['C15', 'C17', 'C18'], allocates=True,
         note='flask.make_response(body, status): a fresh Response with that status; touches nothing else',
         params=dict(body=ANY, status=INT), returns=RESP, defaults=dict(status=sv_int(200)), modifies=RESP_FIELDS,
         ensures=lambda C: And(C.result != NULL, C.fresh(C.result), C.result.status == C.status, C.result.headers.wf,
                               fresh_frame(C, RESP_FIELDS)))
contract('Request.get_json', trusted=True, props=['C15', 'C17', 'C18'], params=dict(self=TRef('Request')), returns=CONTENT,
         note='flask request.get_json(): the parsed body (arbitrary); side-effect free')
LSTR = TList(STR)
SPLIT = z3.Function('str_split', StrS, StrS, LSTR.sort())
contract('str.split', trusted=True, props=['C15'], params=dict(self=STR, sep=STR), returns=LSTR,
         note='str.split(sep): a function of the string and the separator, at least one part; pure',
         ensures=lambda C: And(C.result.z == SPLIT(C.self, C.sep), C.result.len >= 1))
contract('jsonpickle.dumps', trusted=True, props=['C18', 'C09'], params=dict(value=ANY), returns=STR, note='pure serialiser')
contract('json.dumps', trusted=True, props=['C18', 'C09', 'C17'], params=dict(value=ANY), returns=STR, note='pure serialiser')

# ---------------------------------------------------------------------------------------------------
# C15: the decorator
# ---------------------------------------------------------------------------------------------------
WRAPPED = TFun('wrapped_handler', contract='fun:wrapped_handler')


def _enter(C, st):
    st.ghost['entered'] = sv_bool(True)


_w = contract('fun:wrapped_handler', trusted=True, props=['C15'], ghost=GH, allocates=True,
              note='the wrapped view function: arbitrary effects; entering it is recorded in the ghost flag $entered',
              params={}, returns=RESP, ghost_mods=['$entered'], ghost_update=_enter,
              modifies=RESP_FIELDS + ['InstanceManager._instances', 'bptk.session_state'])
_w.star_ok = True
_w.raises = {'Exception': lambda C: True}


def presented(C):
    """the request presents exactly the configured token as the second space-separated word of Authorization"""
    h = REQ_view(C).headers
    return h.has('Authorization')


def REQ_view(C):
    from verif.pyvc.spec import RefView
    return RefView(C.st, TRef('Request'), REQ, C.side)


def decorated_post(C):
    tok = C.self._bearer_token
    no_token_configured = tok.is_none
    return And(
        # without a configured token every request is served by the handler
        Implies(no_token_configured, C.g('entered')),
        # a response produced by the decorator itself is a 401 and the handler was not entered
        Implies(Not(C.g('entered')), And(Not(no_token_configured), C.result.status == 401, C.fresh(C.result),
                                         # ... and a refused request changes no server-side state
                                         C.unchanged('InstanceManager._instances'), C.unchanged('bptk.session_state'))),
        # handler entered with a token configured => the request presented EXACTLY that token
        # (second space-separated word of the Authorization header)
        Implies(And(C.g('entered'), Not(no_token_configured)),
                And(REQ_view(C).headers.has('Authorization'),
                    l_len(LSTR, SPLIT(REQ_view(C).headers.raw('Authorization'), strlit(' '))) >= 2,
                    z3.Select(l_at(LSTR, SPLIT(REQ_view(C).headers.raw('Authorization'), strlit(' '))), 1) == tok.v)))


c = contract('BptkServer.token_required.decorated', file=F, props=['C15'], ghost=GH, allocates=True,
             params=dict(self=SRV, args=ANY, kwargs=ANY), returns=RESP,
             requires=lambda C: And(Not(C.g('entered')), REQ != NULL, z3.Select(C.st.alloc, REQ), REQ_view(C).headers.wf),
             ensures=decorated_post,
             raises={'IndexError': lambda C: And(Not(C.self._bearer_token.is_none), REQ_view(C).headers.has('Authorization')),
                     'Exception': lambda C: True},
             exc_ensures={'IndexError': lambda C: Not(C.g('entered'))},
             # refused or not, the decorator itself writes nothing but the fresh response object
             modifies=RESP_FIELDS + ['InstanceManager._instances', 'bptk.session_state'], ghost_mods=['$entered'])
c.closure = {'f': WRAPPED}
c.globals = SRV_GLOBALS

# ---------------------------------------------------------------------------------------------------
# C18: lock functions of bptk (real code in BPTK_Py/bptk.py)
# ---------------------------------------------------------------------------------------------------

def locked(b):
    """is_locked() as a spec function of the session state"""
    ss = b.session_state
    return And(Not(ss.is_none), ss.v.has('lock'), ss.v['lock'])


def only_lock_changed(C, value):
    s1, s0 = C.self.session_state, C.old.self.session_state
    return And(s1.is_none == s0.is_none,
               Implies(Not(s0.is_none), And(s1.v.has('lock'), s1.v['lock'] == value,
                                            s1.v['step'] == s0.v['step'], s1.v.has('step') == s0.v.has('step'),
                                            s1.v['stoptime'] == s0.v['stoptime'])),
               FA('ref', lambda r: Implies(r != C.self.z, C.st.heap_arr_cf('bptk', 'session_state')[r] == C.old_st.heap_arr_cf('bptk', 'session_state')[r])))


contract('bptk.lock', file=F_BPTK, props=['C18'], params=dict(self=B),
         ensures=lambda C: And(only_lock_changed(C, True), locked(C.self) == Not(C.old.self.session_state.is_none)),
         modifies=['bptk.session_state'])
contract('bptk.unlock', file=F_BPTK, props=['C18'], params=dict(self=B),
         ensures=lambda C: And(only_lock_changed(C, False), Not(locked(C.self))), modifies=['bptk.session_state'])
contract('bptk.is_locked', file=F_BPTK, props=['C18'], params=dict(self=B), returns=BOOL,
         ensures=lambda C: C.result == locked(C.self))


def _count_step(C, st):
    st.ghost['steps_run'] = SV(INT, st.ghost['steps_run'].z + 1)


_rs = contract('bptk.run_step', trusted=True, props=['C18'], ghost=GH, allocates=True,
               note='bptk.run_step (contracted under C09): advances the session clock of THIS object by one grid step or '
                    'raises; never touches the lock flag; counted in the ghost $steps_run',
               params=dict(self=B, settings=ANY, flat=BOOL), returns=ANY, defaults=dict(settings=NONE_V, flat=sv_bool(False)),
               modifies=['bptk.session_state'], ghost_mods=['$steps_run'], ghost_update=_count_step,
               ensures=lambda C: And(locked(C.self) == locked(C.old.self),
                                     C.self.session_state.is_none == C.old.self.session_state.is_none,
                                     FA('ref', lambda r: Implies(r != C.self.z, C.st.heap_arr_cf('bptk', 'session_state')[r] == C.old_st.heap_arr_cf('bptk', 'session_state')[r]))),
               raises={'Exception': lambda C: True},
               exc_ensures={'Exception': lambda C: And(locked(C.self) == locked(C.old.self),
                                                       C.self.session_state.is_none == C.old.self.session_state.is_none,
                                                       FA('ref', lambda r: Implies(r != C.self.z, C.st.heap_arr_cf('bptk', 'session_state')[r] == C.old_st.heap_arr_cf('bptk', 'session_state')[r])))})

contract('bptk.progress', trusted=True, props=['C18'], params=dict(self=B), returns=REAL,
         note='step/stoptime of the session; raises if there is no session', raises={'Exception': lambda C: True})

contract('BptkServer._ensure_instance_exists', trusted=True, props=['C18', 'C17'], ghost=GH, allocates=True,
         note='(decorated helper, contracted under C17/C19) True iff the id is in the table afterwards; may restore it from external state',
         params=dict(self=SRV, instance_uuid=STR), returns=BOOL,
         modifies=['InstanceManager._instances', 'bptk.session_state'],
         ensures=lambda C: And(wf_im(C.self._instance_manager),
                               C.result == C.self._instance_manager._instances.has(C.instance_uuid),
                               # entries that already existed are untouched
                               FA('str', lambda k: Implies(C.old.self._instance_manager._instances.has(k),
                                                           And(C.self._instance_manager._instances.has(k),
                                                               C.self._instance_manager._instances.raw(k) == C.old.self._instance_manager._instances.raw(k)))),
                               FA('ref', lambda r: Implies(z3.Select(C.old_st.alloc, r),
                                                           C.st.heap_arr_cf('bptk', 'session_state')[r] == C.old_st.heap_arr_cf('bptk', 'session_state')[r]))))

SAVE_LENIENT = contract('Adapter.save_instance', trusted=True, props=['C18', 'C19', 'C16'], params=dict(self=TRef('Adapter'), state=TRef('InstanceState')),
         note='external state adapter (contracted under C19); may raise on I/O errors', raises={'Exception': lambda C: True})
GIS_LENIENT = contract('InstanceManager._get_instance_state', trusted=True, props=['C18', 'C16'], allocates=True,
         note='(contracted under C19) a fresh snapshot of THAT instance; raises if the id is unknown',
         params=dict(self=IM, instance_uuid=STR), returns=TRef('InstanceState'), raises={'Exception': lambda C: True},
         ensures=lambda C: And(C.result != NULL, C.fresh(C.result), C.result.instance_id == C.instance_uuid))


def srv_valid(C):
    im = C.self._instance_manager
    return And(im != NULL, wf_im(im), REQ != NULL, z3.Select(C.st.alloc, REQ))


def the_instance(C, old=True):
    """the bptk object registered under instance_uuid at entry"""
    V = C.old if old else C
    return V.self._instance_manager._instances[C.instance_uuid]['instance']


def lock_neutral(C):
    """C18 (sequential part): whatever happens, the lock of the addressed instance is as it was at entry, and a
    request that found the instance locked ran no step"""
    t0 = C.old.self._instance_manager._instances
    b = the_instance(C)
    was = locked(C.old_view(b))
    now = locked(C.now_view(b))
    return Implies(t0.has(C.instance_uuid),
                   And(now == was, Implies(was, C.g('steps_run') == C.old.g('steps_run'))))


def _old_view(self, v):
    from verif.pyvc.spec import RefView
    return RefView(self.old_st, v.t, v.z, self.side)


def _now_view(self, v):
    from verif.pyvc.spec import RefView
    return RefView(self.st, v.t, v.z, self.side)


Ctx.old_view = _old_view
Ctx.now_view = _now_view

HANDLER_MODS = RESP_FIELDS + ['InstanceManager._instances', 'bptk.session_state', '$now']


def _others(C, t1, t0, u):
    """(a) of C16: the entry of every other id is as it was, or it was swept because ITS timeout had elapsed"""
    c1 = C.g('now')
    return [FA('str', lambda k: Implies(And(t1.has(k), k != u), And(t0.has(k), t1.raw(k) == t0.raw(k)))),
            FA('str', lambda k: Implies(And(t0.has(k), k != u, Not(t1.has(k))), c1 >= expiry(t0, k)))]


def isolated(C):
    """C16 in frame form, for a handler addressed to instance_uuid: the other ids keep their entries (or time out on
    their own), no bptk object other than the addressed one changes its session, ids still own different objects"""
    im1, im0 = C.self._instance_manager, C.old.self._instance_manager
    t1, t0 = im1._instances, im0._instances
    u = C.instance_uuid
    ss1, ss0 = C.st.heap_arr_cf('bptk', 'session_state'), C.old_st.heap_arr_cf('bptk', 'session_state')
    own = t0[u]['instance'].z
    return And(*(_others(C, t1, t0, u) + [
        FA('ref', lambda r: Implies(And(z3.Select(C.old_st.alloc, r), Or(Not(t0.has(u)), r != own)), ss1[r] == ss0[r])),
        wf_im(im1)]))


def isolated_new(C):
    """C16 for the handlers that create instances: every existing id keeps its entry (or times out on its own), no
    existing bptk object changes its session, and the new ids own fresh objects different from each other (wf_im)"""
    im1, im0 = C.self._instance_manager, C.old.self._instance_manager
    t1, t0 = im1._instances, im0._instances
    c1 = C.g('now')
    ss1, ss0 = C.st.heap_arr_cf('bptk', 'session_state'), C.old_st.heap_arr_cf('bptk', 'session_state')
    return And(FA('str', lambda k: Implies(And(t1.has(k), t0.has(k)), t1.raw(k) == t0.raw(k))),
               FA('str', lambda k: Implies(And(t0.has(k), Not(t1.has(k))), c1 >= expiry(t0, k))),
               FA('str', lambda k: Implies(And(t1.has(k), Not(t0.has(k))), Not(z3.Select(C.old_st.alloc, t1[k]['instance'].z)))),
               FA('ref', lambda r: Implies(z3.Select(C.old_st.alloc, r), ss1[r] == ss0[r])),
               wf_im(im1))


def saved_own(C):
    """with an external state adapter, a successful stepping request hands exactly one snapshot to the adapter, and it is
    the snapshot of the addressed instance (C16: no cross-talk through the adapter; C20: state rewritten after every request)"""
    return Implies(And(C.self._external_state_adapter != NULL, C.result.status == 200),
                   And(C.g('saves') == C.old.g('saves') + 1, C.g('saved_obj').instance_id == C.instance_uuid))


def refused_when_locked(C):
    t0 = C.old.self._instance_manager._instances
    b = the_instance(C)
    return Implies(And(t0.has(C.instance_uuid), locked(C.old_view(b))), C.result.status == 500)


for hname, loops in (('_run_steps_resource', {0: None}), ('_run_step_resource', {})):
    pass


def run_steps_inv(C):
    t0 = C.old.self._instance_manager._instances
    u = C.instance_uuid
    I = C.v.instance
    return And(srv_valid_now(C), I != NULL,
               Implies(t0.has(u), And(I == t0[u]['instance'], Not(locked(C.old_view(I))))),
               # the lock is held (an instance without session cannot be locked; lock()/unlock() are no-ops then)
               locked(C.now_view(I)) == Not(C.now_view(I).session_state.is_none),
               C.v.result.len == C.k, C.g('steps_run') == C.old.g('steps_run') + C.k,
               isolated(C))


def srv_valid_now(C):
    return And(REQ != NULL, z3.Select(C.st.alloc, REQ))


c = contract('BptkServer._run_steps_resource', file=F, props=['C18', 'C16'], ghost=GH, allocates=True,
             params=dict(self=SRV, instance_uuid=STR), returns=RESP, locals=dict(result=TList(ANY)),
             requires=srv_valid,
             ensures=lambda C: And(lock_neutral(C), refused_when_locked(C),
                                   # the session advanced by exactly the number of steps returned
                                   Implies(C.result.status == 200, C.g('steps_run') - C.old.g('steps_run') >= 0),
                                   isolated(C), saved_own(C)),
             raises={'Exception': lambda C: True}, exc_ensures={'Exception': lambda C: And(lock_neutral(C), isolated(C))},
             loops={0: run_steps_inv}, modifies=HANDLER_MODS, ghost_mods=['bptk.g_destroyed', '$steps_run'])
c.globals = SRV_GLOBALS

c = contract('BptkServer._run_step_resource', file=F, props=['C18', 'C16'], ghost=GH, allocates=True,
             params=dict(self=SRV, instance_uuid=STR), returns=RESP, requires=srv_valid,
             ensures=lambda C: And(lock_neutral(C), refused_when_locked(C),
                                   C.g('steps_run') <= C.old.g('steps_run') + 1, isolated(C), saved_own(C)),
             raises={'Exception': lambda C: True}, exc_ensures={'Exception': lambda C: And(lock_neutral(C), isolated(C))},
             modifies=HANDLER_MODS, ghost_mods=['bptk.g_destroyed', '$steps_run'])
c.globals = SRV_GLOBALS


def streamer_frame(C):
    """the generator works on the instance captured by the closure"""
    return And(C.instance != NULL, C.self != NULL, Not(C.now_view(C.instance).session_state.is_none))


def streamer_exit(C):
    """at EVERY way the generator can end (exhausted, exception escaping, closed by the client at a yield):
    the instance is unlocked again"""
    return Not(locked(C.now_view(C.instance)))


def streamer_others(C):
    """C16: the generator steps the instance captured by the closure and no other"""
    ss1, ss0 = C.st.heap_arr_cf('bptk', 'session_state'), C.old_st.heap_arr_cf('bptk', 'session_state')
    return FA('ref', lambda r: Implies(r != C.instance.z, ss1[r] == ss0[r]))


c = contract('BptkServer._stream_steps_resource.streamer', file=F, props=['C18', 'C16'], ghost=GH, allocates=True,
             params={}, requires=lambda C: And(streamer_frame(C), Not(locked(C.instance)), REQ != NULL),
             ensures=lambda C: And(streamer_exit(C), streamer_others(C)),
             raises={'BaseException': lambda C: True}, exc_ensures={'BaseException': lambda C: And(streamer_exit(C), streamer_others(C))},
             loops={0: lambda C: And(locked(C.now_view(C.instance)), streamer_frame(C), streamer_others(C))},
             modifies=['bptk.session_state', '$yields'], ghost_mods=['$steps_run'])
c.closure = {'self': SRV, 'instance': B, 'is_json': BOOL, 'content': CONTENT, 'instance_uuid': STR}
c.globals = SRV_GLOBALS
