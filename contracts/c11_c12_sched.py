"""C11 (event delivery) and C12 (step trace) -- contracts on the real scheduler / agent code.

Ghost instrumentation (history variables, never touched by the real code; updated at call sites only):
  Event.g_delivered : how often the event was put into an inbox (Agent.receive_event)
  Event.g_to        : the agent whose inbox received it last
  Event.g_seq       : global sequence number of that delivery ($clock)
  Event.g_handled   : how often a registered handler was invoked with it
  $tr               : trace of callbacks (begin / handle / act / end / collect)
"""
from .abm_classes import *  # noqa
from .c14_registry import wf, others_unchanged, M, A  # noqa
from . import c13_stats  # noqa  (contracts of the data collector)
from .c13_stats import env as _stats_env

FS = 'BPTK_Py/modeling/simultaneousScheduler.py'
FB = 'BPTK_Py/modeling/scheduler.py'
FM = 'BPTK_Py/modeling/model.py'
FA_ = 'BPTK_Py/modeling/agent.py'
EV = TRef('Event')
SCH = TRef('Scheduler')

# ghost fields (declared like fields; no real code mentions them)
CLASSES['Event'].fields.update(g_delivered=INT, g_to=A, g_seq=INT, g_handled=INT)
declare_class('Widget', ['object'], value=REAL)
CLASSES['Model'].fields.update(progress_widget=TRef('Widget'))

GHOST = {'tr': TList(TRACE_EV), 'clock': INT}

CB_MODS = ['Agent.state', 'Agent.properties', 'Model.events', '$tr']
"""what user callbacks (act, begin_round, end_round, event handlers) may change: agent state / properties /
handler tables, and they may enqueue events.  They do NOT change the registry, inboxes, the scheduler,
run specs, delays of queued events or ids/types (assumptions on user code, listed in the evidence)."""


def tr_append(C, rec):
    t1, t0 = C.g('tr'), C.old.g('tr')
    return And(t1.len == t0.len + 1, t1.raw(t0.len) == rec,
               FA('idx', lambda i: Implies(And(0 <= i, i < t0.len), t1.raw(i) == t0.raw(i))))


def events_extended(C, m):
    """model.events keeps its old content as a prefix (callbacks may only enqueue)"""
    e1 = m.events
    e0 = C.old_view(m).events
    return And(e1.len >= e0.len, FA('idx', lambda i: Implies(And(0 <= i, i < e0.len), e1.raw(i) == e0.raw(i))))


def _old_view(self, v):
    from verif.pyvc.spec import RefView
    return RefView(self.old_st, v.t, v.z, self.side)


Ctx.old_view = _old_view


def lists_unchanged(C, clsfield, elem_ty, *except_refs):
    """list-valued field unchanged for all other objects, stated elementwise (so that facts about the old
    lists are found by the syntactic trigger matcher)"""
    cls, f = clsfield.split('.')
    a1, a0 = C.st.heap_arr_cf(cls, f), C.old_st.heap_arr_cf(cls, f)
    LT = TList(elem_ty)
    return And(FA('ref', lambda r: Implies(And(*[r != zof(x) for x in except_refs]), l_len(LT, a1[r]) == l_len(LT, a0[r])),
                  pats=lambda r: [a1[r]]),
               FA('ref', 'idx', lambda r, i: Implies(And(*[r != zof(x) for x in except_refs]), l_at(LT, a1[r])[i] == l_at(LT, a0[r])[i]),
                  pats=lambda r, i: [l_at(LT, a1[r])[i]]))


def props_valid(C):
    """typing invariant of Agent.properties assumed to be kept by user code: every property is a
    {"type","value"} record and the dict is well formed"""
    pr = C.st.heap_arr_cf('Agent', 'properties')
    return FA('ref', 'str', lambda a, p: Implies(d_dom(c13_stats.PROPS_T, pr[a])[p],
                                                And(PROP.has(d_val(c13_stats.PROPS_T, pr[a])[p], 'type'),
                                                    PROP.has(d_val(c13_stats.PROPS_T, pr[a])[p], 'value'))),
              pats=lambda a, p: [d_val(c13_stats.PROPS_T, pr[a])[p]])


def cb_frame(C, model):
    return And(events_extended(C, model), props_valid(C),
               FA('idx', lambda i: Implies(And(0 <= i, i < model.events.len), C.isinst(model.events.raw(i), 'Event'))),
               FA('ref', lambda a: d_wf(c13_stats.PROPS_T, C.st.heap_arr_cf('Agent', 'properties')[a], FA),
                  pats=lambda a: [C.st.heap_arr_cf('Agent', 'properties')[a]]))


for nm, ctor in (('begin_round', TraceEv.begin), ('end_round', TraceEv.end)):
    contract('Model.' + nm, trusted=True, props=['C11', 'C12'], ghost=GHOST,
             note='user hook: appends one trace record; may change agent state/properties and enqueue events; '
                  'does not touch the registry, inboxes, scheduler, run specs or queued events',
             params=dict(self=M, time=REAL, sim_round=INT, step=INT), modifies=CB_MODS,
             ensures=lambda C, ctor=ctor: And(tr_append(C, ctor(C.time, C.sim_round, C.step)), cb_frame(C, C.self)))

contract('Agent.act', trusted=True, props=['C11', 'C12'], ghost=GHOST,
         note='user hook: appends one trace record; same frame as the other callbacks',
         params=dict(self=A, time=REAL, round_no=INT, step_no=INT), modifies=CB_MODS,
         ensures=lambda C: And(tr_append(C, TraceEv.act(C.self.z, C.time)), cb_frame(C, C.self.model)))


def _handler_ghost(C, st):
    e = C.event.z
    arr = st.heap_arr_cf('Event', 'g_handled')
    st.heap[('Event', 'g_handled')] = z3.Store(arr, e, z3.Select(arr, e) + 1)


contract('fun:event_handler', trusted=True, props=['C11'], ghost=GHOST,
         note='registered event handler (user code): same frame as the other callbacks; does not touch any inbox',
         params=dict(event=EV), modifies=['Agent.state', 'Agent.properties', 'Model.events'], ghost_mods=['Event.g_handled'],
         ensures=lambda C: props_valid(C), ghost_update=_handler_ghost)

# ---------------------------------------------------------------------------------------------------
# real code: Agent.receive_event / Agent.handle_events
# ---------------------------------------------------------------------------------------------------

def _recv_ghost(C, st):
    e, a = C.event.z, C.self.z
    for f, val in (('g_delivered', None), ('g_to', a), ('g_seq', st.ghost['clock'].z)):
        arr = st.heap_arr_cf('Event', f)
        st.heap[('Event', f)] = z3.Store(arr, e, (z3.Select(arr, e) + 1) if val is None else val)
    st.ghost['clock'] = SV(INT, st.ghost['clock'].z + 1)


contract('Agent.receive_event', file=FA_, props=['C11'], ghost=GHOST,
         params=dict(self=A, event=TRef('object')),
         raises={'ValueError': lambda C: Not(C.isinst(C.event, 'Event'))},
         requires=lambda C: True,
         ensures=lambda C: And(C.self.events.is_append(C.old.self.events, C.event),
                               others_unchanged(C, ['Agent.events'], C.self), lists_unchanged(C, 'Agent.events', EV, C.self)),
         modifies=['Agent.events'], ghost_mods=['Event.g_delivered', 'Event.g_to', 'Event.g_seq', '$clock'],
         ghost_update=_recv_ghost)


def _dispatch_count(C, e):
    """1 iff a handler is registered for this event in the agent's state at entry"""
    a0 = C.old.self
    nm = C.old_st.heap_arr_cf('Event', 'name')[e]
    return If(And(a0.eventHandlers.has(a0.state), a0.eventHandlers[a0.state].has(nm)), 1, 0)


def handle_events_post(C):
    a1, a0 = C.self, C.old.self
    inbox0 = a0.events
    gh1, gh0 = C.st.heap_arr_cf('Event', 'g_handled'), C.old_st.heap_arr_cf('Event', 'g_handled')
    return And(
        # the inbox is drained in every state ...
        a1.events.len == 0,
        # ... and each event in it is dispatched exactly once iff a handler is registered for it, else dropped
        Implies(_inbox_distinct0(C), FA('idx', lambda i: Implies(And(0 <= i, i < inbox0.len),
                                    gh1[inbox0.raw(i)] == gh0[inbox0.raw(i)] + _dispatch_count(C, inbox0.raw(i))))),
        others_unchanged(C, ['Agent.events'], C.self), lists_unchanged(C, 'Agent.events', EV, C.self))


_IBD = {}


def _inbox_distinct0(C):
    ib = C.old.self.events
    key = ib.z.get_id()
    if key not in _IBD:
        _IBD[key] = FA('idx', 'idx', lambda i, j: Implies(And(0 <= i, i < j, j < ib.len), ib.raw(i) != ib.raw(j)))
    return _IBD[key]


def handle_events_inv(C):
    a1, a0 = C.self, C.old.self
    inbox0 = a0.events
    gh1, gh0 = C.st.heap_arr_cf('Event', 'g_handled'), C.old_st.heap_arr_cf('Event', 'g_handled')
    has_table = a0.eventHandlers.has(a0.state)
    h = C.v.handlers
    return And(a1.events.len <= inbox0.len,
               FA('idx', lambda i: Implies(And(0 <= i, i < a1.events.len), a1.events.raw(i) == inbox0.raw(i))),
               Implies(_inbox_distinct0(C), And(
                   FA('idx', lambda i: Implies(And(0 <= i, i < a1.events.len), gh1[inbox0.raw(i)] == gh0[inbox0.raw(i)])),
                   FA('idx', lambda i: Implies(And(a1.events.len <= i, i < inbox0.len),
                                               gh1[inbox0.raw(i)] == gh0[inbox0.raw(i)] + _dispatch_count(C, inbox0.raw(i)))))),
               others_unchanged(C, ['Agent.events'], C.self), lists_unchanged(C, 'Agent.events', EV, C.self),
               Implies(has_table, h.z == a0.eventHandlers[a0.state].z),
               Implies(Not(has_table), FA('str', lambda k: Not(h.has(k)))))


contract('Agent.handle_events', file=FA_, props=['C11', 'C12'], ghost=GHOST,
         params=dict(self=A, time=REAL, sim_round=INT, step=INT), locals=dict(handlers=TDict(STR, HANDLER)),
         requires=lambda C: FA('idx', lambda i: Implies(And(0 <= i, i < C.self.events.len), C.self.events[i] != NULL)),
         ensures=handle_events_post, loops={0: handle_events_inv},
         modifies=['Agent.state', 'Agent.properties', 'Model.events', 'Agent.events'], ghost_mods=['$tr', 'Event.g_handled'],
         ghost_update=lambda C, st: st.ghost.__setitem__('tr', _tr_push(st, TraceEv.handle(C.self.z, C.time))))


def _tr_push(st, rec):
    t = st.ghost['tr']
    return SV(t.t, l_append(t.t, t.z, rec))


# ---------------------------------------------------------------------------------------------------
# real code: Scheduler.handle_delayed_event
# ---------------------------------------------------------------------------------------------------

def hde_post(C):
    s1, s0 = C.self, C.old.self
    e = C.event
    delayed = C.isinst(e, 'DelayedEvent')
    d0 = C.old_st.heap_arr_cf('DelayedEvent', 'delay')[e.z]
    d1 = C.st.heap_arr_cf('DelayedEvent', 'delay')[e.z]
    hold = And(delayed, d0 > 0)
    return And(
        Implies(hold, And(C.result.is_null, d1 == d0 - C.dt, s1.delayed_events.is_append(s0.delayed_events, e))),
        Implies(Not(hold), And(C.result == e, s1.delayed_events.z == s0.delayed_events.z,
                               C.unchanged('DelayedEvent.delay'))),
        FA('ref', lambda r: Implies(r != e.z, C.st.heap_arr_cf('DelayedEvent', 'delay')[r] == C.old_st.heap_arr_cf('DelayedEvent', 'delay')[r])),
        others_unchanged(C, ['Scheduler.delayed_events'], C.self))


contract('Scheduler.handle_delayed_event', file=FB, props=['C11'], params=dict(self=SCH, event=EV, dt=REAL), returns=EV,
         requires=lambda C: C.event != NULL, ensures=hde_post,
         modifies=['DelayedEvent.delay', 'Scheduler.delayed_events'])

# ---------------------------------------------------------------------------------------------------
# real code: Model.enqueue_event / broadcast_event
# ---------------------------------------------------------------------------------------------------
contract('Model.enqueue_event', file=FM, props=['C11'], params=dict(self=M, event=TRef('object')),
         raises={'WrongTypeException': lambda C: Not(C.isinst(C.event, 'Event'))},
         ensures=lambda C: And(C.self.events.is_append(C.old.self.events, C.event),
                               others_unchanged(C, ['Model.events'], C.self)),
         modifies=['Model.events'])
declare_exception('WrongTypeException')

# ---------------------------------------------------------------------------------------------------
# real code: SimultaneousScheduler.run_step
# ---------------------------------------------------------------------------------------------------

def deliverable0(C, e):
    """decided on the entry state: a plain event, or a delayed event whose countdown is over"""
    d0 = C.old_st.heap_arr_cf('DelayedEvent', 'delay')[e]
    return Not(And(C.isinst(e, 'DelayedEvent'), d0 > 0))


def gfield(st, f, e):
    return st.heap_arr_cf('Event', f)[e]


def processed(C, e):
    """effect of one distribution pass on event e (the C11 statement for one event)"""
    m = C.model
    ags = m.agents
    rid = C.st.heap_arr_cf('Event', 'receiver_id')[e]
    gd1, gd0 = gfield(C.st, 'g_delivered', e), gfield(C.old_st, 'g_delivered', e)
    to = gfield(C.st, 'g_to', e)
    idf = C.st.heap_arr_cf('Agent', 'id')
    d1 = C.st.heap_arr_cf('DelayedEvent', 'delay')[e]
    d0 = C.old_st.heap_arr_cf('DelayedEvent', 'delay')[e]
    delivered = And(gd1 == gd0 + 1, to != NULL, idf[to] == rid, ags.contains(to))
    nobody = And(gd1 == gd0, FA('idx', lambda i: Implies(And(0 <= i, i < ags.len), ags[i].id != rid)))
    return If(deliverable0(C, e), And(Or(delivered, nobody), d1 == d0),
              And(gd1 == gd0, d1 == d0 - m.dt))


def events_valid(C):
    """wf_events: queued events are distinct Event objects"""
    ev = C.model.events
    return And(FA('idx', lambda i: Implies(And(0 <= i, i < ev.len), C.isinst(ev.raw(i), 'Event'))),
               FA('idx', 'idx', lambda i, j: Implies(And(0 <= i, i < j, j < ev.len), ev.raw(i) != ev.raw(j))))


_EVV = {}


def events_distinct0(C):
    """the queue at ENTRY holds no event object twice (shared placeholder: the per-event statement of C11 is
    conditional on it, because a twice-queued object is legitimately delivered twice)"""
    ev = C.old.model.events
    key = ev.z.get_id()
    if key not in _EVV:
        _EVV[key] = FA('idx', 'idx', lambda i, j: Implies(And(0 <= i, i < j, j < ev.len), ev.raw(i) != ev.raw(j)))
    return _EVV[key]


def events_are_events(C):
    ev = C.model.events
    return FA('idx', lambda i: Implies(And(0 <= i, i < ev.len), C.isinst(ev.raw(i), 'Event')))


def inboxes_valid(C):
    inbox = C.st.heap_arr_cf('Agent', 'events')
    LT = TList(EV)
    return FA('ref', 'idx', lambda a, i: Implies(And(0 <= i, i < l_len(LT, inbox[a])), l_at(LT, inbox[a])[i] != NULL),
              pats=lambda a, i: [l_at(LT, inbox[a])[i]])


def rs_time(C):
    return z3.ToReal(C.sim_round) + z3.ToReal(C.step) * C.model.dt


def dist_inv(C):
    """distribution loop: model.events shrinks from the end; every popped event is `processed`"""
    m1, m0 = C.model, C.old.model
    E0 = m0.events
    ev = m1.events
    n = E0.len
    seq = C.st.heap_arr_cf('Event', 'g_seq')
    gd1, gd0 = C.st.heap_arr_cf('Event', 'g_delivered'), C.old_st.heap_arr_cf('Event', 'g_delivered')
    return And(
        ev.len <= n, FA('idx', lambda i: Implies(And(0 <= i, i < ev.len), ev.raw(i) == E0.raw(i))),
        Implies(events_distinct0(C), FA('idx', lambda i: Implies(And(ev.len <= i, i < n), processed(C, E0.raw(i))))),
        # not yet popped: untouched
        Implies(events_distinct0(C), FA('idx', lambda i: Implies(And(0 <= i, i < ev.len),
                                    And(gd1[E0.raw(i)] == gd0[E0.raw(i)],
                                        C.st.heap_arr_cf('DelayedEvent', 'delay')[E0.raw(i)] == C.old_st.heap_arr_cf('DelayedEvent', 'delay')[E0.raw(i)])))),
        # order: a later-queued event is put into an inbox before an earlier-queued one (LIFO pop)
        Implies(events_distinct0(C), And(
            FA('idx', 'idx', lambda i, j: Implies(And(ev.len <= i, i < j, j < n, gd1[E0.raw(i)] > gd0[E0.raw(i)], gd1[E0.raw(j)] > gd0[E0.raw(j)]),
                                                  seq[E0.raw(j)] < seq[E0.raw(i)])),
            FA('idx', lambda i: Implies(And(ev.len <= i, i < n, gd1[E0.raw(i)] > gd0[E0.raw(i)]),
                                        And(seq[E0.raw(i)] >= C.old.g('clock'), seq[E0.raw(i)] < C.g('clock')))))),
        C.g('clock') >= C.old.g('clock'),
        # held-back events are exactly collected in delayed_events
        Implies(events_distinct0(C), FA('idx', lambda i: Implies(And(ev.len <= i, i < n, Not(deliverable0(C, E0.raw(i)))), C.self.delayed_events.contains(E0.raw(i))))),
        FA('idx', lambda j: Implies(And(0 <= j, j < C.self.delayed_events.len), C.isinst(C.self.delayed_events.raw(j), 'Event'))),
        m1.agents.z == m0.agents.z, wf(m1), C.g('tr').z == C.old.g('tr').z,
        C.self.current_time == rs_time(C), C.self.current_round == C.sim_round, C.self.current_step == C.step,
        inboxes_valid(C), props_valid(C))


def steptrace(C, tr1, base, with_collect):
    """tr1[base:] == [begin] ++ [handle(a), act(a) for a in agents] ++ [end] (++ [collect])"""
    m0 = C.old.model
    ags = m0.agents
    t = rs_time(C)
    n = ags.len
    return And(
        tr1.raw(base) == TraceEv.begin(t, C.sim_round, C.step),
        FA('idx', lambda i: Implies(And(0 <= i, i < n),
                                    And(tr1.raw(base + 1 + 2 * i) == TraceEv.handle(ags.raw(i), t),
                                        tr1.raw(base + 2 + 2 * i) == TraceEv.act(ags.raw(i), t)))),
        tr1.raw(base + 1 + 2 * n) == TraceEv.end(t, C.sim_round, C.step),
        Implies(with_collect, tr1.raw(base + 2 + 2 * n) == TraceEv.collect(t)),
        tr1.len == base + 2 + 2 * n + If(with_collect, 1, 0))


def agents_inv(C):
    """agent loop: k agents have handled their events and acted, in list order"""
    m1, m0 = C.model, C.old.model
    tr1, tr0 = C.g('tr'), C.old.g('tr')
    ags = m0.agents
    t = rs_time(C)
    base = tr0.len
    return And(
        m1.agents.z == m0.agents.z, wf(m1), props_valid(C), inboxes_valid(C),
        tr1.len == base + 1 + 2 * C.k,
        FA('idx', lambda i: Implies(And(0 <= i, i < base), tr1.raw(i) == tr0.raw(i))),
        tr1.raw(base) == TraceEv.begin(t, C.sim_round, C.step),
        FA('idx', lambda i: Implies(And(0 <= i, i < C.k),
                                    And(tr1.raw(base + 1 + 2 * i) == TraceEv.handle(ags.raw(i), t),
                                        tr1.raw(base + 2 + 2 * i) == TraceEv.act(ags.raw(i), t)))),
        C.self.current_time == t, C.self.current_round == C.sim_round, C.self.current_step == C.step,
        FA('idx', lambda i: Implies(And(0 <= i, i < m1.agents.len),
                                    d_wf(c13_stats.PROPS_T, C.st.heap_arr_cf('Agent', 'properties')[m1.agents.raw(i)], FA))))


from verif.pyvc.calls import ROUND

StepRec = z3.Datatype('StepRec')
StepRec.declare('mk', ('r', I), ('s', I))
StepRec = StepRec.create()
STEP_REC = TData('StepRec', StepRec)
GHOST['steps'] = TList(STEP_REC)


def steps_per_round(dt):
    return ROUND(1 / dt)


def collects(C):
    """is a statistics record written in this step?"""
    m0 = C.old.model
    last = And(C.sim_round == m0.stoptime, C.step == steps_per_round(m0.dt) - 1)
    return And(m0.data_collector != NULL, Or(C.collect_data, last))


def rs_post(C):
    m1, m0 = C.model, C.old.model
    E0 = m0.events
    tr1, tr0 = C.g('tr'), C.old.g('tr')
    return And(
        # C11: every event queued at entry went through exactly one distribution pass
        Implies(events_distinct0(C), FA('idx', lambda i: Implies(And(0 <= i, i < E0.len), processed(C, E0.raw(i))))),
        C.self.delayed_events.len == 0, events_are_events(C), props_valid(C), inboxes_valid(C),
        FA('idx', lambda i: Implies(And(0 <= i, i < m1.agents.len),
                                    d_wf(c13_stats.PROPS_T, C.st.heap_arr_cf('Agent', 'properties')[m1.agents.raw(i)], FA))),
        # C12: the callback trace of this step
        FA('idx', lambda i: Implies(And(0 <= i, i < tr0.len), tr1.raw(i) == tr0.raw(i))),
        steptrace(C, tr1, tr0.len, collects(C)),
        C.self.current_time == rs_time(C), C.self.current_round == C.sim_round, C.self.current_step == C.step,
        m1.agents.z == m0.agents.z, wf(m1), C.self.running == C.old.self.running,
        m1.dt == m0.dt, m1.starttime == m0.starttime, m1.stoptime == m0.stoptime, m1.data_collector == m0.data_collector)


def _rs_ghost(C, st):
    t = st.ghost['steps']
    st.ghost['steps'] = SV(t.t, l_append(t.t, t.z, StepRec.mk(C.sim_round, C.step)))


SS = TRef('SimultaneousScheduler')
CLASSES['Model'].fields['scheduler'] = SS

RS_MODS = ['Model.events', 'Agent.events', 'Agent.state', 'Agent.properties',
           'DelayedEvent.delay', 'Scheduler.delayed_events', 'Scheduler.current_time', 'Scheduler.current_round',
           'Scheduler.current_step', 'Scheduler.progress', 'DataCollector.agent_statistics',
           'DataCollector.event_statistics', 'Event.g_delivered', 'Event.g_to', 'Event.g_seq', 'Event.g_handled',
           '$tr', '$clock', '$steps']

contract('SimultaneousScheduler.run_step', file=FS, props=['C11', 'C12'], ghost=GHOST,
         params=dict(self=SS, model=M, sim_round=INT, step=INT, progress_widget=BOOL, collect_data=BOOL),
         defaults=dict(progress_widget=NONE_V, collect_data=sv_bool(True)),
         requires=lambda C: And(Not(C.progress_widget), rs_requires_core(C)),
         ensures=rs_post, loops={0: dist_inv, 1: agents_inv}, modifies=[x for x in RS_MODS if x != '$steps'],
         ghost_mods=['$steps'], ghost_update=_rs_ghost)


def rs_requires_core(C):
    m = C.model
    return And(C.model != NULL, wf(m), events_are_events(C), m.dt > 0,
               C.self.delayed_events.len == 0, props_valid(C), inboxes_valid(C),
               FA('idx', lambda i: Implies(And(0 <= i, i < m.agents.len),
                                           d_wf(c13_stats.PROPS_T, C.st.heap_arr_cf('Agent', 'properties')[m.agents.raw(i)], FA))))


# ---------------------------------------------------------------------------------------------------
# real code: SimultaneousScheduler.run  (C12: every (round, step) once, in order)
# ---------------------------------------------------------------------------------------------------

def succ_step(rec, S):
    r, s = StepRec.r(rec), StepRec.s(rec)
    return If(s + 1 < S, StepRec.mk(r, s + 1), StepRec.mk(r + 1, 0))


def chain(C, steps1, n0, S):
    """the part of the step log written by this call is a successor chain"""
    return FA('idx', lambda i: Implies(And(n0 <= i, i + 1 < steps1.len), steps1.raw(i + 1) == succ_step(steps1.raw(i), S)))


def run_frame(C):
    m1, m0 = C.model, C.old.model
    return And(m1.agents.z == m0.agents.z, wf(m1), m1.dt == m0.dt, m1.starttime == m0.starttime,
               m1.stoptime == m0.stoptime, m1.data_collector == m0.data_collector,
               C.self.running == C.old.self.running, C.self.delayed_events.len == 0,
               events_are_events(C), props_valid(C), inboxes_valid(C),
               FA('idx', lambda i: Implies(And(0 <= i, i < m1.agents.len),
                                           d_wf(c13_stats.PROPS_T, C.st.heap_arr_cf('Agent', 'properties')[m1.agents.raw(i)], FA))))


def run_inv_outer(C):
    """k rounds done: log == old ++ all (start+r, s) for r < k, s < S"""
    m0 = C.old.model
    S = steps_per_round(m0.dt)
    st1, st0 = C.g('steps'), C.old.g('steps')
    n0 = st0.len
    start = m0.starttime
    return And(run_frame(C), S >= 1,
               FA('idx', lambda i: Implies(And(0 <= i, i < n0), st1.raw(i) == st0.raw(i))),
               st1.len >= n0, chain(C, st1, n0, S),
               Implies(C.k == 0, st1.len == n0),
               Implies(C.k > 0, And(st1.len > n0, st1.raw(n0) == StepRec.mk(start, 0),
                                    st1.raw(st1.len - 1) == StepRec.mk(start + C.k - 1, S - 1))))


def run_inv_inner(C):
    """inside round start+K: j steps of it done"""
    m0 = C.old.model
    S = steps_per_round(m0.dt)
    st1, st0 = C.g('steps'), C.old.g('steps')
    n0 = st0.len
    start = m0.starttime
    K = C.outer_k
    r = start + K
    return And(run_frame(C), S >= 1, 0 <= K, C.v.sim_round == r,
               FA('idx', lambda i: Implies(And(0 <= i, i < n0), st1.raw(i) == st0.raw(i))),
               st1.len >= n0, chain(C, st1, n0, S),
               Implies(And(K == 0, C.k == 0), st1.len == n0),
               Implies(Or(K > 0, C.k > 0), And(st1.len > n0, st1.raw(n0) == StepRec.mk(start, 0))),
               Implies(C.k > 0, st1.raw(st1.len - 1) == StepRec.mk(r, C.k - 1)),
               Implies(And(C.k == 0, K > 0), st1.raw(st1.len - 1) == StepRec.mk(r - 1, S - 1)))


def run_post(C):
    m0 = C.old.model
    S = steps_per_round(m0.dt)
    st1, st0 = C.g('steps'), C.old.g('steps')
    n0 = st0.len
    start, stop = m0.starttime, m0.stoptime
    return And(FA('idx', lambda i: Implies(And(0 <= i, i < n0), st1.raw(i) == st0.raw(i))),
               chain(C, st1, n0, S),
               Implies(start <= stop, And(st1.len > n0, st1.raw(n0) == StepRec.mk(start, 0),
                                          st1.raw(st1.len - 1) == StepRec.mk(stop, S - 1))),
               Implies(start > stop, st1.len == n0))


contract('SimultaneousScheduler.run', file=FS, props=['C12'], ghost=GHOST,
         params=dict(self=SS, model=M, progress_widget=BOOL, collect_data=BOOL),
         defaults=dict(progress_widget=NONE_V, collect_data=sv_bool(True)),
         requires=lambda C: And(Not(C.progress_widget), rs_requires_core(C), C.self.running,
                                steps_per_round(C.model.dt) >= 1),
         ensures=run_post, loops={0: run_inv_outer, 1: run_inv_inner},
         modifies=[x for x in RS_MODS if x != '$steps'] + ['$steps'])

contract('Model.run', file=FM, props=['C12'], ghost=GHOST,
         params=dict(self=M, show_progress_widget=BOOL, collect_data=BOOL),
         requires=lambda C: And(Not(C.show_progress_widget), C.self.scheduler != NULL, C.self.scheduler.running,
                                _as_model(C), steps_per_round(C.self.dt) >= 1),
         ensures=lambda C: _run_post_model(C),
         modifies=[x for x in RS_MODS if x != '$steps'] + ['$steps'])


class _ModelAs:
    """view of a Model.run context as a scheduler.run context (model := self)"""


def _as_model(C):
    C2 = Ctx(C.ex, C.st, C.old_st, dict(C.params, model=C.params['self'], self=C.st.read(C.params['self'].z, 'Model', 'scheduler')), side=C.side)
    return rs_requires_core(C2)


def _run_post_model(C):
    C2 = Ctx(C.ex, C.st, C.old_st, dict(C.params, model=C.params['self'],
                                        self=C.old_st.read(C.params['self'].z, 'Model', 'scheduler')), side=C.side)
    return run_post(C2)


contract('Model.run_step', file=FM, props=['C12'], ghost=GHOST,
         params=dict(self=M, step=INT, show_progress_widget=BOOL, collect_data=BOOL), returns=NONE,
         requires=lambda C: And(Not(C.show_progress_widget), C.self.scheduler != NULL, _as_model(C)),
         ensures=lambda C: _run_step_post_model(C),
         modifies=RS_MODS)


def _run_step_post_model(C):
    p = dict(C.params, model=C.params['self'], self=C.old_st.read(C.params['self'].z, 'Model', 'scheduler'),
             sim_round=sv_int(0), progress_widget=C.params['show_progress_widget'])
    C2 = Ctx(C.ex, C.st, C.old_st, p, side=C.side)
    return rs_post(C2)


def broadcast_post(C):
    m1, m0 = C.self, C.old.self
    ids = m0.agent_type_map[C.agent_type]
    e1, e0 = m1.events, m0.events
    rid = C.st.heap_arr_cf('Event', 'receiver_id')
    return And(e1.len == e0.len + ids.len,
               FA('idx', lambda i: Implies(And(0 <= i, i < e0.len), e1.raw(i) == e0.raw(i))),
               # one event per live agent of the type, addressed to it, in id order
               FA('idx', lambda j: Implies(And(0 <= j, j < ids.len), rid[e1.raw(e0.len + j)] == ids.raw(j))))


EVENT_FACTORY = TFun('event_factory', contract='fun:event_factory')
contract('fun:event_factory', trusted=True, props=['C11'],
         note='user event factory: returns a fresh Event addressed to the id it was given',
         params=dict(agent_id=INT), returns=TRef('object'), allocates=True,
         ensures=lambda C: And(C.isinst(C.result, 'Event'), C.fresh(C.result),
                               C.st.heap_arr_cf('Event', 'receiver_id')[C.result.z] == C.agent_id))

contract('Model.broadcast_event', file=FM, props=['C11'], params=dict(self=M, agent_type=STR, event_factory=EVENT_FACTORY),
         requires=lambda C: And(wf(C.self), C.self.agent_type_map.has(C.agent_type)),
         ensures=broadcast_post, allocates=True,
         loops={0: lambda C: And(C.self.events.len == C.old.self.events.len + C.k,
                                 C.self.agent_type_map.z == C.old.self.agent_type_map.z,
                                 FA('idx', lambda i: Implies(And(0 <= i, i < C.old.self.events.len), C.self.events.raw(i) == C.old.self.events.raw(i))),
                                 FA('idx', lambda j: Implies(And(0 <= j, j < C.k),
                                                             C.st.heap_arr_cf('Event', 'receiver_id')[C.self.events.raw(C.old.self.events.len + j)] == C.old.self.agent_type_map[C.agent_type].raw(j))))},
         modifies=['Model.events'])
