"""C10 -- the SHAPE rules of arrayed equations, for ALL shapes (K1 contracts on the real resolve_dimensions functions of
BPTK_Py/sddsl/operators.py).  Dimensions are the code's own representation: -1 for a value, [m, 0] (or [m]) for a vector of
length m, [m, n] for an m x n matrix.  Contract: the function raises exactly when numpy refuses the operand shapes (dot:
numpy.dot's rule; element-wise operators: different shapes) and otherwise returns the dimensions of numpy's result.
The values of the elements are the business of the bounded engine (contracts/c10_arrays.py)."""
import z3
from verif.pyvc.spec import *  # noqa

And, Or, Not, Implies, If = z3.And, z3.Or, z3.Not, z3.Implies, z3.If

F = 'BPTK_Py/sddsl/operators.py'
DIMS = TSent(TList(INT), -1)
declare_class('object') if 'object' not in CLASSES else None
declare_class('SdOperand', ['object'])
declare_class('SdBinary', ['object'], element_1=TRef('SdOperand'), element_2=TRef('SdOperand'))
DIMOF = z3.Function('dims_of', RefS, DIMS.sort())     # the dimensions _get_element_dimensions reports for an operand


def is_value(d):
    return DIMS.dt.is_none(d)


def lst(d):
    return DIMS.dt.v(d)


def ln(d):
    return l_len(DIMS.t, lst(d))


def at(d, i):
    return z3.Select(l_at(DIMS.t, lst(d)), i)


def wf(d):
    """what the code's producers of dimensions return: -1, or a list of one or two non-negative sizes"""
    return Or(is_value(d), And(Or(ln(d) == 1, ln(d) == 2), at(d, 0) >= 0, Implies(ln(d) == 2, at(d, 1) >= 0)))


def is_vector(d):
    return And(Not(is_value(d)), Or(ln(d) == 1, at(d, 1) == 0))


def is_matrix(d):
    return And(Not(is_value(d)), ln(d) == 2, at(d, 1) != 0)


def same_shape(d, e):
    """numpy: equal shapes (a vector is a vector whichever of the two spellings [m] / [m, 0] it has)"""
    return Or(And(is_value(d), is_value(e)),
              And(is_vector(d), is_vector(e), at(d, 0) == at(e, 0)),
              And(is_matrix(d), is_matrix(e), at(d, 0) == at(e, 0), at(d, 1) == at(e, 1)))


contract('_get_element_dimensions', trusted=True, props=['C10'], params=dict(element=TRef('SdOperand')), returns=DIMS,
         note='dimensions of an operand (ArrayedEquation.matrix_size of an element, resolve_dimensions of a sub-operator, -1 for a value): '
              'a function of the operand; may raise (non-uniform matrix, invalid sub-expression)',
         ensures=lambda C: And(C.result.z == DIMOF(C.element.z), wf(C.result.z)), raises={'Exception': lambda C: True})


def dot_rejects(d1, d2):
    """numpy.dot refuses these operand shapes (value . value is refused by the DSL: use * instead)"""
    return Or(And(is_value(d1), is_value(d2)),
              And(is_vector(d1), is_vector(d2), at(d1, 0) != at(d2, 0)),
              And(is_vector(d1), is_matrix(d2), at(d1, 0) != at(d2, 0)),
              And(is_matrix(d1), is_vector(d2), at(d1, 1) != at(d2, 0)),
              And(is_matrix(d1), is_matrix(d2), at(d1, 1) != at(d2, 0)))


def dot_post(C):
    d1, d2 = DIMOF(C.self.element_1.z), DIMOF(C.self.element_2.z)
    r = C.result.z
    return And(
        Not(dot_rejects(d1, d2)),
        Implies(And(is_value(d1), Not(is_value(d2))), r == d2),
        Implies(And(Not(is_value(d1)), is_value(d2)), r == d1),
        Implies(And(is_vector(d1), is_vector(d2)), is_value(r)),
        Implies(And(is_vector(d1), is_matrix(d2)), And(Not(is_value(r)), ln(r) == 1, at(r, 0) == at(d2, 1))),
        Implies(And(is_matrix(d1), is_vector(d2)), And(Not(is_value(r)), ln(r) == 1, at(r, 0) == at(d1, 0))),
        Implies(And(is_matrix(d1), is_matrix(d2)), And(Not(is_value(r)), ln(r) == 2, at(r, 0) == at(d1, 0), at(r, 1) == at(d2, 1))))


contract('DotOperator.resolve_dimensions', file=F, props=['C10'], params=dict(self=TRef('SdBinary')), returns=DIMS,
         locals=dict(dim1=DIMS, dim2=DIMS),
         requires=lambda C: And(C.self.element_1 != NULL, C.self.element_2 != NULL),
         ensures=dot_post,
         # an exception is allowed only where the operands (or the shapes) are invalid; with valid operands exactly the
         # shapes numpy refuses are refused
         raises={'Exception': lambda C: True},
         exc_ensures={})


def elementwise_post(C):
    d1, d2 = DIMOF(C.self.element_1.z), DIMOF(C.self.element_2.z)
    r = C.result.z
    return And(
        # accepted => the operand shapes agree (or one is a value) and the result has the array operand's dimensions
        Implies(And(Not(is_value(d1)), Not(is_value(d2))), same_shape(d1, d2)),
        Implies(Not(is_value(d1)), r == d1),
        Implies(is_value(d1), r == d2))


for cls in ('AdditionOperator', 'SubtractionOperator', 'DivisionOperator', 'NumericalMultiplicationOperator', 'MultiplicationOperator'):
    contract('%s.resolve_dimensions' % cls, file=F, props=['C10'], params=dict(self=TRef('SdBinary')), returns=DIMS,
             locals=dict(dim1=DIMS, dim2=DIMS),
             requires=lambda C: And(C.self.element_1 != NULL, C.self.element_2 != NULL),
             ensures=elementwise_post, raises={'Exception': lambda C: True})

K1_C10 = ['DotOperator.resolve_dimensions'] + ['%s.resolve_dimensions' % c for c in
                                               ('AdditionOperator', 'SubtractionOperator', 'DivisionOperator', 'NumericalMultiplicationOperator', 'MultiplicationOperator')]
