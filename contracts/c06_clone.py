"""C06 structural obligations on ScenarioManagerSd.get_cloned_model (scenario_manager_sd.py), generated from the AST:
the clone is a NEW Model object and none of its mutable containers is the base model's (separation at the source)."""
import ast
from verif.pyvc import binder

FILE = 'BPTK_Py/scenariomanager/scenario_manager_sd.py'
MUTABLE = ['points', 'memo', 'equations', 'constants', 'converters', 'flows', 'biflows', 'stocks', 'functions', 'fn']


def run(prop, cfg, tier, seed):
    out = []
    base = '%s/scenario_manager_sd.py::ScenarioManagerSd.get_cloned_model' % prop
    try:
        fn = binder.find_function(FILE, 'ScenarioManagerSd.get_cloned_model')
    except (KeyError, OSError, SyntaxError) as e:
        return dict(verdicts=[dict(name=base, qualname='get_cloned_model', status='undecided', solver='ast', secs=0, reason='unbound: %s' % e)])
    src_param = fn.args.args[1].arg if len(fn.args.args) > 1 else 'model'
    news = [n for n in ast.walk(fn) if isinstance(n, ast.Assign) and isinstance(n.value, ast.Call) and ast.unparse(n.value.func) == 'Model']
    ok = len(news) == 1 and isinstance(news[0].targets[0], ast.Name)
    new_name = news[0].targets[0].id if ok else 'new_mod'
    out.append(dict(name=base + '/fresh-model', qualname='get_cloned_model', status='discharged' if ok else 'counterexample', solver='ast', secs=0,
                    line=fn.lineno, path=['clone is created by Model(...)']))
    rets = [n for n in ast.walk(fn) if isinstance(n, ast.Return) and n.value is not None and not (isinstance(n.value, ast.Constant) and n.value.value is None)]
    ok = bool(rets) and all(isinstance(r.value, ast.Name) and r.value.id == new_name for r in rets)
    out.append(dict(name=base + '/returns-clone', qualname='get_cloned_model', status='discharged' if ok else 'counterexample', solver='ast', secs=0))
    # no mutable container of the base model is installed in the clone
    for n in ast.walk(fn):
        if isinstance(n, ast.Assign) and len(n.targets) == 1 and isinstance(n.targets[0], ast.Attribute) \
                and isinstance(n.targets[0].value, ast.Name) and n.targets[0].value.id == new_name and n.targets[0].attr in MUTABLE:
            v = ast.unparse(n.value)
            aliased = v == '%s.%s' % (src_param, n.targets[0].attr) or v.startswith('%s.%s' % (src_param, n.targets[0].attr)) and '(' not in v
            out.append(dict(name=base + '/separate.%s' % n.targets[0].attr, qualname='get_cloned_model', solver='ast', secs=0, line=n.lineno,
                            status='counterexample' if aliased else 'discharged', path=['%s.%s = %s' % (new_name, n.targets[0].attr, v)],
                            model=dict(kind='alias', field=n.targets[0].attr, value=v) if aliased else None))
    return dict(verdicts=out, functions=[dict(function='ScenarioManagerSd.get_cloned_model', file=FILE, line=fn.lineno, obligations=len(out))],
                assumptions=['elements of a clone share the (empty, for non-arrayed elements) _elements holder with the base element: arrayed models are not covered'])
