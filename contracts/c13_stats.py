"""C13 -- agent statistics equal the aggregates of the agent population.
Functional contract on DataCollector.collect_agent_statistics / record_event / reset / statistics
(BPTK_Py/modeling/dataCollector.py): for the recorded time, count/total/min/max/mean equal the
recurrence-defined aggregates over exactly the agents of each (type, state)."""
from .abm_classes import *  # noqa
from .c14_registry import others_unchanged  # noqa  (also registers DataCollector.reset)

F = 'BPTK_Py/modeling/dataCollector.py'
DC = TRef('DataCollector')
A = TRef('Agent')
PROPS_T = TDict(STR, PROP)
H_PROPS = z3.ArraySort(RefS, PROPS_T.sort())
INTEGER, DOUBLE = strlit('Integer'), strlit('Double')


def _prop(pr, a, p):
    d = pr[a]
    return d_dom(PROPS_T, d)[p], d_val(PROPS_T, d)[p]


def numeric(pr, a, p):
    has, rec = _prop(pr, a, p)
    ty = PROP.get(rec, 'type')
    return And(has, Or(ty == INTEGER, ty == DOUBLE))


def pval(pr, a, p):
    return PROP.get(_prop(pr, a, p)[1], 'value')


def sel(at, ty, stt, pr, T, S, p, k):
    return And(ty[at[k]] == T, stt[at[k]] == S, numeric(pr, at[k], p))


PS = [ARR_REF, H_STR, H_STR, H_PROPS, StrS, StrS, StrS]
pcnt = RecFun('pcnt', PS, I, base=lambda *a: z3.IntVal(0),
              step=lambda at, ty, stt, pr, T, S, p, k, prev: prev + If(sel(at, ty, stt, pr, T, S, p, k), 1, 0),
              lemmas=[lambda ps, k, f: f(*ps, k) >= 0,
                      lambda ps, k, f: f(*ps, k) <= cnt_ts(ps[0], ps[1], ps[2], ps[4], ps[5], k)])
psum = RecFun('psum', PS, R, base=lambda *a: z3.RealVal(0),
              step=lambda at, ty, stt, pr, T, S, p, k, prev: prev + If(sel(at, ty, stt, pr, T, S, p, k), pval(pr, at[k], p), 0),
              # nothing summed yet while no agent of the group carried the property
              lemmas=[lambda ps, k, f: Implies(pcnt(*ps, k) == 0, f(*ps, k) == 0)])
pmax = RecFun('pmax', PS, R, base=lambda *a: z3.RealVal(0),
              step=lambda at, ty, stt, pr, T, S, p, k, prev: If(sel(at, ty, stt, pr, T, S, p, k),
                                                                 If(pcnt(at, ty, stt, pr, T, S, p, k) == 0, pval(pr, at[k], p),
                                                                    If(pval(pr, at[k], p) > prev, pval(pr, at[k], p), prev)), prev))
pmin = RecFun('pmin', PS, R, base=lambda *a: z3.RealVal(0),
              step=lambda at, ty, stt, pr, T, S, p, k, prev: If(sel(at, ty, stt, pr, T, S, p, k),
                                                                 If(pcnt(at, ty, stt, pr, T, S, p, k) == 0, pval(pr, at[k], p),
                                                                    If(pval(pr, at[k], p) < prev, pval(pr, at[k], p), prev)), prev))

from verif.pyvc.exec import RDIV


def env(C):
    """(at, ty, stt, pr, n) of the `agents` argument in the entry state"""
    ags = C.old.agents
    st0 = C.old_st
    return (AT(ags), st0.heap_arr_cf('Agent', 'agent_type'), st0.heap_arr_cf('Agent', 'state'),
            st0.heap_arr_cf('Agent', 'properties'), ags.len)


def valid_population(C):
    """is_valid(): real agents whose property dicts are well formed and hold {"type","value"} records"""
    at, ty, stt, pr, n = env(C)
    ags = C.agents
    return And(
        FA('idx', lambda i: Implies(And(0 <= i, i < n), And(ags[i] != NULL, ags[i].properties.wf))),
        FA('idx', 'str', lambda i, p: Implies(And(0 <= i, i < n, ags[i].properties.has(p)),
                                              And(ags[i].properties[p].has('type'), ags[i].properties[p].has('value')))))


def uniform(C):
    """agents of one (type,state) group carry the same numeric property names; only the recorded MEAN depends
    on it (without it the mean is taken over a count that includes agents lacking the property)"""
    at, ty, stt, pr, n = env(C)
    key = (at.get_id(), ty.get_id(), stt.get_id(), pr.get_id(), n.get_id())
    if key not in _UNI:
        # one shared placeholder per entry state: uses in hypotheses and goals then agree propositionally
        _UNI[key] = FA('idx', 'str', 'str', 'str',
                       lambda i, p, T, S: Implies(And(0 <= i, i < n, ty[at[i]] == T, stt[at[i]] == S, pcnt(at, ty, stt, pr, T, S, p, i) > 0),
                                                  numeric(pr, at[i], p)),
                       pats=lambda i, p, T, S: [pcnt(at, ty, stt, pr, T, S, p, i)])
    return _UNI[key]


_UNI = {}


def prop_stats_ok(C, ps, total, cnt, mx, mn, mean_total, mean_cnt):
    """ps: RecView of one {"total","max","min","mean"} record"""
    return And(ps.has('total'), ps.has('max'), ps.has('min'), ps.has('mean'),
               ps['total'] == total,
               Not(ps['max'].is_none), ps['max'].v == mx,
               Not(ps['min'].is_none), ps['min'].v == mn,
               Implies(uniform(C), ps['mean'] == RDIV(mean_total, z3.ToReal(mean_cnt))))


def group_ok(C, st, T, S, k, extra=None):
    """stats record of (T,S) reflects agents[:k] (+ `extra` = the partially processed agent k)"""
    at, ty, stt, pr, n = env(C)
    rec = st[T][S]
    base_cnt = cnt_ts(at, ty, stt, T, S, k)
    if extra is None:
        cnt = base_cnt

        def per_prop(p):
            c = pcnt(at, ty, stt, pr, T, S, p, k)
            return And(rec.rest.has(p) == (c > 0),
                       Implies(rec.rest.has(p),
                               prop_stats_ok(C, rec.rest[p], psum(at, ty, stt, pr, T, S, p, k), cnt,
                                             pmax(at, ty, stt, pr, T, S, p, k), pmin(at, ty, stt, pr, T, S, p, k),
                                             psum(at, ty, stt, pr, T, S, p, k), cnt)))
    else:
        a, j, keysd = extra   # agent ref, number of processed items, its properties dict (z)
        mine = And(ty[a] == T, stt[a] == S)
        cnt = base_cnt + If(mine, 1, 0)

        def per_prop(p):
            proc = And(mine, d_dom(PROPS_T, keysd)[p], d_pos(PROPS_T, keysd)[p] < j, numeric(pr, a, p))
            c0 = pcnt(at, ty, stt, pr, T, S, p, k)
            v = pval(pr, a, p)
            s0 = psum(at, ty, stt, pr, T, S, p, k)
            mx0, mn0 = pmax(at, ty, stt, pr, T, S, p, k), pmin(at, ty, stt, pr, T, S, p, k)
            tot = s0 + If(proc, v, 0)
            return And(rec.rest.has(p) == (c0 + If(proc, 1, 0) > 0),
                       Implies(rec.rest.has(p),
                               prop_stats_ok(C, rec.rest[p], tot, cnt,
                                             If(proc, If(c0 == 0, v, If(v > mx0, v, mx0)), mx0),
                                             If(proc, If(c0 == 0, v, If(v < mn0, v, mn0)), mn0),
                                             If(proc, tot, s0), If(proc, cnt, base_cnt))))
    return And(rec.has('count'), rec['count'] == cnt, FA('str', per_prop))


def table_ok(C, st, k, extra=None):
    at, ty, stt, pr, n = env(C)
    if extra is None:
        tcount = lambda T: flen(at, ty, T, k)
        scount = lambda T, S: cnt_ts(at, ty, stt, T, S, k)
    else:
        a = extra[0]
        tcount = lambda T: flen(at, ty, T, k) + If(ty[a] == T, 1, 0)
        scount = lambda T, S: cnt_ts(at, ty, stt, T, S, k) + If(And(ty[a] == T, stt[a] == S), 1, 0)
    return And(
        FA('str', lambda T: st.has(T) == (tcount(T) > 0)),
        FA('str', 'str', lambda T, S: Implies(st.has(T), st[T].has(S) == (scount(T, S) > 0))),
        FA('str', 'str', lambda T, S: Implies(And(st.has(T), st[T].has(S)), group_ok(C, st, T, S, k, extra))))


def frame_times(C):
    s1, s0 = C.self.agent_statistics, C.old.self.agent_statistics
    t = z3.ToReal(C.time) if z3.is_int(C.time) else C.time
    return And(s1.has(t),
               FA('real', lambda u: Implies(u != t, And(s1.has(u) == s0.has(u), s1.raw(u) == s0.raw(u)))))


def cas_post(C):
    at, ty, stt, pr, n = env(C)
    return And(frame_times(C), table_ok(C, C.self.agent_statistics[C.time], n))


def cas_inv0(C):
    return And(frame_times(C), table_ok(C, C.self.agent_statistics[C.time], C.k))


def cas_inv1(C):
    a = C.v.agent
    # j = number of processed items of this agent's property dict
    return And(frame_times(C), 0 <= C.outer_k, C.outer_k < C.agents.len, a == C.agents.raw(C.outer_k),
               table_ok(C, C.self.agent_statistics[C.time], C.outer_k, extra=(a.z, C.k, a.properties.z)))


c = contract('DataCollector.collect_agent_statistics', file=F, props=['C13'],
             params=dict(self=DC, time=REAL, agents=TList(A)),
             requires=valid_population, ensures=cas_post, loops={0: cas_inv0, 1: cas_inv1},
             modifies=['DataCollector.agent_statistics'], ghost_mods=['$tr'], ghost={'tr': TList(TRACE_EV)},
             ghost_update=lambda C, st: st.ghost.__setitem__('tr', SV(st.ghost['tr'].t, l_append(st.ghost['tr'].t, st.ghost['tr'].z, TraceEv.collect(C.time)))))
c.uninterpreted_div = True


def record_event_post(C):
    s1, s0 = C.self.event_statistics, C.old.self.event_statistics
    nm = C.event.name
    t = C.time
    old_n = If(And(s0.has(t), s0[t].has(nm)), s0[t][nm], 0)
    return And(s1.has(t), s1[t].has(nm), s1[t][nm] == old_n + 1,
               FA('str', lambda e: Implies(e != nm, And(s1[t].has(e) == And(s0.has(t), s0[t].has(e)),
                                                        Implies(s1[t].has(e), s1[t][e] == s0[t][e])))),
               FA('real', lambda u: Implies(u != t, And(s1.has(u) == s0.has(u), s1.raw(u) == s0.raw(u)))))


contract('DataCollector.record_event', file=F, props=['C13'], params=dict(self=DC, time=REAL, event=TRef('Event')),
         requires=lambda C: C.event != NULL, ensures=record_event_post, modifies=['DataCollector.event_statistics'])

contract('DataCollector.statistics', file=F, props=['C13'], params=dict(self=DC), returns=AGENT_STATS,
         ensures=lambda C: C.result.z == C.self.agent_statistics.z)
