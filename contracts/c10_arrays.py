"""C10 -- arrayed equations compute what the same numpy operation computes.

Engine (bounded in SHAPE, unbounded in element values; never counted as proved):
the real sddsl classes are executed by verif/native/c10_extract.py on every operand-shape combination up to the bound;
for each accepted equation the function string generated for every result element is translated (CPython ast -> z3
reals, every leaf model.memoize('<name>',t) an unconstrained real) and compared, for ALL element values, with the
corresponding entry of the numpy operation carried out on object arrays of the same z3 variables (numpy itself is the
specification: np.add / subtract / multiply / divide / dot).  Aggregates are compared structurally: the numpy function
named in the text must be applied to exactly the array (same nesting, same leaves, same order); sum / product are compared
as polynomials; rank against sorted-descending[rank-1] with the documented clamping.

Contract per case:   accepted  <=>  numpy accepts the shapes (element-wise: equal shapes or a scalar partner;
                     dot: numpy.dot's rule);   accepted  =>  result shape == numpy shape  /\\  forall values: each element == numpy entry.
"""
import ast
import json
import os
import subprocess
import tempfile
import time

import numpy as np
import z3

ROOT = os.path.dirname(os.path.dirname(os.path.abspath(__file__)))
REPO = os.environ.get('VERIF_REPO', '/repo')
FILES = ['BPTK_Py/sddsl/operators.py', 'BPTK_Py/sddsl/element.py']
NP_BIN = {'add': np.add, 'sub': np.subtract, 'mul': np.multiply, 'div': np.divide}


class Bad(Exception):
    pass


def leaf(name):
    return z3.Real('leaf:' + name)


DEFS = {}     # member name -> function string, for operands that are derived arrays (substituted on sight)


def tr(node):
    """python expression of a generated function string -> z3 real | ('list', [...]) | ('agg', fname, arg) | ('rank', list, idx)"""
    if isinstance(node, ast.Lambda):
        return tr(node.body)
    if isinstance(node, ast.Constant) and isinstance(node.value, (int, float)) and not isinstance(node.value, bool):
        return z3.RealVal(repr(node.value))
    if isinstance(node, ast.BinOp):
        a, b = tr(node.left), tr(node.right)
        if not (z3.is_expr(a) and z3.is_expr(b)):
            raise Bad('arithmetic on a non-scalar')
        if isinstance(node.op, ast.Add):
            return a + b
        if isinstance(node.op, ast.Sub):
            return a - b
        if isinstance(node.op, ast.Mult):
            return a * b
        if isinstance(node.op, ast.Div):
            return a / b
        raise Bad('operator %s' % type(node.op).__name__)
    if isinstance(node, ast.UnaryOp) and isinstance(node.op, ast.USub):
        return -tr(node.operand)
    if isinstance(node, ast.List):
        return ('list', [tr(e) for e in node.elts])
    if isinstance(node, ast.Call):
        f = ast.unparse(node.func)
        if f == 'model.memoize' and len(node.args) == 2 and isinstance(node.args[0], ast.Constant) and ast.unparse(node.args[1]) == 't':
            nm = node.args[0].value
            if nm in DEFS:
                d = parse_fs(DEFS[nm])
                if not z3.is_expr(d):
                    raise Bad('member %s of a derived array is not a scalar expression' % nm)
                return d
            return leaf(nm)
        if f in ('np.mean', 'np.median', 'np.std') and len(node.args) == 1 and not node.keywords:
            return ('agg', f, tr(node.args[0]))
        if f == 'sorted' and len(node.args) == 1 and [k.arg for k in node.keywords] == ['reverse'] and ast.unparse(node.keywords[0].value) == 'True':
            return ('sorted_desc', tr(node.args[0]))
        raise Bad('call %s' % f)
    if isinstance(node, ast.Subscript):
        base = tr(node.value)
        if isinstance(base, tuple) and base[0] == 'sorted_desc':
            return ('rank', base[1], tr_int(node.slice))
        raise Bad('subscript')
    raise Bad(type(node).__name__)


def tr_int(node):
    """index expression of the rank operator -> python int (all its atoms are literals)"""
    return int(eval(compile(ast.Expression(node), '<idx>', 'eval'), {'__builtins__': {}}))


def parse_fs(text):
    if not text.startswith('lambda model, t:'):
        raise Bad('not a function string: %r' % text[:40])
    return tr(ast.parse(text.strip(), mode='eval').body)


def arr_of(desc):
    """operand description -> numpy object array of z3 reals / z3 real / RealVal"""
    if desc['kind'] == 'num':
        return z3.RealVal(repr(desc['value']))
    if desc['kind'] == 'scalar':
        return leaf(desc['name'])
    if desc['kind'] == 'derived':
        # the array the element-wise operation yields on the base arrays (numpy on the symbolic leaves)
        return np_apply(desc['op'], [arr_of(b) for b in desc['bases']])
    shape = tuple(desc['shape'])
    a = np.empty(shape, dtype=object)
    for idx in np.ndindex(*shape):
        a[idx] = leaf(desc['leaves'][','.join(str(i) for i in idx)])
    return a


def valarr_of(desc):
    if desc['kind'] == 'num':
        return desc['value']
    if desc['kind'] == 'scalar':
        return desc['values']['']
    shape = tuple(desc['shape'])
    a = np.empty(shape, dtype=float)
    for idx in np.ndindex(*shape):
        a[idx] = desc['values'][','.join(str(i) for i in idx)]
    return a


def np_apply(form, args):
    """the numpy operation named by the form, on whatever arrays are given (symbolic or numeric); raises if numpy does"""
    if form in NP_BIN:
        x, y = args
        sx, sy = np.shape(x), np.shape(y)
        if sx and sy and sx != sy:
            # the property: element-wise operators take scalars or EQUALLY shaped arrays (no broadcasting)
            raise ValueError('shapes %s and %s differ' % (sx, sy))
        return NP_BIN[form](x, y)
    if form == 'dot':
        return np.dot(args[0], args[1])
    a, b, c = (list(args) + [None, None, None])[:3]
    N = z3.RealVal('2.5') if any(isinstance(v, np.ndarray) and v.dtype == object for v in args) or any(z3.is_expr(v) for v in args) else 2.5
    return {'(a+b)*N': lambda: np_apply('mul', [np_apply('add', [a, b]), N]),
            'N*(a-b)': lambda: np_apply('mul', [N, np_apply('sub', [a, b])]),
            '(a*b)+c': lambda: np_apply('add', [np_apply('mul', [a, b]), c]),
            'a-(b/c)': lambda: np_apply('sub', [a, np_apply('div', [b, c])]),
            '(a+b).dot(c)': lambda: np.dot(np_apply('add', [a, b]), c),
            'a.dot(b)+c': lambda: np_apply('add', [np.dot(a, b), c]),
            'a.dot(b).dot(c)': lambda: np.dot(np.dot(a, b), c),
            'a.dot(b+c)': lambda: np.dot(a, np_apply('add', [b, c])),
            'c+a.dot(b)': lambda: np_apply('add', [c, np.dot(a, b)]), 'c*a.dot(b)': lambda: np_apply('mul', [c, np.dot(a, b)]),
            'a.dot(b)-c': lambda: np_apply('sub', [np.dot(a, b), c]), 'a.dot(b)/c': lambda: np_apply('div', [np.dot(a, b), c])}[form]()


def valid(eq, timeout_ms=5000):
    s = z3.Solver()
    s.set('timeout', timeout_ms)
    s.add(z3.Not(eq))
    r = s.check()
    if r == z3.unsat:
        return 'yes', None
    if r == z3.sat:
        m = s.model()
        return 'no', {str(d)[5:]: str(m[d]) for d in m.decls() if str(d).startswith('leaf:')}
    return 'unknown', s.reason_unknown()


def flat(x):
    if isinstance(x, tuple) and x[0] == 'list':
        out = []
        for e in x[1]:
            out.extend(flat(e))
        return out
    return [x]


def nest_shape(x):
    if isinstance(x, tuple) and x[0] == 'list':
        inner = {tuple(nest_shape(e)) for e in x[1]}
        if len(inner) != 1:
            raise Bad('ragged list')
        return [len(x[1])] + list(inner.pop())
    return []


def same_terms(got, want):
    """two lists of z3 reals are equal entry by entry for all values"""
    if len(got) != len(want):
        return 'no', 'length %d instead of %d' % (len(got), len(want))
    for g, w in zip(got, want):
        if not z3.is_expr(g):
            return 'no', 'non-scalar entry'
        if not z3.eq(z3.simplify(g), z3.simplify(w)):
            v, d = valid(g == w)
            if v != 'yes':
                return v, d
    return 'yes', None


def check_case(rec):
    """-> list of (obligation suffix, status, detail)"""
    form = rec['form']
    out = []
    DEFS.clear()
    for d in rec['operands']:
        DEFS.update(d.get('defs') or {})
    sym = [arr_of(d) for d in rec['operands']]
    is_agg = form in ('sum', 'prod', 'mean', 'median', 'stddev', 'size') or form.startswith('rank')
    if any(d.get('names_variant') for d in rec['operands']):
        # equally shaped NAMED operands whose index names differ (or come in another order): "operands whose ... index names do not
        # match are rejected with an error rather than yielding values"
        if not rec['accepted']:
            return [('rejects-name-mismatch', 'discharged', rec.get('error'))]
        yields = [k for k, (fs, v) in rec['result'].items() if isinstance(v, float)]
        return [('rejects-name-mismatch', 'counterexample' if yields else 'discharged',
                 ('the index names of the operands do not match (%s) but the equation is accepted and element [%s] evaluates to %s'
                  % ([d.get('names_variant') for d in rec['operands']], yields[0], rec['result'][yields[0]][1])) if yields else None)]
    # ---- acceptance --------------------------------------------------------------------------------
    if is_agg:
        spec_ok, spec = True, None
    else:
        try:
            spec = np_apply(form, sym)
            spec_ok = True
        except (ValueError, TypeError) as e:
            spec_ok, spec = False, str(e)
    if not rec['accepted']:
        # refused with an error: always allowed by the property (it speaks about ACCEPTED equations and about mismatches);
        # a refused well-shaped form is counted as unsupported, not as a violation
        out.append(('rejects-mismatch' if not spec_ok else 'unsupported', 'discharged', rec.get('error')))
        return out
    if not spec_ok:
        # accepted although the shapes do not match: a violation iff some element yields a value
        yields = [k for k, (fs, v) in rec['result'].items() if isinstance(v, float)]
        out.append(('accept', 'counterexample' if yields else 'discharged',
                    'shapes do not match (%s) but the equation is accepted and element %s evaluates to %s' % (spec, yields[0] or '-', rec['result'][yields[0]][1]) if yields else None))
        return out
    out.append(('accept', 'discharged', None))
    # ---- aggregates ------------------------------------------------------------------------------------
    res = rec['result']
    if is_agg:
        a = sym[0]
        want = [a[idx] for idx in np.ndindex(*a.shape)]
        if list(res) != ['']:
            return out + [('shape', 'counterexample', 'an aggregate must be a single value, got elements %s' % list(res)[:4])]
        try:
            t = parse_fs(res[''][0])
            if form == 'size':
                st = 'discharged' if z3.is_expr(t) and z3.eq(z3.simplify(t), z3.RealVal(a.shape[0])) else 'counterexample'
                return out + [('value', st, None if st == 'discharged' else 'size is %s, numpy len is %d' % (t, a.shape[0]))]
            if form in ('sum', 'prod'):
                w = want[0]
                for x in want[1:]:
                    w = (w + x) if form == 'sum' else (w * x)
                v, d = valid(t == w) if z3.is_expr(t) else ('no', 'not a scalar expression')
                return out + [('value', {'yes': 'discharged', 'no': 'counterexample'}.get(v, 'undecided'), d)]
            if form in ('mean', 'median', 'stddev'):
                fn = {'mean': 'np.mean', 'median': 'np.median', 'stddev': 'np.std'}[form]
                if not (isinstance(t, tuple) and t[0] == 'agg' and t[1] == fn):
                    return out + [('value', 'counterexample', 'expected %s(array), got %s' % (fn, res[''][0][:80]))]
                if nest_shape(t[2]) != list(a.shape):
                    return out + [('value', 'counterexample', 'array passed to %s has shape %s, operand has %s' % (fn, nest_shape(t[2]), list(a.shape)))]
                v, d = same_terms(flat(t[2]), want)
                return out + [('value', {'yes': 'discharged', 'no': 'counterexample'}.get(v, 'undecided'), d)]
            # rank
            rank = {'rank1': 1, 'rank2': 2, 'rank9': 9, 'rankneg': -1}[form]
            if not (isinstance(t, tuple) and t[0] == 'rank'):
                return out + [('value', 'counterexample', 'expected sorted(array, reverse=True)[k], got %s' % res[''][0][:80])]
            n = len(want)
            want_idx = (n - 1) if (rank < 0 or rank > n) else rank - 1
            v, d = same_terms(flat(t[1]), want)
            if v == 'yes' and t[2] != want_idx:
                v, d = 'no', 'picks position %d of the descending order, rank %d of %d elements is position %d' % (t[2], rank, n, want_idx)
            return out + [('value', {'yes': 'discharged', 'no': 'counterexample'}.get(v, 'undecided'), d)]
        except Bad as e:
            return out + [('value', 'counterexample', 'generated text is not the operation: %s (%s)' % (e, res[''][0][:100]))]
    # ---- element-wise / dot / composite -----------------------------------------------------------------
    spec_shape = list(np.shape(spec))
    got_shape = rec['dims'] or []
    if got_shape != spec_shape:
        out.append(('shape', 'counterexample', 'result has shape %s, numpy gives %s' % (got_shape, spec_shape)))
        return out
    out.append(('shape', 'discharged', None))
    for key, (fs, val) in sorted(res.items()):
        idx = tuple(int(i) for i in key.split(',')) if key else ()
        w = spec[idx] if idx else spec
        try:
            t = parse_fs(fs)
            if not z3.is_expr(t):
                raise Bad('not a scalar expression')
            v, d = ('yes', None) if z3.eq(z3.simplify(t), z3.simplify(w)) else valid(t == w)
        except Bad as e:
            v, d = 'no', 'generated text is not arithmetic over the operands: %s' % e
        except SyntaxError as e:
            v, d = 'no', 'generated text does not parse: %s' % e
        if v != 'yes':
            out.append(('elem[%s]' % key, {'no': 'counterexample'}.get(v, 'undecided'),
                        'element [%s] is  %s  ; numpy entry is  %s ; differing values %s' % (key, fs[17:150], z3.simplify(w), d)))
            return out
    out.append(('elements', 'discharged', None))
    return out


def family(rec):
    f = rec['form']
    special = [k[0] for k in rec['kinds'] if isinstance(k, list) and k and isinstance(k[0], str)]
    if special and special[0] == 'M':
        return 'named-mismatch.%s' % f
    if special:
        grp = 'aggregate' if (f in ('sum', 'prod', 'mean', 'median', 'stddev', 'size') or f.startswith('rank')) else ('dot' if f == 'dot' else 'elementwise')
        return '%s.%s.%s' % ({'D': 'derived-operand', 'R': 'reshaped-operand'}[special[0]], grp, 'rank' if f.startswith('rank') else f)
    if f in NP_BIN:
        kinds = rec['kinds']
        tag = 'array-array' if all(isinstance(k, list) for k in kinds) else 'array-scalar'
        return 'elementwise.%s.%s%s' % (f, tag, '.named' if rec['named'] else '')
    if f == 'dot':
        kinds = rec['kinds']
        def k(x):
            return {1: 'vector', 2: 'matrix'}[len(x)] if isinstance(x, list) else 'scalar'
        return 'dot.%s-%s' % (k(kinds[0]), k(kinds[1]))
    if f in ('sum', 'prod', 'mean', 'median', 'stddev', 'size') or f.startswith('rank'):
        return 'aggregate.%s%s' % ('rank' if f.startswith('rank') else f, '.named' if rec['named'] else '')
    return 'composite.%s' % f


def kind_str(k):
    if isinstance(k, list) and k and isinstance(k[0], str):
        return k[0] + '(' + ','.join(kind_str(x) for x in k[1:]) + ')'
    return 'x'.join(str(i) for i in k) if isinstance(k, list) else str(k)


def case_id(rec):
    return '%s[%s]%s' % (rec['form'], ';'.join(kind_str(k) for k in rec['kinds']), '.named' if rec['named'] else '')


def extract(bound):
    d = tempfile.mkdtemp(prefix='c10_')
    out = os.path.join(d, 'cases.jsonl')
    env = dict(os.environ, PYTHONPATH=REPO + os.pathsep + ROOT, PYTHONWARNINGS='ignore', VERIF_REPO=REPO)
    try:
        p = subprocess.run(['timeout', '900', '/venv/bin/python', '-W', 'ignore', os.path.join(ROOT, 'verif/native/c10_extract.py'), str(bound), out],
                           capture_output=True, text=True, env=env, cwd=ROOT)
        if p.returncode != 0 or not os.path.exists(out):
            raise RuntimeError('extraction failed rc=%s: %s' % (p.returncode, (p.stderr or p.stdout)[-400:]))
        with open(out) as f:
            return [json.loads(l) for l in f if l.strip()]
    finally:
        import shutil
        shutil.rmtree(d, ignore_errors=True)


def _file_digest(rel):
    import hashlib
    try:
        with open(os.path.join(REPO, rel), 'rb') as f:
            return hashlib.sha256(f.read()).hexdigest()[:16]
    except OSError:
        return None


def run(prop, cfg, tier, seed):
    bound = 5 if tier == 'thorough' else 3
    t0 = time.time()
    verdicts = []
    try:
        cases = extract(bound)
    except Exception as e:
        return dict(verdicts=[dict(name='%s/extract' % prop, qualname='extract', status='crash', reason=str(e), kind='bounded')])
    fams = {}
    failing = []
    for rec in cases:
        ts = time.time()
        try:
            obs = check_case(rec)
        except Exception as e:   # engine problem: undecided, never a violation
            obs = [('engine', 'undecided', '%s: %s' % (type(e).__name__, e))]
        fam = fams.setdefault(family(rec), dict(cases=0, obligations=0, bad=[], undec=[], secs=0.0))
        fam['cases'] += 1
        fam['obligations'] += len(obs)
        fam['secs'] += time.time() - ts
        for (sfx, st, detail) in obs:
            if sfx == 'unsupported':
                fam['unsupported'] = fam.get('unsupported', 0) + 1
            if st == 'counterexample':
                fam['bad'].append((case_id(rec), sfx, detail))
                failing.append(dict(case=case_id(rec), form=rec['form'], kinds=rec['kinds'], named=rec['named'], obligation=sfx, detail=detail))
            elif st != 'discharged':
                fam['undec'].append((case_id(rec), sfx, detail))
    for name, f in sorted(fams.items()):
        st = 'discharged' if not f['bad'] and not f['undec'] else ('undecided' if not f['bad'] else 'counterexample')
        verdicts.append(dict(name='%s/%s' % (prop, name), qualname=name, status=st, kind='bounded',
                             bound='all operand shapes up to %d per axis, all element values (z3 reals)' % bound,
                             cases=f['cases'], unsupported=f.get('unsupported', 0), secs=round(f['secs'], 3), solver='z3-%s' % z3.get_version_string(),
                             reason=('%s.%s: %s' % f['bad'][0] if f['bad'] else (f['undec'][0][2] if f['undec'] else None)),
                             model=(dict(failing_cases=sorted({c for c, _, _ in f['bad']})[:20]) if f['bad'] else None)))
    infos = {}
    from verif.pyvc import binder
    for fl in FILES:
        infos['c10:' + fl] = dict(file=fl, line=1, digest=_file_digest(fl),
                                  n=sum(f['obligations'] for f in fams.values()) if fl == FILES[0] else 0)
    with open(os.path.join(ROOT, 'replays', 'C10.failing.json'), 'w') as fh:
        json.dump(failing, fh)
    return dict(verdicts=verdicts, infos=infos,
                trusted=['numpy (np.add/subtract/multiply/divide/dot on object arrays) is the specification of the operations',
                         'CPython ast.parse is the semantics of the generated function strings; np.mean/np.median/np.std/sorted are the library functions they name',
                         'Model.memoize(name, t) of a leaf element returns that element\'s value (C08)'],
                assumptions=['element values are reals (z3); floating-point rounding of the generated expression versus numpy\'s summation order is not modelled',
                             'bounded: operand shapes up to %d per axis (quick 3, thorough 5); %d cases in %.1fs' % (bound, len(cases), time.time() - t0)])
