"""C04 -- transpiled XMILE stock/flow dynamics are explicit Euler (structure part; the run-spec part is in the harness).

Engine (bounded in STRUCTURE, unbounded in values / times / run specs; never counted as proved):
verif/native/c04_extract.py writes every stock/flow structure up to the bound (0..3 inflows x 0..3 outflows, thorough 4;
non-negative / bidirectional / mixed flows; plain and spaced names; a second stock fed by the first outflow) as an XMILE
document and transpiles it with the REAL pipeline (parse_xmile, StockExpressions and the other plugins, py generator,
jinja template).  For every generated equation text the contract below is discharged by z3 over the reals with the memo
M(name, time) an uninterpreted function, i.e. for ALL values of all variables, all t, dt, starttime:

  stock  S :  text(t) == init                                  if t <= starttime
              text(t) == M(S, t-dt) + dt * ( sum_i M(in_i, t-dt) - sum_j M(out_j, t-dt) )   otherwise
  flow   F :  text(t) == max(0, M(a_F, t))  if F is non-negative   else   M(a_F, t)
  every memo reference names an equation of the model (sanitised names agree between definition and use)
"""
import ast
import json
import os
import subprocess
import tempfile
import time

import z3

ROOT = os.path.dirname(os.path.dirname(os.path.abspath(__file__)))
REPO = os.environ.get('VERIF_REPO', '/repo')
FILES = ['BPTK_Py/sdcompiler/plugins/stockExpressions.py', 'BPTK_Py/sdcompiler/generator/py/py.py', 'BPTK_Py/sdcompiler/parsers/xmile/xmile.py',
         'BPTK_Py/sdcompiler/generator/py/jinja_template.py']

M = z3.Function('memo', z3.StringSort(), z3.RealSort(), z3.RealSort())
T, DT, START, STOP = z3.Real('t'), z3.Real('self_dt'), z3.Real('self_starttime'), z3.Real('self_stoptime')


class Bad(Exception):
    pass


def tr(node, names):
    if isinstance(node, ast.Constant) and isinstance(node.value, (int, float)) and not isinstance(node.value, bool):
        return z3.RealVal(repr(node.value))
    if isinstance(node, ast.Name) and node.id == 't':
        return T
    if isinstance(node, ast.Attribute) and ast.unparse(node) in ('self.dt', 'self.starttime', 'self.stoptime'):
        return {'self.dt': DT, 'self.starttime': START, 'self.stoptime': STOP}[ast.unparse(node)]
    if isinstance(node, ast.BinOp):
        a, b = tr(node.left, names), tr(node.right, names)
        if isinstance(node.op, ast.Add):
            return a + b
        if isinstance(node.op, ast.Sub):
            return a - b
        if isinstance(node.op, ast.Mult):
            return a * b
        if isinstance(node.op, ast.Div):
            return a / b
        raise Bad('operator %s' % type(node.op).__name__)
    if isinstance(node, ast.UnaryOp) and isinstance(node.op, ast.USub):
        return -tr(node.operand, names)
    if isinstance(node, ast.IfExp):
        return z3.If(trb(node.test, names), tr(node.body, names), tr(node.orelse, names))
    if isinstance(node, ast.Call):
        f = ast.unparse(node.func)
        if f == 'self.memoize' and len(node.args) == 2 and isinstance(node.args[0], ast.Constant) and isinstance(node.args[0].value, str):
            names.add(node.args[0].value)
            return M(z3.StringVal(node.args[0].value), tr(node.args[1], names))
        if f == 'max':
            args = node.args[0].elts if (len(node.args) == 1 and isinstance(node.args[0], ast.List)) else node.args
            vals = [tr(a, names) for a in args]
            acc = vals[0]
            for v in vals[1:]:
                acc = z3.If(v > acc, v, acc)
            return acc
        raise Bad('call %s' % f)
    raise Bad(type(node).__name__)


def trb(node, names):
    if isinstance(node, ast.Compare) and len(node.ops) == 1:
        a, b = tr(node.left, names), tr(node.comparators[0], names)
        op = type(node.ops[0])
        r = {ast.LtE: a <= b, ast.Lt: a < b, ast.GtE: a >= b, ast.Gt: a > b, ast.Eq: a == b, ast.NotEq: a != b}.get(op)
        if r is None:
            raise Bad('comparison')
        return r
    raise Bad('condition %s' % type(node).__name__)


def valid(eq, timeout_ms=10000):
    s = z3.Solver()
    s.set('timeout', timeout_ms)
    s.add(DT > 0)
    s.add(z3.Not(eq))
    r = s.check()
    if r == z3.unsat:
        return 'yes', None
    if r == z3.sat:
        return 'no', str(s.model())[:300]
    return 'unknown', s.reason_unknown()


def check_case(rec):
    """-> [(suffix, status, detail)]"""
    if not rec.get('ok'):
        # a structure of the supported grammar that does not transpile: the property quantifies over them -> undecided, reported
        return [('transpiles', 'counterexample', 'the structure does not transpile: %s' % rec.get('error'))]
    out = []
    d, san, eqs = rec['desc'], rec['sanitized'], rec['equations']
    S = san[d['stock']]
    used = set()
    def memo(name, at):
        return M(z3.StringVal(san[name]), at)
    # ---- the stock ---------------------------------------------------------------------------------------
    if S not in eqs:
        return [('stock.defined', 'counterexample', 'no equation named %r in the generated model (has %s)' % (S, sorted(eqs)[:6]))]
    try:
        got = tr(ast.parse(eqs[S], mode='eval').body, used)
        prev = T - DT
        net = z3.RealVal(0)
        for i in d['inflows']:
            net = net + memo(i, prev)
        for o in d['outflows']:
            net = net - memo(o, prev)
        want = z3.If(T <= START, z3.RealVal(d['init']), memo(d['stock'], prev) + DT * net)
        v, det = valid(got == want)
        out.append(('stock.euler-step', {'yes': 'discharged', 'no': 'counterexample'}.get(v, 'undecided'),
                    None if v == 'yes' else 'generated: %s ; differs from init/Euler step with %d inflows, %d outflows: %s' % (eqs[S][:200], len(d['inflows']), len(d['outflows']), det)))
    except (Bad, SyntaxError) as e:
        out.append(('stock.euler-step', 'counterexample', 'generated text is not an Euler step: %s (%s)' % (e, eqs[S][:160])))
    # ---- the second stock (fed by the first outflow) -----------------------------------------------------
    if d.get('second'):
        S2 = san[d['second']]
        try:
            got = tr(ast.parse(eqs[S2], mode='eval').body, used)
            want = z3.If(T <= START, z3.RealVal(0), memo(d['second'], T - DT) + DT * memo(d['outflows'][0], T - DT))
            v, det = valid(got == want)
            out.append(('second-stock.euler-step', {'yes': 'discharged', 'no': 'counterexample'}.get(v, 'undecided'), None if v == 'yes' else '%s: %s' % (eqs.get(S2, '')[:160], det)))
        except (Bad, SyntaxError, KeyError) as e:
            out.append(('second-stock.euler-step', 'counterexample', 'not an Euler step: %s' % e))
    # ---- the flows ---------------------------------------------------------------------------------------
    for fname, fl in d['flows'].items():
        F = san[fname]
        try:
            got = tr(ast.parse(eqs[F], mode='eval').body, used)
            raw = memo(fl['reads'], T)
            want = z3.If(raw > 0, raw, z3.RealVal(0)) if fl['non_negative'] else raw
            v, det = valid(got == want)
            out.append(('flow.%s' % ('non-negative' if fl['non_negative'] else 'biflow'), {'yes': 'discharged', 'no': 'counterexample'}.get(v, 'undecided'),
                        None if v == 'yes' else 'flow %s generated as %s: %s' % (fname, eqs.get(F, '')[:120], det)))
        except (Bad, SyntaxError, KeyError) as e:
            out.append(('flow', 'counterexample', 'flow %s: %s' % (fname, e)))
    # ---- name agreement ---------------------------------------------------------------------------------------
    missing = sorted(n for n in used if n not in eqs)
    out.append(('names', 'discharged' if not missing else 'counterexample', None if not missing else 'memo references without an equation: %s' % missing))
    return out


def extract(bound):
    d = tempfile.mkdtemp(prefix='c04_')
    out = os.path.join(d, 'cases.jsonl')
    env = dict(os.environ, PYTHONPATH=REPO + os.pathsep + ROOT, PYTHONWARNINGS='ignore', VERIF_REPO=REPO)
    try:
        p = subprocess.run(['timeout', '900', '/venv/bin/python', '-W', 'ignore', os.path.join(ROOT, 'verif/native/c04_extract.py'), str(bound), out],
                           capture_output=True, text=True, env=env, cwd=ROOT)
        if p.returncode != 0 or not os.path.exists(out):
            raise RuntimeError('extraction failed rc=%s: %s' % (p.returncode, (p.stderr or p.stdout)[-400:]))
        with open(out) as f:
            return [json.loads(l) for l in f if l.strip()]
    finally:
        import shutil
        shutil.rmtree(d, ignore_errors=True)


def _file_digest(rel):
    import hashlib
    try:
        with open(os.path.join(REPO, rel), 'rb') as f:
            return hashlib.sha256(f.read()).hexdigest()[:16]
    except OSError:
        return None


def run(prop, cfg, tier, seed):
    bound = 4 if tier == 'thorough' else 3
    t0 = time.time()
    try:
        cases = extract(bound)
    except Exception as e:
        return dict(verdicts=[dict(name='%s/extract' % prop, qualname='extract', status='crash', reason=str(e), kind='bounded')])
    fams = {}
    failing = []
    for rec in cases:
        ts = time.time()
        try:
            obs = check_case(rec)
        except Exception as e:
            obs = [('engine', 'undecided', '%s: %s' % (type(e).__name__, e))]
        cid = 'in%d.out%d.%s.%s%s' % (rec['n_in'], rec['n_out'], rec['nonneg'], rec['names'], '.chain' if rec['second'] else '')
        for (sfx, st, detail) in obs:
            fam = fams.setdefault(sfx, dict(cases=0, bad=[], undec=[], secs=0.0))
            fam['cases'] += 1
            if st == 'counterexample':
                fam['bad'].append((cid, detail))
                failing.append(dict(case=cid, n_in=rec['n_in'], n_out=rec['n_out'], nonneg=rec['nonneg'], names=rec['names'], second=rec['second'], obligation=sfx, detail=detail))
            elif st != 'discharged':
                fam['undec'].append((cid, detail))
        fams[obs[0][0]]['secs'] += time.time() - ts
    verdicts = []
    for name, f in sorted(fams.items()):
        st = 'discharged' if not f['bad'] and not f['undec'] else ('undecided' if not f['bad'] else 'counterexample')
        verdicts.append(dict(name='%s/structure.%s' % (prop, name), qualname='structure.' + name, status=st, kind='bounded',
                             bound='all stock/flow structures with up to %d inflows and %d outflows; all values, times and run specs (z3 reals)' % (bound, bound),
                             cases=f['cases'], secs=round(f['secs'], 3), solver='z3-%s' % z3.get_version_string(),
                             reason=('%s: %s' % f['bad'][0] if f['bad'] else (f['undec'][0][1] if f['undec'] else None)),
                             model=(dict(failing_cases=sorted({c for c, _ in f['bad']})[:20]) if f['bad'] else None)))
    os.makedirs(os.path.join(ROOT, 'replays'), exist_ok=True)
    with open(os.path.join(ROOT, 'replays', 'C04.failing.json'), 'w') as fh:
        json.dump(failing, fh)
    infos = {'c04:' + fl: dict(file=fl, line=1, digest=_file_digest(fl), n=(sum(f['cases'] for f in fams.values()) if fl == FILES[0] else 0)) for fl in FILES}
    return dict(verdicts=verdicts, infos=infos,
                trusted=['CPython ast.parse is the semantics of the generated equation texts', 'xmltodict / parsimonious / jinja2 (executed, not modelled)',
                         'the generated memoize returns the value of the named equation at the given time (run-spec behaviour searched natively)'],
                assumptions=['floats are reals in the per-structure obligations (the floating-point grid behaviour is what the native run-spec enumeration checks)',
                             'bounded: structures up to %d inflows x %d outflows (quick 3, thorough 4); %d documents transpiled in %.1fs' % (bound, bound, len(cases), time.time() - t0)])
