"""Class table, spec functions and the registry invariant shared by C11-C14 (agent-based modelling).

Field types are the `is_valid()` typing precondition of every contract that mentions them (DESIGN 2.2.2).
"""
import z3
from verif.pyvc.spec import *  # noqa

And, Or, Not, Implies, If = z3.And, z3.Or, z3.Not, z3.Implies, z3.If
I, R = z3.IntSort(), z3.RealSort()

# --- records ---------------------------------------------------------------------------------------
PROP = TRec('agent_property', {'type': STR, 'value': REAL})
"""an agent property {"type": <str>, "value": <number>}; non-numeric values are irrelevant to the
contracts that read 'value' (they only read it when type is Integer/Double)."""

AGENT_SPEC = TRec('agent_spec', {'name': STR, 'count': INT, 'properties': TOpaque('propspec')})

# trace records for C12 (ghost)
TraceEv = z3.Datatype('TraceEv')
TraceEv.declare('begin', ('b_t', R), ('b_r', I), ('b_s', I))
TraceEv.declare('handle', ('h_a', RefS), ('h_t', R))
TraceEv.declare('act', ('a_a', RefS), ('a_t', R))
TraceEv.declare('end', ('e_t', R), ('e_r', I), ('e_s', I))
TraceEv.declare('collect', ('c_t', R))
TraceEv.declare('handled', ('d_e', RefS), ('d_a', RefS))
TraceEv = TraceEv.create()


class TData(Ty):
    def __init__(self, nm, sort):
        self.name = 'data:' + nm
        self._s = sort

    def sort(self):
        return self._s


TRACE_EV = TData('TraceEv', TraceEv)

# --- classes ---------------------------------------------------------------------------------------
declare_class('object')
declare_class('Event', ['object'], name=STR, sender_id=INT, receiver_id=INT)
declare_class('DelayedEvent', ['Event'], delay=REAL)
HANDLER = TFun('handler', contract='fun:event_handler')
declare_class('Agent', ['object'], id=INT, state=STR, agent_type=STR, events=TList(TRef('Event')),
              properties=TDict(STR, PROP), eventHandlers=TDict(STR, TDict(STR, HANDLER)), model=TRef('Model'))
STATS_PROP = TRec('prop_stats', {'total': REAL, 'max': TOpt(REAL), 'min': TOpt(REAL), 'mean': REAL})
STATS_STATE = TRec('state_stats', {'count': INT}, rest=TDict(STR, STATS_PROP))
AGENT_STATS = TDict(REAL, TDict(STR, TDict(STR, STATS_STATE)))
declare_class('DataCollector', ['object'], agent_statistics=AGENT_STATS,
              event_statistics=TDict(REAL, TDict(STR, INT)))
declare_class('Scheduler', ['object'], current_time=REAL, current_round=INT, current_step=INT, progress=REAL,
              delayed_events=TList(TRef('Event')), running=BOOL)
declare_class('SimultaneousScheduler', ['Scheduler'])
FACTORY = TFun('agent_factory', contract='fun:agent_factory')
declare_class('Model', ['object'], agents=TList(TRef('Agent')), next_agent_id=INT,
              agent_type_map=TDict(STR, TList(INT)), agent_factories=TDict(STR, FACTORY),
              events=TList(TRef('Event')), data_collector=TRef('DataCollector'), scheduler=TRef('Scheduler'),
              starttime=INT, stoptime=INT, dt=REAL, name=STR,
              memo=TDict(STR, TDict(REAL, REAL)))

ARR_REF = z3.ArraySort(I, RefS)
H_STR = z3.ArraySort(RefS, StrS)
H_INT = z3.ArraySort(RefS, I)

# --- spec functions (recurrences over the agent list) --------------------------------------------------
# flen(at, ty, T, k): number of agents of type T among the first k
flen = RecFun('flen', [ARR_REF, H_STR, StrS], I,
              base=lambda at, ty, T: z3.IntVal(0),
              step=lambda at, ty, T, k, prev: prev + If(ty[at[k]] == T, 1, 0),
              lemmas=[lambda ps, k, f: And(f(*ps, k) >= 0, Implies(k >= 0, f(*ps, k) <= k))])
# fat(at, ty, idf, T, j, k): j-th id of the agents of type T among the first k
fat = RecFun('fat', [ARR_REF, H_STR, H_INT, StrS, I], I,
             base=lambda at, ty, idf, T, j: z3.IntVal(0),
             step=lambda at, ty, idf, T, j, k, prev: If(And(ty[at[k]] == T, j == flen(at, ty, T, k)), idf[at[k]], prev))
# cnt_ts(at, ty, stt, T, S, k): number of agents of type T in state S among the first k
cnt_ts = RecFun('cnt_ts', [ARR_REF, H_STR, H_STR, StrS, StrS], I,
                base=lambda at, ty, stt, T, S: z3.IntVal(0),
                step=lambda at, ty, stt, T, S, k, prev: prev + If(And(ty[at[k]] == T, stt[at[k]] == S), 1, 0),
                lemmas=[lambda ps, k, f: f(*ps, k) >= 0,
                        # at most as many agents of type T in state S as agents of type T
                        lambda ps, k, f: f(*ps, k) <= flen(ps[0], ps[1], ps[3], k)])


def AT(lv):
    return l_at(lv.t, lv.z)


def H(view_or_ctx, cls, f):
    st = view_or_ctx.st
    return st.heap_arr_cf(cls, f)


def ids_of_type(m, T, upto=None):
    """(len, elem(j)) of the list [a.id for a in m.agents[:upto] if a.agent_type == T]"""
    ags = m.agents
    n = ags.len if upto is None else upto
    ty, idf = H(m, 'Agent', 'agent_type'), H(m, 'Agent', 'id')
    T = zof(T)
    return flen(AT(ags), ty, T, n), (lambda j: fat(AT(ags), ty, idf, T, zof(j), n))


def list_is(lv, ln, elem):
    """ListView lv equals the list given by (ln, elem)"""
    return And(lv.len == ln, FA('idx', lambda j: Implies(And(0 <= j, j < lv.len), lv.raw(j) == elem(j))))


def wf_registry(m):
    """representation invariant of the agent registry (DESIGN C14)"""
    ags = m.agents
    tm = m.agent_type_map
    return And(
        # live agents are real objects with ids below the counter
        FA('idx', lambda i: Implies(And(0 <= i, i < ags.len),
                                    And(ags[i] != NULL, ags[i].id < m.next_agent_id, ags[i].id >= 0))),
        # ids strictly increase along the list: unique, creation order
        FA('idx', 'idx', lambda i, j: Implies(And(0 <= i, i < j, j < ags.len), ags[i].id < ags[j].id)),
        # every registered type maps to exactly the ids of the live agents of that type, in order
        FA('str', lambda T: Implies(tm.has(T), list_is(tm[T], *ids_of_type(m, T)))),
        # every live agent's type is registered
        FA('idx', lambda i: Implies(And(0 <= i, i < ags.len), tm.has(ags[i].agent_type))),
        # factories and type map have the same keys
        FA('str', lambda T: tm.has(T) == m.agent_factories.has(T)),
        # per-type lists are distinct objects (no aliasing between types)
        FA('str', 'str', lambda T, U: Implies(And(tm.has(T), tm.has(U), T != U), tm[T].oid != tm[U].oid)),
        m.next_agent_id >= 0,
    )


def same_agents(m1, m0):
    """the agent list (as a sequence of references) is unchanged"""
    return m1.agents.eq(m0.agents)

# --- filters used by delete_agents ----------------------------------------------------------------------
SETI = z3.ArraySort(I, z3.BoolSort())
# klen(at, idf, S, k): number of agents among the first k whose id is NOT in S
klen = RecFun('klen', [ARR_REF, H_INT, SETI], I,
              base=lambda at, idf, S: z3.IntVal(0),
              step=lambda at, idf, S, k, prev: prev + If(S[idf[at[k]]], 0, 1),
              lemmas=[lambda ps, k, f: And(f(*ps, k) >= 0, Implies(k >= 0, f(*ps, k) <= k))])
# kat(at, idf, S, j, k): the j-th such agent
kat = RecFun('kat', [ARR_REF, H_INT, SETI, I], RefS,
             base=lambda at, idf, S, j: NULL,
             step=lambda at, idf, S, j, k, prev: If(And(Not(S[idf[at[k]]]), j == klen(at, idf, S, k)), at[k], prev),
             lemmas=[lambda ps, k, f: Implies(And(0 <= ps[3], ps[3] < klen(ps[0], ps[1], ps[2], k)),
                                              Not(ps[2][ps[1][f(*ps, k)]]))])
# ndel(at, ty, idf, S, T, k): number of agents of type T among the first k whose id IS in S
ndel = RecFun('ndel', [ARR_REF, H_STR, H_INT, SETI, StrS], I,
              base=lambda at, ty, idf, S, T: z3.IntVal(0),
              step=lambda at, ty, idf, S, T, k, prev: prev + If(And(S[idf[at[k]]], ty[at[k]] == T), 1, 0),
              lemmas=[lambda ps, k, f: f(*ps, k) >= 0])
