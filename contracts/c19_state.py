"""C19 / C20 -- externalised instance state: field-wise contracts on state capture / restore and on the adapters
(bptkServer.py InstanceManager._get_instance_state / reconstruct_instance, bptk._set_state, externalStateAdapter.py).
The compression format itself (util/statecompression.py) is only reached by the BOUNDED engine c19_roundtrip."""
from .server_classes import *  # noqa
from .c17_timeouts import wf_im
from . import c15_c18_server as srv

F_AD = 'BPTK_Py/externalstateadapter/externalStateAdapter.py'
IS = TRef('InstanceState')
AD = TRef('Adapter')
CLASSES['Adapter'].fields.update(path=STR)
CLASSES['InstanceState'].fields.update(step=TOpt(REAL))
LOG = TOpaque('log')

# the compression functions as uninterpreted functions of the log (their inverse property is the bounded obligation)
CS = z3.Function('compress_settings', LOG.sort(), LOG.sort())
CR = z3.Function('compress_results', LOG.sort(), LOG.sort())
DS = z3.Function('decompress_settings', LOG.sort(), LOG.sort())
DR = z3.Function('decompress_results', LOG.sort(), LOG.sort())
for nm, f in (('compress_settings', CS), ('compress_results', CR), ('decompress_settings', DS), ('decompress_results', DR)):
    contract('statecompression.' + nm, trusted=True, props=['C19', 'C20'],
             note='util/statecompression.py: a function of the log (bounded round-trip obligations in c19_roundtrip); may raise on logs outside its format',
             params=dict(log=LOG), returns=LOG, ensures=lambda C, f=f: C.result == f(C.log), raises={'Exception': lambda C: True})

contract('copy.deepcopy', trusted=True, props=['C19'], params=dict(x=TOpt(SESSION)), returns=TOpt(SESSION), allocates=True,
         note='copy.deepcopy of the session dict: an equal value that shares nothing with the original',
         ensures=lambda C: C.result.z == C.x.z)

# ---- capture ------------------------------------------------------------------------------------------------

def capture_post(C):
    t0 = C.old.self._instances
    u = C.instance_uuid
    rec = t0[u]
    ss = rec['instance'].session_state
    r = C.result
    return And(r != NULL, C.fresh(r), r.instance_id == u, r.time == rec['time'], r.timeout.z == rec['timeout'].z,
               Implies(ss.is_none, And(r.state.is_none, r.step.is_none)),
               # the snapshot carries the whole session dictionary (clock, both logs, everything else), with the lock cleared
               Implies(Not(ss.is_none), And(Not(r.state.is_none), r.state.v.has('lock'), Not(r.state.v['lock']),
                                            r.state.v['step'] == ss.v['step'], r.state.v.has('step') == ss.v.has('step'),
                                            r.state.v['settings_log'] == ss.v['settings_log'], r.state.v['results_log'] == ss.v['results_log'],
                                            r.state.v['stoptime'] == ss.v['stoptime'], r.state.v['starttime'] == ss.v['starttime'],
                                            r.state.v['dt'] == ss.v['dt'], r.state.v.rest.z == ss.v.rest.z,
                                            Not(r.step.is_none), r.step.v == ss.v['step'])),
               # capturing does not change the live session
               C.unchanged('bptk.session_state'), C.self._instances.z == t0.z)


contract('InstanceState.__init__', trusted=True, props=['C19', 'C20'], note='dataclass constructor: stores its five arguments',
         params=dict(self=IS, state=TOpt(SESSION), instance_id=STR, time=DATETIME, timeout=TIMEOUT, step=TOpt(REAL)),
         modifies=['InstanceState.state', 'InstanceState.instance_id', 'InstanceState.time', 'InstanceState.timeout', 'InstanceState.step'],
         ensures=lambda C: And(C.self.state.z == C.state.z, C.self.instance_id == C.instance_id, C.self.time == C.time,
                               C.self.timeout.z == C.timeout.z, C.self.step.z == C.step.z,
                               srv.fresh_frame(C, ['InstanceState.state', 'InstanceState.instance_id', 'InstanceState.time', 'InstanceState.timeout', 'InstanceState.step'])))

contract('InstanceManager._get_instance_state', file=F_SRV, props=['C19', 'C20'], params=dict(self=IM, instance_uuid=STR), returns=IS,
         allocates=True,
         requires=lambda C: And(wf_im(C.self), C.self._instances.has(C.instance_uuid),
                                Implies(Not(C.self._instances[C.instance_uuid]['instance'].session_state.is_none),
                                        C.self._instances[C.instance_uuid]['instance'].session_state.v.has('step'))),
         ensures=capture_post,
         modifies=['InstanceState.state', 'InstanceState.instance_id', 'InstanceState.time', 'InstanceState.timeout', 'InstanceState.step'])
CONTRACTS['InstanceManager._get_instance_state'].locals = dict(session_state=TOpt(SESSION))

# ---- restore ------------------------------------------------------------------------------------------------
contract('bptk._set_state', file=F_BPTK, props=['C19', 'C20'], params=dict(self=B, state=TOpt(SESSION)),
         ensures=lambda C: And(
             C.self.session_state.is_none == C.state.is_none,
             # the restored session IS the given dictionary; only a missing lock flag is defaulted
             Implies(Not(C.state.is_none), And(C.self.session_state.v.has('lock'),
                                               C.self.session_state.v['lock'] == If(C.state.v.has('lock'), C.state.v['lock'], False),
                                               C.self.session_state.v['step'] == C.state.v['step'],
                                               C.self.session_state.v['settings_log'] == C.state.v['settings_log'],
                                               C.self.session_state.v['results_log'] == C.state.v['results_log'],
                                               C.self.session_state.v['stoptime'] == C.state.v['stoptime'],
                                               C.self.session_state.v['starttime'] == C.state.v['starttime'],
                                               C.self.session_state.v['dt'] == C.state.v['dt'],
                                               C.self.session_state.v.rest.z == C.state.v.rest.z)),
             FA('ref', lambda r: Implies(r != C.self.z, C.st.heap_arr_cf('bptk', 'session_state')[r] == C.old_st.heap_arr_cf('bptk', 'session_state')[r]))),
         modifies=['bptk.session_state'])


def reconstruct_post(C):
    t1, t0 = C.self._instances, C.old.self._instances
    u = C.instance_uuid
    return And(wf_im(C.self), t1.has(u), C.fresh(t1[u]['instance']), t1[u]['time'] == C.time, t1[u]['timeout'].z == C.timeout.z,
               t1[u]['instance'].session_state.is_none == C.session_state.is_none,
               Implies(Not(C.session_state.is_none),
                       And(t1[u]['instance'].session_state.v['step'] == C.session_state.v['step'],
                           t1[u]['instance'].session_state.v['settings_log'] == C.session_state.v['settings_log'],
                           t1[u]['instance'].session_state.v['results_log'] == C.session_state.v['results_log'],
                           t1[u]['instance'].session_state.v.rest.z == C.session_state.v.rest.z)),
               # every other instance is untouched
               FA('str', lambda k: Implies(k != u, And(t1.has(k) == t0.has(k), t1.raw(k) == t0.raw(k)))),
               FA('ref', lambda r: Implies(z3.Select(C.old_st.alloc, r),
                                           C.st.heap_arr_cf('bptk', 'session_state')[r] == C.old_st.heap_arr_cf('bptk', 'session_state')[r])))


contract('InstanceManager.reconstruct_instance', file=F_SRV, props=['C19', 'C20', 'C16'], allocates=True,
         params=dict(self=IM, instance_uuid=STR, timeout=TIMEOUT, time=DATETIME, session_state=TOpt(SESSION)),
         locals=dict(instance_data=INSTREC), requires=lambda C: wf_im(C.self), ensures=reconstruct_post,
         modifies=['InstanceManager._instances', 'bptk.session_state'])

# ---- adapters -------------------------------------------------------------------------------------------------


def _count_save(C, st):
    st.ghost['saves'] = SV(INT, st.ghost['saves'].z + 1)
    st.ghost['saved_obj'] = SV(IS, C.state.z)


contract('Adapter._save_instance', trusted=True, props=['C19', 'C20', 'C16'], params=dict(self=AD, state=IS), ghost=GH_SAVE,
         note='storage back end (file / database): may raise; every call is recorded in the ghost log ($saves, $saved_obj)',
         raises={'Exception': lambda C: True}, ghost_mods=['$saves', '$saved_obj'], ghost_update=_count_save)
contract('Adapter._load_instance', trusted=True, props=['C19', 'C20'], params=dict(self=AD, instance_uuid=STR), returns=IS, allocates=True,
         note='storage back end: an InstanceState or None; what it returns for an id is the state stored under that id',
         ensures=lambda C: Implies(C.result != NULL, C.result.instance_id == C.instance_uuid))
contract('Adapter._save_state', trusted=True, props=['C19'], params=dict(self=AD, state=TList(IS)), raises={'Exception': lambda C: True})
contract('Adapter._load_state', trusted=True, props=['C19', 'C20'], params=dict(self=AD), returns=TList(IS), allocates=True)


def logs_of(st_view):
    return st_view.state.v['settings_log'], st_view.state.v['results_log']


def save_instance_post(C):
    s = C.state
    s0 = C.old_view(s) if hasattr(C, 'old_view') else None
    live = And(s != NULL, Not(C.old_view(s).state.is_none))
    return And(
        # EVERY call hands exactly this state object to the storage back end, once -- whatever was saved before, for
        # this or any other instance (C16: no cross-talk through the adapter; C20: the file is rewritten after every request)
        C.g('saves') == C.old.g('saves') + 1, C.g('saved_obj').z == s.z,
        # with compression, and only then, both logs are replaced by their compressed form; nothing else changes
        Implies(And(C.old.self.compress, live), And(s.state.v['settings_log'] == CS(C.old_view(s).state.v['settings_log']),
                                                     s.state.v['results_log'] == CR(C.old_view(s).state.v['results_log']),
                                                     s.state.v['step'] == C.old_view(s).state.v['step'], s.state.v.rest.z == C.old_view(s).state.v.rest.z)),
        Implies(Not(And(C.old.self.compress, live)), C.unchanged('InstanceState.state')))


def _old_view(self, v):
    from verif.pyvc.spec import RefView
    return RefView(self.old_st, v.t, v.z, self.side)


Ctx.old_view = _old_view

contract('Adapter.save_instance', file=F_AD, src_name='ExternalStateAdapter.save_instance', props=['C19', 'C20', 'C16'], params=dict(self=AD, state=IS),
         ghost=GH_SAVE, ghost_mods=['$saves', '$saved_obj'], ensures=save_instance_post, raises={'Exception': lambda C: True}, modifies=['InstanceState.state'])


def load_instance_post(C):
    r = C.result
    return Implies(r != NULL, r.instance_id == C.instance_uuid)


contract('Adapter.load_instance', file=F_AD, src_name='ExternalStateAdapter.load_instance', props=['C19', 'C20'],
         params=dict(self=AD, instance_uuid=STR), returns=IS, allocates=True, ensures=load_instance_post,
         raises={'Exception': lambda C: And(C.self.compress)}, modifies=['InstanceState.state'])

# ---- C20: a damaged state file costs at most that one instance ------------------------------------------------------
contract('open', trusted=True, props=['C20'], params=dict(path=ANY, mode=STR), returns=TRef('File'), allocates=True,
         note='builtin open(): may raise OSError', raises={'OSError': lambda C: True}, ensures=lambda C: C.result != NULL)
declare_class('File', ['object'])
contract('File.read', trusted=True, props=['C20'], params=dict(self=TRef('File')), returns=STR, raises={'OSError': lambda C: True})
contract('os.path.join', trusted=True, props=['C20'], params=dict(a=ANY, b=ANY), returns=ANY)
PICKLED = TRec('pickled', {'data': TRec('pickled_data', {'state': STR, 'instance_id': STR, 'timeout': TIMEOUT, 'step': TOpt(REAL), 'time': STR})})
contract('jsonpickle.loads', trusted=True, props=['C20'], params=dict(text=ANY), returns=ANY,
         note='jsonpickle.loads of arbitrary (possibly torn) text: any value or any exception', raises={'Exception': lambda C: True})

contract('FileAdapter._load_instance', file=F_AD, props=['C20'], params=dict(self=AD, instance_uuid=STR), returns=IS, allocates=True,
         # TOTAL: whatever the file holds (absent, old, new, torn), an InstanceState or None is returned; nothing is raised
         ensures=lambda C: z3.BoolVal(True),
         modifies=['InstanceState.state', 'InstanceState.instance_id', 'InstanceState.time', 'InstanceState.timeout', 'InstanceState.step', '$now'],
         ghost=GHOST_SRV)

c = contract('BptkServer._load_state_resource', file=F_SRV, props=['C20'], ghost=srv.GH, allocates=True,
             params=dict(self=SRV), returns=TRef('Response'),
             requires=lambda C: And(C.self._instance_manager != NULL, wf_im(C.self._instance_manager)),
             # a list that contains None entries (unreadable files) is tolerated: nothing is raised by the loop itself
             ensures=lambda C: z3.BoolVal(True),
             raises={'Exception': lambda C: Not(C.self._external_state_adapter.is_null)},
             loops={0: lambda C: wf_im(C.self._instance_manager)},
             modifies=srv.RESP_FIELDS + ['InstanceManager._instances', 'bptk.session_state', 'InstanceState.state'])
c.globals = srv.SRV_GLOBALS
contract('Adapter.load_state', file=F_AD, src_name='ExternalStateAdapter.load_state', props=['C19', 'C20'], params=dict(self=AD), returns=TList(IS),
         allocates=True, loops={0: lambda C: z3.BoolVal(True)}, raises={'Exception': lambda C: C.self.compress},
         modifies=['InstanceState.state'])
