"""C01 -- SD DSL simulation equals the explicit-Euler solution: generator contracts (K2) for every element kind and the
built-in time functions.  Spec expressions are written from the property statement:

  stock      lambda model,t: INIT@t if t <= model.starttime else model.memoize(NAME, t-model.dt) + model.dt*(EQ@model.previous_time(t))
  flow       lambda model,t: max(0, EQ@t)
  converter  lambda model,t: EQ@t                        biflow likewise
  constant   lambda model,t: c
  step       HEIGHT if TIME > START else 0               pulse   VOLUME/model.dt at the pulse times (model.dt = CURRENT dt)
  delay      INPUT@(TIME-D) if TIME-D >= model.starttime else INITIAL (or INPUT@model.starttime)
  lookup     model._lookup(X@TIME, points)               dt/starttime/stoptime: the model's CURRENT run spec
The meta-lemma (DESIGN C01) turns these per-generator posts + the memo contract into Element.__call__(t) == V(e,t)."""
import ast
import os
import time as _time

from verif.pyvc import binder
from verif.tmplvc.interp import Interp, Sym, Tmpl, TIME, Hole, TimeVar, ModelStub, Obj, Unsupported, Raised, load
from verif.tmplvc import shapes as S
from .c02_grouping import render, ident, guarantee, KINDS, TIME_SHAPES, SPEC as OPSPEC, run as run_c02

OPS = 'BPTK_Py/sddsl/operators.py'
MS = 'model.starttime'


def _mk(I, cls, **fields):
    o = Obj(cls)
    o.fields.update(fields)
    return o


def element_cases(I):
    """(name, builder) pairs; builder -> (template, spec text)"""
    out = []
    for k in ('Element', 'Operator'):
        def stock(k=k, init='num'):
            eq = Sym(k, 'EQ')
            o = _mk(I, 'Stock', name='S', _equation=eq, model=ModelStub())
            o.fields['__initial_value'] = Sym(init, 'INIT')
            I.call_method(o, 'build_function_string', [])
            # the equation is read at the PREVIOUS GRID TIME model.previous_time(t) = normalize(t - dt) (the raw float t - dt is
            # off the grid for decimal dt: 0.3 - 0.1 < 0.2; the memo key of the stock itself is normalised inside memoize)
            want = "lambda model, t: INIT__%s if t <= model.starttime else model.memoize('S', t - model.dt) + model.dt * EQ__xmodel_previous_time_t_" % ('num' if init in ('num', 'negnum') else 't')
            return o.fields['_function_string'], want
        out.append(('Stock.build_function_string[eq=%s,init=num]' % k, stock))
        out.append(('Stock.build_function_string[eq=%s,init=negnum]' % k, lambda k=k: stock(k, 'negnum')))
        out.append(('Stock.build_function_string[eq=%s,init=Element]' % k, lambda k=k: stock(k, 'Element')))

        def flow(k=k):
            o = _mk(I, 'Flow', name='F', _equation=Sym(k, 'EQ'), model=ModelStub())
            I.call_method(o, 'build_function_string', [])
            return o.fields['_function_string'], 'lambda model, t: max(0, EQ__t)'
        out.append(('Flow.build_function_string[eq=%s]' % k, flow))
    return out


FUNCS = {
    # class: (args builder, spec)     operands: E=(Element|Operator), N = number
    'Lookup': (lambda k: [Sym(k, 'E1'), 'pts'], "model._lookup(E1__TIME, 'pts')"),
    'DT': (lambda k: [ModelStub()], 'model.dt'),
    'Starttime': (lambda k: [ModelStub()], 'model.starttime'),
    'Stoptime': (lambda k: [ModelStub()], 'model.stoptime'),
}


def run(prop, cfg, tier, seed):
    verdicts, functions = [], []
    ops_tree = load(os.path.join(binder.REPO, OPS))
    trees = {}
    for f in ('element', 'stock', 'flow', 'biflow', 'converter', 'constant'):
        try:
            trees[f] = load(os.path.join(binder.REPO, 'BPTK_Py/sddsl/%s.py' % f))
        except (OSError, SyntaxError):
            pass
    I = Interp(ops_tree, extra_trees=list(trees.values()))

    def check(name, fn, line=None):
        ts = _time.time()
        base = '%s/%s' % (prop, name)
        try:
            tm, want = fn()
            text = render(tm) if isinstance(tm, Tmpl) else str(tm)
            st, detail = S.equivalent(text, want)
        except Raised as e:
            st, detail, text, want = 'unknown', 'generator raised %s' % e.cls, '', ''
        except Unsupported as e:
            st, detail, text, want = 'unknown', 'unbound: %s' % e, '', ''
        except KeyError as e:
            st, detail, text, want = 'unknown', 'unbound: missing %s' % e, '', ''
        v = dict(name=base + '.denotes', qualname=name.split('[')[0], solver='cpython-ast + z3', secs=round(_time.time() - ts, 4),
                 path=['emitted: ' + text, 'spec: ' + want], line=line)
        if st == 'equal':
            v['status'] = 'discharged'
        elif st == 'different':
            v['status'] = 'counterexample'
            v['model'] = dict(kind='denotes', name=name, emitted=text, spec=want, valuation=detail)
        elif st == 'syntax':
            v['status'] = 'counterexample'
            v['model'] = dict(kind='syntax', name=name, emitted=text, spec=want, valuation=str(detail))
        else:
            v['status'] = 'undecided'
            v['reason'] = str(detail)
        verdicts.append(v)
        return tm if st != 'unknown' else None

    for name, fn in element_cases(I):
        cls = name.split('.')[0]
        cd = I.classes.get(cls)
        check('%s.py::%s' % (cls.lower(), name), fn, cd.lineno if cd else None)
    T = Tmpl([TIME])
    for cls, (mk, spec) in FUNCS.items():
        for k in (('Element', 'Operator') if cls == 'Lookup' else (None,)):
            def f(cls=cls, mk=mk, spec=spec, k=k):
                o = I.construct(cls, mk(k))
                return I.call_method(o, 'term', [T]), spec
            check('operators.py::%s%s.term' % (cls, '[%s]' % k if k else ''), f, I.classes[cls].lineno if cls in I.classes else None)
    # pulse: single and repeated; the dt in the text must be the model's current dt
    for k in ('Element', 'Operator', 'num'):
        def p1(k=k):
            z = Sym('num', 'I')
            z.value = 0.0
            o = I.construct('Pulse', [ModelStub(), Sym(k, 'V'), Sym('num', 'F'), z])
            tag = 'TIME' if k in ('Element', 'Operator') else 'num'
            return I.call_method(o, 'term', [T]), '((V__%s / model.dt) if TIME == F__num else 0.0)' % tag
        check('operators.py::Pulse[volume=%s,once].term' % k, p1)

        def p2(k=k):
            o = I.construct('Pulse', [ModelStub(), Sym(k, 'V'), Sym('num', 'F'), Sym('num', 'I')])
            tag = 'TIME' if k in ('Element', 'Operator') else 'num'
            return I.call_method(o, 'term', [T]), '((V__%s / model.dt) if ((TIME - F__num) >= 0 and ((TIME - F__num) %% I__num) == 0) else 0.0)' % tag
        check('operators.py::Pulse[volume=%s,repeated].term' % k, p2)
    # delay: input shifted by the duration, initial value (or the input at the start) before that
    for k in ('Element', 'Operator'):
        for init in (None, 'num', 'negnum'):
            def d(k=k, init=init):
                o = I.construct('Delay', [ModelStub(), Sym(k, 'X'), Sym('num', 'D'), Sym(init, 'IV') if init else None])
                tm = I.call_method(o, 'term', [T])
                shifted = 'X__x_TIME______D___' 
                return tm, None
            # the spec is expressed on the rendered hole identifiers, computed from the template itself
            def d2(k=k, init=init):
                o = I.construct('Delay', [ModelStub(), Sym(k, 'X'), Sym('num', 'D'), Sym(init, 'IV') if init else None])
                tm = I.call_method(o, 'term', [T])
                holes = tm.holes()
                xs = [h for h in holes if h.name == 'X']
                shifted = [h for h in xs if 'TIME' in h.time]
                at_start = [h for h in xs if h.time.replace(' ', '') in ('model.starttime', '(model.starttime)')]
                if len(shifted) != 1:
                    raise Unsupported('delay: input is not read at exactly one shifted time (%r)' % [h.time for h in xs])
                norm = shifted[0].time.replace(' ', '')
                if norm not in ('(TIME)-(<D@->)', 'TIME-<D@->', '(TIME)-<D@->', 'TIME-(<D@->)'):
                    raise Unsupported('delay: shifted time is %r, expected TIME - D' % shifted[0].time)
                fallback = ('IV__num' if init else (ident(at_start[0]) if at_start else 'MISSING'))
                want = '(%s if (TIME - D__num) >= model.starttime else %s)' % (ident(shifted[0]), fallback)
                return tm, want
            check('operators.py::Delay[input=%s,initial=%s].term' % (k, init), d2)
    # Smooth / Trend: the element graph their constructors build (syntactic obligations on the real __init__)
    for cls, stock_attr, change_attr in (('Smooth', 'smooth', 'change_in_smooth'), ('Trend', 'exponential_average', 'change_in_average')):
        name = '%s/operators.py::%s.__init__.graph' % (prop, cls)
        cd = I.classes.get(cls)
        init = None
        for n in (cd.body if cd else []):
            if isinstance(n, ast.FunctionDef) and n.name == '__init__':
                init = n
        if init is None:
            verdicts.append(dict(name=name, qualname=cls, solver='ast', secs=0, status='undecided', reason='unbound: no __init__'))
            continue
        assigns = {}
        for st_ in ast.walk(init):
            if isinstance(st_, ast.Assign) and len(st_.targets) == 1:
                assigns.setdefault(ast.unparse(st_.targets[0]), []).append(ast.unparse(st_.value))
        mk = (assigns.get('self.%s' % change_attr) or [''])[0]
        why = []
        if not mk.startswith('model.biflow('):
            why.append('the change of the average is created with %r: a Flow is clamped at zero, the average cannot follow a falling input' % mk.split('(')[0])
        if not (assigns.get('self.%s' % stock_attr) or [''])[0].startswith('model.stock('):
            why.append('the average is not a stock')
        eq = (assigns.get('self.%s.equation' % change_attr) or [''])[0].replace(' ', '')
        if eq != '(self.input_function-self.%s)/self.averaging_time' % stock_attr:
            why.append('change equation is %r, expected (input - average)/averaging_time' % eq)
        if (assigns.get('self.%s.equation' % stock_attr) or [''])[0] != 'self.%s' % change_attr:
            why.append('the stock does not integrate the change element')
        if (assigns.get('self.%s.initial_value' % stock_attr) or [''])[0] != 'initial_value':
            why.append('initial value not passed to the stock')
        # what the function reports: smooth = the average itself; trend = (input - average) / (average * averaging time)
        term_fn = None
        for n in cd.body:
            if isinstance(n, ast.FunctionDef) and n.name == 'term':
                term_fn = n
        rets = [ast.unparse(x.value).replace(' ', '') for x in ast.walk(term_fn) if isinstance(x, ast.Return) and x.value is not None] if term_fn else []
        out_attr = 'trend' if cls == 'Trend' else stock_attr
        if rets != ['self.%s.term(time)' % out_attr]:
            why.append('term() returns %r, expected the term of self.%s at the requested time' % (rets, out_attr))
        if cls == 'Trend':
            mk_t = (assigns.get('self.trend') or [''])[0]
            if not mk_t.startswith('model.converter('):
                why.append('the trend output is created with %r, expected a converter' % mk_t.split('(')[0])
            eq_t = (assigns.get('self.trend.equation') or [''])[0].replace(' ', '')
            if eq_t != '(self.input_function-self.exponential_average)/(self.exponential_average*self.averaging_time)':
                why.append('trend equation is %r, expected (input - average)/(average * averaging_time)' % eq_t)
        for attr in ('input_function', 'averaging_time'):
            if (assigns.get('self.%s.equation' % attr) or [''])[0] != attr:
                why.append('self.%s does not carry the argument %s' % (attr, attr))
        verdicts.append(dict(name=name, qualname=cls, solver='ast', secs=0, line=init.lineno,
                             status='discharged' if not why else 'counterexample', path=why or ['average\' = (input - average)/T as a biflow into a stock'],
                             model=None if not why else dict(kind='graph', cls=cls, why=why)))
    functions.append(dict(function='Stock/Flow.build_function_string, Lookup/DT/Starttime/Stoptime/Pulse/Delay.term, Smooth/Trend.__init__',
                          file='BPTK_Py/sddsl', obligations=len(verdicts)))
    # the expression operators (shared with C02): every operand read at the requested time, grouping kept
    r2 = run_c02(prop, cfg, tier, seed)
    verdicts.extend(r2['verdicts'])
    functions.extend(r2['functions'])
    return dict(verdicts=verdicts, functions=functions, assumptions=r2['assumptions'] + [
        'meta-lemma (paper): from the generator posts, the memo contract (K1) and acyclicity, Element.__call__(t) equals the Euler reference V(e,t) at every grid time',
        'numpy / scipy interp1d trusted; stochastic built-ins not covered'], trusted=r2['trusted'])


