"""C02 (and the expression part of C01) -- contracts on every term() of BPTK_Py/sddsl/operators.py, discharged by K2.

For every operator class C in the table and every combination of operand KINDS (Element, arbitrary Operator, positive
number, negative number) the real constructor and the real term() are executed symbolically over templates.  Obligations:

  <C>[kinds].denotes            pyparse(text) is semantically equal (z3, reals) to Spec(C) with every operand read at the
                                REQUESTED time (so an operand rendered at "t" when "t-model.dt" was asked for fails)
  <C>[kinds]/hole<i>.unit[s]    pasting an operand text of shape s at hole i gives the same meaning as pasting it in
                                parentheses -- for every shape s the operand's own contract allows (behavioural subtyping:
                                an Operator operand may return any shape some operator class returns)

A text that CPython rejects (SyntaxError) counts as "rejected with an exception", which the property allows.
"""
import itertools
import os
import time as _time
import ast

from verif.pyvc import binder
from verif.tmplvc.interp import Interp, Sym, Tmpl, TIME, Hole, TimeVar, ModelStub, Unsupported, Raised, load
from verif.tmplvc import shapes as S

FILE = 'BPTK_Py/sddsl/operators.py'

KINDS = ['Element', 'Operator', 'num', 'negnum']
# class -> (constructor argument roles, Spec over E1.. / N1.. / TIME).   'E' any operand kind, 'N' a number, other = literal
SPEC = {
    'AdditionOperator': (('E', 'E'), 'E1 + E2'),
    'SubtractionOperator': (('E', 'E'), 'E1 - E2'),
    'MultiplicationOperator': (('E', 'E'), 'E1 * E2'),
    'DivisionOperator': (('E', 'E'), 'E1 / E2'),
    'ModOperator': (('E', 'E'), 'E1 % E2'),
    'NumericalMultiplicationOperator': (('E', 'E'), 'E2 * E1'),
    'PowerOperator': (('E', 'E'), 'E1 ** E2'),
    'ComparisonOperator': (('E', 'E', '<'), 'E1 < E2'),
    'UnaryOperator': (('E',), 'E1'),
    'AbsOperator': (('E',), 'abs(E1)'),
    'Exp': (('E',), 'np.exp(E1)'),
    'MaxOperator': (('E', 'E'), 'max(E1, E2)'),
    'MinOperator': (('E', 'E'), 'min(E1, E2)'),
    'Round': (('E', 'E'), 'round(E1, E2)'),
    'If': (('E', 'E', 'E'), '(E2 if E1 else E3)'),
    'And': (('E', 'E'), '(E1 and E2)'),
    'Or': (('E', 'E'), '(E1 or E2)'),
    'Not': (('E',), '(not E1)'),
    'Sqrt': (('E',), 'E1 ** (1/2)'),
    'Sin': (('E',), 'np.sin(E1)'), 'Cos': (('E',), 'np.cos(E1)'), 'Tan': (('E',), 'np.tan(E1)'),
    'Arcsin': (('E',), 'np.arcsin(E1)'), 'Arccos': (('E',), 'np.arccos(E1)'), 'Arctan': (('E',), 'np.arctan(E1)'),
    'Step': (('E', 'E'), '(E1 if TIME > E2 else 0.0)'),
    'Time': ((), 'TIME'),
}
KNOWN = {}
TIME_SHAPES = ['atom', '-', 'negnum']   # "t", "t-model.dt", "<t> - <duration>", str(model.starttime)


def ident(h):
    tag = {'TIME': 'TIME', 't': 't', '-': 'num'}.get(h.time)
    if tag is None:
        tag = 'x' + ''.join(c if c.isalnum() else '_' for c in h.time)
    return '%s__%s' % (h.name.replace('.', '_'), tag)


def render(tm, subst=None):
    """template -> python text; holes become identifiers name__timeTag; TIME becomes TIME"""
    def hole(h):
        if subst and h in subst:
            return subst[h]
        return ident(h)
    return tm.render(hole=hole, time=(subst or {}).get('TIME', 'TIME'))


def spec_text(spec, kinds):
    out = spec
    for i, k in enumerate(kinds, 1):
        if k in KINDS:
            tag = 'TIME' if k in ('Element', 'Operator') else 'num'
            out = out.replace('E%d' % i, 'E%d__%s' % (i, tag))
    return out


def guarantee(kind, op_shapes):
    if kind == 'Element':
        return ['atom']
    if kind == 'num':
        return ['atom']
    if kind == 'negnum':
        return ['negnum']
    if kind == 'Operator':
        return sorted(op_shapes)
    return ['atom']


def cases(roles):
    slots = [KINDS if r == 'E' else (['num', 'negnum'] if r == 'N' else [r]) for r in roles]
    out = []
    for c in itertools.product(*slots):
        ops = [k for k in c if k in KINDS]
        # python itself evaluates number-only expressions: at least one operand is a DSL object
        if ops and all(k in ('num', 'negnum') for k in ops):
            continue
        out.append(c)
    return out


def build_all(I, cls, kinds):
    """-> list of (decisions, template | ('raised', cls) | ('unbound', why)), one per resolution of the tests that the
    operand kinds leave open (e.g. isinstance(operand, DivisionOperator) for an arbitrary operator)"""
    out = []
    todo = [[]]
    seen = set()
    while todo and len(out) < 64:
        choices = todo.pop()
        I.choices, I.taken = choices, []
        args = []
        for i, k in enumerate(kinds, 1):
            args.append(Sym(k, 'E%d' % i) if k in KINDS else k)
        try:
            o = I.construct(cls, args)
            res = I.call_method(o, 'term', [Tmpl([TIME])])
        except Raised as e:
            res = ('raised', e.cls)
        except Unsupported as e:
            res = ('unbound', str(e))
        except RecursionError:
            res = ('unbound', 'recursion')
        taken = list(I.taken)
        key = tuple(v for _, v in taken)
        if key not in seen:
            seen.add(key)
            known = {a.name: getattr(a, 'known_cls', None) for a in args if isinstance(a, Sym)}
            out.append((taken, res, known))
        # schedule the alternatives of decisions taken by default
        for j in range(len(choices), len(taken)):
            alt = [v for _, v in taken[:j]] + [not taken[j][1]]
            if tuple(alt) not in seen:
                todo.append(alt)
    I.choices, I.taken = [], []
    return out


def run(prop, cfg, tier, seed):
    t0 = _time.time()
    path = os.path.join(binder.REPO, FILE)
    verdicts, functions = [], []
    try:
        I = Interp(load(path))
    except (OSError, SyntaxError) as e:
        return dict(verdicts=[dict(name='%s/operators.py::load' % prop, qualname='K2', status='undecided', solver='k2', secs=0,
                                   reason='cannot parse operators.py: %s' % e)])
    results = {}       # (cls, kinds) -> Tmpl | ('raised', cls) | ('unbound', why)
    for cls, (roles, spec) in SPEC.items():
        if cls not in I.classes:
            results[(cls, ())] = ('unbound', 'class not found')
            continue
        for kinds in cases(roles):
            for n, (taken, res, known) in enumerate(build_all(I, cls, kinds)):
                k2 = kinds if n == 0 else tuple(kinds) + ('path%d' % n,)
                results[(cls, k2)] = res
                KNOWN[(cls, k2)] = (known, taken)
    # shapes every operator class can return (fixed point; a template that is only a hole inherits the operand's shapes)
    op_shapes = set()
    cls_shapes = {}
    for _ in range(4):
        new = set(op_shapes)
        for (cls, kinds), tm in results.items():
            if not isinstance(tm, Tmpl):
                continue
            if len(tm.parts) == 1 and isinstance(tm.parts[0], Hole):
                shs = guarantee(tm.parts[0].kind, op_shapes)
            elif len(tm.parts) == 1 and isinstance(tm.parts[0], TimeVar):
                shs = TIME_SHAPES
            else:
                sh = S.shape_of(render(tm))
                shs = [sh] if sh else []
            new.update(shs)
            cls_shapes.setdefault(cls, set()).update(shs)
        if new == op_shapes:
            break
        op_shapes = new
    nfun = {}
    for (cls, kinds), tm in sorted(results.items(), key=lambda kv: (kv[0][0], kv[0][1])):
        roles, spec = SPEC[cls]
        known, taken = KNOWN.get((cls, kinds), ({}, []))
        tag = '%s[%s]' % (cls, ','.join(kinds))
        base = '%s/operators.py::%s.term' % (prop, tag)
        nfun[cls] = nfun.get(cls, 0)
        if not isinstance(tm, Tmpl):
            if tm[0] == 'unbound':
                verdicts.append(dict(name=base, qualname=cls, status='undecided', solver='k2', secs=0, reason='unbound: ' + tm[1]))
            else:
                # the constructor / term() raises for this operand combination: allowed ("rejected with an exception")
                verdicts.append(dict(name=base + '.rejects', qualname=cls, status='discharged', solver='k2-interp', secs=0,
                                     path=['raises %s' % tm[1]]))
            continue
        text = render(tm)
        want = spec_text(spec, [k for k in kinds if not str(k).startswith('path')])
        ts = _time.time()
        st, detail = S.equivalent(text, want)
        v = dict(name=base + '.denotes', qualname=cls, solver='cpython-ast + z3', secs=round(_time.time() - ts, 4),
                 path=['emitted: ' + text, 'spec: ' + want])
        if st == 'equal':
            v['status'] = 'discharged'
        elif st == 'syntax':
            v['status'] = 'discharged'
            v['path'].append('emitted text is rejected by CPython: ' + str(detail))
        elif st == 'different':
            v['status'] = 'counterexample'
            v['model'] = dict(kind='denotes', cls=cls, kinds=list(kinds), emitted=text, spec=want, valuation=detail)
        else:
            v['status'] = 'undecided'
            v['reason'] = str(detail)
        verdicts.append(v)
        nfun[cls] += 1
        # unit preservation per hole
        holes = [(i, p) for i, p in enumerate(tm.parts) if isinstance(p, (Hole, TimeVar))]
        for hi, h in holes:
            shapes_h = TIME_SHAPES if isinstance(h, TimeVar) else guarantee(h.kind, op_shapes)
            if isinstance(h, Hole) and known.get(h.name) and known[h.name] in cls_shapes:
                # the path established the operand's class: its own contract applies
                shapes_h = sorted(cls_shapes[known[h.name]])
            hname = 'TIME' if isinstance(h, TimeVar) else h.name
            for sh in shapes_h:
                rep = S.REP[sh]
                t1 = Tmpl(tm.parts[:hi] + [rep] + tm.parts[hi + 1:])
                t2 = Tmpl(tm.parts[:hi] + ['(' + rep + ')'] + tm.parts[hi + 1:])
                ts = _time.time()
                st, detail = S.equivalent(render(t1), render(t2))
                v = dict(name='%s/hole%d(%s).unit[%s]' % (base, hi, hname, sh), qualname=cls, solver='cpython-ast + z3',
                         secs=round(_time.time() - ts, 4), path=['decisions: %r' % (taken,)] if taken else None)
                if st in ('equal', 'syntax'):
                    v['status'] = 'discharged'
                elif st == 'different':
                    v['status'] = 'counterexample'
                    v['path'] = ['bare: ' + render(t1), 'grouped: ' + render(t2)]
                    v['model'] = dict(kind='unit', cls=cls, kinds=list(kinds), hole=hname, inner=sh, bare=render(t1),
                                      grouped=render(t2), valuation=detail)
                else:
                    v['status'] = 'undecided'
                    v['reason'] = str(detail)
                verdicts.append(v)
                nfun[cls] += 1
    verdicts.extend(overloads(prop))
    for cls, n in nfun.items():
        cd = I.classes.get(cls)
        functions.append(dict(function='%s.term (+ __init__)' % cls, file=FILE, line=cd.lineno if cd else None, obligations=n))
    return dict(verdicts=verdicts, functions=functions,
                assumptions=['parametricity of operator-precedence parsing: if one representative of an expression class is kept as a unit at a position, every expression of that class is (cross-checked by the native harness)',
                             'eval of generated text behaves as CPython\'s parser/evaluator; numpy functions trusted',
                             'semantic equality is over the reals (float association/rounding not modelled); % and ** are uninterpreted functions'],
                trusted=['CPython ast.parse (oracle for the grammar)'],
                infos={})


OVERLOADS = {
    '__add__': 'S + O', '__radd__': 'O + S', '__sub__': 'S - O', '__rsub__': 'O - S', '__mul__': 'S * O', '__rmul__': 'O * S',
    '__truediv__': 'S / O', '__rtruediv__': 'O / S', '__pow__': 'S ** O', '__rpow__': 'O ** S', '__mod__': 'S % O', '__rmod__': 'O % S',
    '__neg__': '-S', '__pos__': '+S', '__abs__': 'abs(S)',
    '__gt__': 'S > O', '__lt__': 'S < O', '__ge__': 'S >= O', '__le__': 'S <= O', '__eq__': 'S == O', '__ne__': 'S != O',
}


def overloads(prop):
    """the Python operator overloads of Operator and Element build the node that denotes the Python expression"""
    out = []
    ops_tree = load(os.path.join(binder.REPO, FILE))
    try:
        el_tree = load(os.path.join(binder.REPO, 'BPTK_Py/sddsl/element.py'))
    except (OSError, SyntaxError):
        el_tree = None
    # the overload table is closed: the contracts below are on Operator and Element; a subclass that defines an arithmetic /
    # comparison dunder of its own would escape them (it needs a contract of its own)
    extra = []
    for t_ in (ops_tree, el_tree):
        if t_ is None:
            continue
        for nd in ast.walk(t_):
            if isinstance(nd, ast.ClassDef) and nd.name not in ('Operator', 'Element'):
                for fn_ in nd.body:
                    if isinstance(fn_, ast.FunctionDef) and (fn_.name in OVERLOADS or fn_.name in ('__floordiv__', '__rfloordiv__', '__matmul__', '__invert__')):
                        extra.append('%s.%s (line %d)' % (nd.name, fn_.name, fn_.lineno))
    out.append(dict(name='%s/operators.py::overloads.closed' % prop, qualname='overloads', solver='ast', secs=0.0,
                    status='discharged' if not extra else 'counterexample',
                    path=['operator overloads outside the contract table: %s' % (extra or 'none')],
                    model=None if not extra else dict(kind='overload-table', extra=extra)))
    for owner, kind, tree in (('Operator', 'Operator', ops_tree), ('Element', 'Element', el_tree)):
        if tree is None:
            continue
        I = Interp(tree, extra_trees=[ops_tree])
        cd = I.classes.get(owner)
        if cd is None:
            continue
        methods = {n.name: n for n in cd.body if isinstance(n, ast.FunctionDef)}
        for mname, spec in OVERLOADS.items():
            fn = methods.get(mname)
            if fn is None:
                continue   # python raises TypeError: rejected
            for okind in (['Element', 'Operator', 'num', 'negnum'] if len(fn.args.args) > 1 else [None]):
                name = '%s/%s::%s.%s[%s].denotes' % (prop, 'element.py' if owner == 'Element' else 'operators.py', owner, mname, okind)
                selfsym = Sym(kind, 'S')
                args = [selfsym] + ([Sym(okind, 'O')] if okind else [])
                ts = _time.time()
                try:
                    node = I.call_function(fn, args, {}, owner)
                    tm = I.call_method(node, 'term', [Tmpl([TIME])])
                    text = render(tm)
                    want = spec.replace('S', 'S__TIME').replace('O', 'O__TIME' if okind in ('Element', 'Operator') else 'O__num')
                    st, detail = S.equivalent(text, want)
                except Raised as e:
                    st, detail, text, want = 'equal', 'raises %s (rejected)' % e.cls, '', spec
                except Unsupported as e:
                    st, detail, text, want = 'unknown', 'unbound: %s' % e, '', spec
                v = dict(name=name, qualname='%s.%s' % (owner, mname), solver='cpython-ast + z3', secs=round(_time.time() - ts, 4),
                         path=['emitted: ' + text, 'spec: ' + want], line=fn.lineno)
                if st in ('equal', 'syntax'):
                    v['status'] = 'discharged'
                elif st == 'different':
                    v['status'] = 'counterexample'
                    v['model'] = dict(kind='overload', cls=owner, method=mname, other=okind, emitted=text, spec=want, valuation=detail)
                else:
                    v['status'] = 'undecided'
                    v['reason'] = str(detail)
                out.append(v)
    return out
