"""C17 -- an instance lives exactly as long as its timeout since last access allows.
Contracts with a ghost clock ($now, monotone) on every function of InstanceManager (bptkServer.py)."""
from .server_classes import *  # noqa

F = F_SRV


def inst(tbl, k):
    return tbl[k]['instance']


def expiry(tbl, k):
    """clock value from which the entry k counts as expired"""
    r = tbl[k]
    return r['time'] + td_seconds(r['timeout'])


def wf_im(m):
    """representation invariant of the instance table"""
    t = m._instances
    return And(t.wf,
               FA('str', lambda k: Implies(t.has(k), And(t[k].has('instance'), t[k].has('time'), t[k].has('timeout'),
                                                         t[k]['instance'] != NULL, z3.Select(m.st.alloc, t[k]['instance'].z)))),
               # different ids own different bptk objects
               FA('str', 'str', lambda k1, k2: Implies(And(t.has(k1), t.has(k2), k1 != k2),
                                                       t[k1]['instance'] != t[k2]['instance'])))


def entries_kept(t1, t0):
    """t1 is a sub-table of t0 with identical records"""
    return FA('str', lambda k: Implies(t1.has(k), And(t0.has(k), t1.raw(k) == t0.raw(k))))


def destroyed(st, b):
    return st.heap_arr_cf('bptk', 'g_destroyed')[zof(b)]


def sweep_post(C, t1, t0, c0, c1):
    """what one sweep guarantees, between the clock readings c0 (entry) and c1 (exit)"""
    return And(
        entries_kept(t1, t0),
        # alive even at the latest reading => survives
        FA('str', lambda k: Implies(And(t0.has(k), c1 < expiry(t0, k)), t1.has(k))),
        # expired already at the earliest reading => gone
        FA('str', lambda k: Implies(And(t0.has(k), c0 >= expiry(t0, k)), Not(t1.has(k)))),
        # removed => its resources released exactly once; kept => not released
        FA('str', lambda k: Implies(t0.has(k), destroyed(C.st, inst(t0, k)) == destroyed(C.old_st, inst(t0, k)) + If(t1.has(k), 0, 1))))


contract('InstanceManager.is_valid_instance', file=F, props=['C17', 'C16'], params=dict(self=IM, instance_uuid=STR),
         returns=BOOL, ensures=lambda C: C.result == C.self._instances.has(C.instance_uuid))


def sweep_inv(C):
    t1, t0 = C.self._instances, C.old.self._instances
    K = C.it                 # snapshot of the keys
    now = C.g('now')
    d1, d0 = C.st.heap_arr_cf('bptk', 'g_destroyed'), C.old_st.heap_arr_cf('bptk', 'g_destroyed')
    return And(
        wf_im(C.self), entries_kept(t1, t0), now >= C.old.g('now'),
        K.len == t0.keys.len,
        FA('idx', lambda i: Implies(And(0 <= i, i < K.len), K.raw(i) == t0.keys.raw(i))),
        FA('idx', lambda i: Implies(And(C.k <= i, i < K.len), t1.has(K.raw(i)))),
        FA('idx', lambda i: Implies(And(0 <= i, i < C.k, now < expiry(t0, K.raw(i))), t1.has(K.raw(i)))),
        FA('idx', lambda i: Implies(And(0 <= i, i < C.k, C.old.g('now') >= expiry(t0, K.raw(i))), Not(t1.has(K.raw(i))))),
        FA('idx', lambda i: Implies(And(0 <= i, i < K.len),
                                    d1[inst(t0, K.raw(i)).z] == d0[inst(t0, K.raw(i)).z] + If(t1.has(K.raw(i)), 0, 1))))


contract('InstanceManager._timeout_instances', file=F, props=['C17', 'C16'], ghost=GHOST_SRV, params=dict(self=IM),
         requires=lambda C: wf_im(C.self),
         ensures=lambda C: And(wf_im(C.self), C.g('now') >= C.old.g('now'),
                               sweep_post(C, C.self._instances, C.old.self._instances, C.old.g('now'), C.g('now'))),
         loops={0: sweep_inv}, modifies=['InstanceManager._instances', '$now'], ghost_mods=['bptk.g_destroyed'])


def touched(C, t1, t0, uuid, after_touch_table=None):
    """entry uuid carries a time stamp read during this call; nothing else about it changes"""
    return And(t1[uuid]['instance'] == t0[uuid]['instance'], t1[uuid]['timeout'].z == t0[uuid]['timeout'].z,
               t1[uuid]['time'] >= C.old.g('now'), t1[uuid]['time'] <= C.g('now'))


def update_ts_post(C):
    t1, t0 = C.self._instances, C.old.self._instances
    u = C.instance_uuid
    return And(wf_im(C.self), C.g('now') >= C.old.g('now'),
               FA('str', lambda k: t1.has(k) == t0.has(k)),
               FA('str', lambda k: Implies(And(t0.has(k), k != u), t1.raw(k) == t0.raw(k))),
               Implies(t0.has(u), touched(C, t1, t0, u)),
               C.unchanged('bptk.g_destroyed'))


contract('InstanceManager._update_instance_timestamp', file=F, props=['C17'], ghost=GHOST_SRV,
         params=dict(self=IM, instance_uuid=STR), requires=lambda C: wf_im(C.self), ensures=update_ts_post,
         modifies=['InstanceManager._instances', '$now'])


def access_post(C, ret_instance):
    """an access (get_instance / keep-alive): the addressed entry is stamped, then everything expired is swept"""
    t1, t0 = C.self._instances, C.old.self._instances
    u = C.instance_uuid
    c0, c1 = C.old.g('now'), C.g('now')
    d1, d0 = C.st.heap_arr_cf('bptk', 'g_destroyed'), C.old_st.heap_arr_cf('bptk', 'g_destroyed')
    valid = t0.has(u)
    parts = [
        wf_im(C.self), c1 >= c0,
        # an id that is not in the table: nothing happens at all (no sweep either)
        Implies(And(Not(valid), z3.BoolVal(ret_instance)), And(t1.z == t0.z, C.unchanged('bptk.g_destroyed'))),
        # nothing appears; what stays is unchanged except for the time stamp of the addressed entry
        FA('str', lambda k: Implies(t1.has(k), t0.has(k))),
        FA('str', lambda k: Implies(And(t1.has(k), k != u), t1.raw(k) == t0.raw(k))),
        Implies(t1.has(u), touched(C, t1, t0, u)),
        # the addressed entry restarts its timer: it survives this call whenever its timeout is positive enough
        Implies(And(valid, c1 < c0 + td_seconds(t0[u]['timeout'])), t1.has(u)),
        # every OTHER entry: alive at the latest reading => kept; expired at the earliest reading => swept
        FA('str', lambda k: Implies(And(t0.has(k), k != u, c1 < expiry(t0, k)), t1.has(k))),
        FA('str', lambda k: Implies(And(Or(valid, Not(z3.BoolVal(ret_instance))), t0.has(k), k != u, c0 >= expiry(t0, k)), Not(t1.has(k)))),
        FA('str', lambda k: Implies(t0.has(k), d1[inst(t0, k).z] == d0[inst(t0, k).z] + If(t1.has(k), 0, 1))),
    ]
    if ret_instance:
        parts.append(Implies(Not(t0.has(u)), C.result.is_null))
        parts.append(Implies(And(t0.has(u), t1.has(u)), C.result == inst(t0, u)))
        parts.append(Implies(And(t0.has(u), Not(t1.has(u))), C.result.is_null))
    return And(*parts)


contract('InstanceManager.keep_instance_alive', file=F, props=['C17'], ghost=GHOST_SRV,
         params=dict(self=IM, instance_uuid=STR), requires=lambda C: wf_im(C.self),
         ensures=lambda C: access_post(C, False),
         modifies=['InstanceManager._instances', '$now'], ghost_mods=['bptk.g_destroyed'])

contract('InstanceManager.get_instance', file=F, props=['C17', 'C16'], ghost=GHOST_SRV,
         params=dict(self=IM, instance_uuid=STR), returns=B, requires=lambda C: wf_im(C.self),
         ensures=lambda C: access_post(C, True),
         modifies=['InstanceManager._instances', '$now'], ghost_mods=['bptk.g_destroyed'])

contract('InstanceManager._make_bptk', file=F, props=['C17', 'C16'], params=dict(self=IM), returns=B, allocates=True,
         ensures=lambda C: And(C.result != NULL, C.fresh(C.result), C.isinst(C.result, 'bptk'), C.result.g_destroyed == 0))


def create_post(C):
    t1, t0 = C.self._instances, C.old.self._instances
    c0, c1 = C.old.g('now'), C.g('now')
    u = C.result
    d1, d0 = C.st.heap_arr_cf('bptk', 'g_destroyed'), C.old_st.heap_arr_cf('bptk', 'g_destroyed')
    return And(
        wf_im(C.self), c1 >= c0, t1.has(u), Not(t0.has(u)),
        C.fresh(inst(t1, u)),
        # the stored timeout has each of the seven units equal to the keyword given, or 0
        And(*[And(t1[u]['timeout'].has(x), t1[u]['timeout'][x] == If(C.timeout.has(x), C.timeout[x], 0)) for x in UNITS]),
        t1[u]['time'] >= c0, t1[u]['time'] <= c1,
        # the id is the hex of a UUID object created by this call
        EX('ref', lambda r: And(Not(z3.Select(C.old_st.alloc, r)), C.st.heap_arr_cf('UUID', 'hex')[r] == u),
           pats=lambda r: [C.st.heap_arr_cf('UUID', 'hex')[r]]),
        # sweep first: the other entries are a swept sub-table of the old one
        FA('str', lambda k: Implies(And(t1.has(k), k != u), And(t0.has(k), t1.raw(k) == t0.raw(k)))),
        FA('str', lambda k: Implies(And(t0.has(k), c1 < expiry(t0, k)), t1.has(k))),
        FA('str', lambda k: Implies(And(t0.has(k), c0 >= expiry(t0, k)), Not(t1.has(k)))),
        FA('str', lambda k: Implies(t0.has(k), d1[inst(t0, k).z] == d0[inst(t0, k).z] + If(t1.has(k), 0, 1))))


contract('InstanceManager.create_instance', file=F, props=['C17', 'C16'], ghost=GHOST_SRV,
         params=dict(self=IM, timeout=TIMEOUT), returns=STR, locals=dict(instance_data=INSTREC), allocates=True,
         requires=lambda C: And(wf_im(C.self), uuid_ok(C, C.self)), ensures=lambda C: And(*(list(create_post(C).children()) + [uuid_ok(C, C.self)])),
         modifies=['InstanceManager._instances', '$now'], ghost_mods=['bptk.g_destroyed'])


def _uuid_new(C, im=None):
    """uuid1().hex is an identifier not in use (assumption on the uuid library): modelled by the precondition that the
    hex of any object allocated later differs from every key -- stated on the heap field UUID.hex"""
    hx = C.st.heap_arr_cf('UUID', 'hex')
    t = (im if im is not None else C.self)._instances
    return FA('ref', lambda r: Implies(Not(z3.Select(C.st.alloc, r)), Not(t.has(hx[r]))), pats=lambda r: [hx[r]])


def uuid_ok(C, im):
    """the uuid library assumption in inductive form: identifiers of different UUID objects differ, and no object that
    is yet to be allocated carries an identifier already in the table"""
    hx = C.st.heap_arr_cf('UUID', 'hex')
    return And(_uuid_new(C, im),
               FA('ref', 'ref', lambda r1, r2: Implies(r1 != r2, hx[r1] != hx[r2]), pats=lambda r1, r2: [hx[r1], hx[r2]]))


contract('InstanceManager._delete_instance', file=F, props=['C17', 'C16'], params=dict(self=IM, instance_id=STR),
         requires=lambda C: wf_im(C.self),
         ensures=lambda C: And(wf_im(C.self), Not(C.self._instances.has(C.instance_id)),
                               FA('str', lambda k: Implies(k != C.instance_id,
                                                           And(C.self._instances.has(k) == C.old.self._instances.has(k),
                                                               C.self._instances.raw(k) == C.old.self._instances.raw(k))))),
         modifies=['InstanceManager._instances'])
