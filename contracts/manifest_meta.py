"""Texts for MANIFEST.json (kept next to the contracts so that claims and contracts change together)."""

CLAIMED = {
    'C11': dict(
        engine='pyvc (K1)', category='proof', design_ref='DESIGN.md section 3 / C11',
        technique='contract-based deductive verification with ghost (history) variables: VCs from the real AST of simultaneousScheduler.py, scheduler.py, agent.py, model.py, discharged by z3',
        text='For every queue, registry (any creation/deletion history, via wf_registry) and dt: the distribution loop of run_step pops every event queued at entry exactly once; a delayed event with delay>0 is held back with delay-dt; every other event is put exactly once into the inbox of the agent whose id equals receiver_id, or reaches nobody if no live agent has that id; later-queued events are delivered first (and handle_events pops from the end, restoring send order); handle_events drains the inbox in every state and dispatches each event exactly once to the handler registered for its name. The real-arithmetic lemma "released after exactly ceil(delay/dt) passes" is discharged separately.',
        note='Assumed: callback contract on user code; reals for floats; scheduler is the SimultaneousScheduler. Composition over several steps is a paper lemma. Per-event clauses are conditional on the queue holding no event object twice. Three genuine defects found by these obligations were repaired with fix: commits (routing by list position, stale inbox in states without handlers, division by stoptime 0).'),
    'C12': dict(
        engine='pyvc (K1)', category='proof', design_ref='DESIGN.md section 3 / C12',
        technique='contract-based deductive verification with a ghost callback trace and nested loop invariants over the real AST of simultaneousScheduler.py and model.py, discharged by z3',
        text='run_step is proved to emit exactly the specified callback trace for all populations, rounds, steps and dt>0 (begin; handle and act per agent in list order; end; statistics iff data collection is on or (round==stoptime and step==round(1/dt)-1)), and to set time=round+step*dt; run() is proved to execute a successor chain of (round, step) from (start,0) to (stop,S-1), i.e. every step once in order, while running stays true; Model.run/run_step are proved to delegate (run_step(step) is scheduler step (0, step)).',
        note='Assumed: callbacks follow the callback contract (no registry/running changes mid-step), integer start/stop, reals for floats, round(x) within 1/2 of x. Thread-per-scenario runner not decided.'),
    'C13': dict(
        engine='pyvc (K1)', category='proof', design_ref='DESIGN.md section 3 / C13',
        technique='contract-based deductive verification: VCs generated from the real AST of dataCollector.py (nested loop invariants, recurrence-defined aggregates), discharged by z3',
        text='collect_agent_statistics is proved, for every agent list and every property dictionary, to record for the given time exactly: the set of types present, per type the set of states present, per (type,state) the number of agents, and per numeric property total, max, min and mean equal to the sum, maximum, minimum and total/count over exactly those agents; other times are unchanged; no exception can escape. record_event/reset/statistics are proved against their functional specs.',
        note='Assumed: reals for numbers (float rounding not modelled; spec and code sum in the same order); uniform numeric property names inside a (type,state) group (stated precondition; without it the mean is order dependent); pandas assembly (df/dict/json, zero filling) is NOT under contract -- it is exercised only by the native replay harness (labelled search, not proof).'),
    'C14': dict(
        engine='pyvc (K1)', category='proof', design_ref='DESIGN.md section 3 / C14',
        technique='contract-based deductive verification: VCs generated from the real AST of model.py, discharged by z3 (invariant + whole-view postconditions)',
        text='Representation invariant wf_registry (ids strictly increasing and below the counter; every per-type list equals the filtered id list, as a recurrence-defined spec function; lists of different types are distinct objects) is proved preserved by create_agent(s), delete_agent(s), configure_agents, reset, register_agent_factory, for all registries and all arguments, with loop invariants; every query (agent, agent_ids, agent_count, agent_count_per_state, next_agent, random_agents) is proved equal to its definition over the abstract view and exception-free. Histories follow by induction over calls.',
        note='Trusted/assumed: user callbacks (agent factory returns a fresh Agent with the given id; initialize/reset_cache touch only the own agent), Agent.id/agent_type immutable after creation, get_random_integer within bounds, log() dropped, Python semantics of the encoded subset (DESIGN 2.2.7). Preconditions: registered type arguments; reset() needs a data collector; re-registering a type with live agents excluded. Counterexamples are replayed as user histories on the real Model by verif/native/c14_harness.py.'),
}

_TODO = 'not yet built in this round: contracts for this property are planned in DESIGN.md but no check is registered until it is green on the unchanged tree and red on its seeded changes'
NOT_APPLICABLE = {p: _TODO for p in ['C01', 'C02', 'C03', 'C04', 'C05', 'C06', 'C07', 'C08', 'C09', 'C10',
                                     'C15', 'C16', 'C17', 'C18', 'C19', 'C20']}
