"""C14 -- agent registry: representation invariant + whole-view postconditions on every registry
operation and query of `Model` (BPTK_Py/modeling/model.py).  Top-level posts are transcribed from the
property statement; frames/helper contracts from the code."""
from .abm_classes import *  # noqa

F = 'BPTK_Py/modeling/model.py'
M = TRef('Model')
A = TRef('Agent')

# "the factory registered under T builds agents whose agent_type settles to T" (assumption on user code)
ftype = z3.Function('factory_type', FACTORY.sort(), StrS)

# Agent.id and Agent.agent_type are treated as IMMUTABLE after creation (never havoc'd): assumption on user
# code, listed in the evidence; the type is the one the agent settles to in initialize().
AGENT_FIELDS = ['Agent.state', 'Agent.events', 'Agent.properties', 'Agent.eventHandlers', 'Agent.model']


def wf(m):
    return And(wf_registry(m),
               FA('str', lambda T: Implies(m.agent_factories.has(T), ftype(m.agent_factories.raw(T)) == T)))


def others_unchanged(C, fields, *except_refs):
    """every object allocated before the call, other than except_refs, keeps the given fields"""
    out = []
    for cf in fields:
        cls, f = cf.split('.')
        a1, a0 = C.st.heap_arr_cf(cls, f), C.old_st.heap_arr_cf(cls, f)
        out.append(FA('ref', lambda r, a1=a1, a0=a0: Implies(And(z3.Select(C.old_st.alloc, r), *[r != zof(x) for x in except_refs]),
                                                            z3.Select(a1, r) == z3.Select(a0, r))))
    return And(*out)


def registry_unchanged(C):
    m1, m0 = C.self, C.old.self
    return And(same_agents(m1, m0), m1.next_agent_id == m0.next_agent_id,
               m1.agent_type_map.z == m0.agent_type_map.z)


# ---------------------------------------------------------------------------------------------------
# assumed contracts on user code (callbacks)
# ---------------------------------------------------------------------------------------------------
contract('fun:agent_factory', trusted=True, props=['C14'],
         note='user factory: returns a fresh Agent carrying the id it was given; does not touch the registry',
         params=dict(agent_id=INT, model=M, properties=TOpt(TOpaque('propspec'))), returns=A,
         modifies=AGENT_FIELDS, allocates=True,
         ensures=lambda C: And(C.result != NULL, C.fresh(C.result), C.allocated(C.result),
                               C.isinst(C.result, 'Agent'),
                               C.result.id == C.agent_id,
                               C.result.agent_type == ftype(C.callee),
                               others_unchanged(C, AGENT_FIELDS)))

contract('Agent.initialize', trusted=True, props=['C14'],
         note='user hook: may set the own state/type/handlers/properties; keeps the id; does not touch the registry',
         params=dict(self=A), modifies=['Agent.state', 'Agent.events', 'Agent.properties', 'Agent.eventHandlers'],
         ensures=lambda C: others_unchanged(C, ['Agent.state', 'Agent.events', 'Agent.properties', 'Agent.eventHandlers'], C.self))

contract('Agent.reset_cache', trusted=True, props=['C14'], note='user hook: soft reset, own fields only',
         params=dict(self=A), modifies=['Agent.properties'],
         ensures=lambda C: others_unchanged(C, ['Agent.properties'], C.self))

contract('DataCollector.reset', file='BPTK_Py/modeling/dataCollector.py', props=['C13', 'C14'],
         params=dict(self=TRef('DataCollector')),
         modifies=['DataCollector.agent_statistics', 'DataCollector.event_statistics'],
         ensures=lambda C: And(C.self.agent_statistics.size == 0, C.self.event_statistics.size == 0,
                               others_unchanged(C, ['DataCollector.agent_statistics', 'DataCollector.event_statistics'], C.self)))

contract('Model.get_random_integer', trusted=True, props=['C14'],
         note='round(random()*(max-min)+min) lies in [min,max] (random() in [0,1); float rounding not modelled)',
         params=dict(min_value=INT, max_value=INT), returns=INT,
         requires=lambda C: C.min_value <= C.max_value,
         ensures=lambda C: And(C.min_value <= C.result, C.result <= C.max_value))

# ---------------------------------------------------------------------------------------------------
# queries
# ---------------------------------------------------------------------------------------------------

def agent_post(C):
    m, r = C.self, C.result
    ags = m.agents
    return And(Implies(r.is_null, FA('idx', lambda i: Implies(And(0 <= i, i < ags.len), ags[i].id != C.agent_id))),
               Implies(Not(r.is_null), And(r.id == C.agent_id, ags.contains(r))))


contract('Model.agent', file=F, props=['C14'], params=dict(self=M, agent_id=INT), returns=A,
         requires=lambda C: wf(C.self), ensures=agent_post,
         loops={0: lambda C: FA('idx', lambda i: Implies(And(0 <= i, i < C.k), C.self.agents[i].id != C.agent_id))})

contract('Model.agent_ids', file=F, props=['C14'], params=dict(self=M, agent_type=STR), returns=TList(INT),
         requires=lambda C: And(wf(C.self), C.self.agent_type_map.has(C.agent_type)),
         ensures=lambda C: list_is(C.result, *ids_of_type(C.self, C.agent_type)))

contract('Model.agent_count', file=F, props=['C14'], params=dict(self=M, agent_type=STR), returns=INT,
         requires=lambda C: And(wf(C.self), C.self.agent_type_map.has(C.agent_type)),
         ensures=lambda C: C.result == ids_of_type(C.self, C.agent_type)[0])


def cnt_state(m, T, S, upto=None):
    ags = m.agents
    return cnt_ts(AT(ags), H(m, 'Agent', 'agent_type'), H(m, 'Agent', 'state'), zof(T), zof(S),
                  ags.len if upto is None else upto)


contract('Model.agent_count_per_state', file=F, props=['C14'], params=dict(self=M, agent_type=STR, state=STR),
         returns=INT,
         requires=lambda C: And(wf(C.self), C.self.agent_type_map.has(C.agent_type)),
         ensures=lambda C: C.result == cnt_state(C.self, C.agent_type, C.state),
         loops={0: lambda C: C.v.agent_count == cnt_state(C.self, C.agent_type, C.state, C.k)})


def next_agent_post(C):
    m, r = C.self, C.result
    ags = m.agents
    match = lambda a: And(a.agent_type == C.agent_type, a.state == C.state)
    return And(Implies(r.is_null, FA('idx', lambda i: Implies(And(0 <= i, i < ags.len), Not(match(ags[i]))))),
               Implies(Not(r.is_null), And(match(r), ags.contains(r))))


contract('Model.next_agent', file=F, props=['C14'], params=dict(self=M, agent_type=STR, state=STR), returns=A,
         requires=lambda C: wf(C.self), ensures=next_agent_post,
         loops={0: lambda C: FA('idx', lambda i: Implies(And(0 <= i, i < C.k),
                                                         Not(And(C.self.agents[i].agent_type == C.agent_type,
                                                                 C.self.agents[i].state == C.state))))})


def random_agents_post(C):
    r = C.result
    tl = C.self.agent_type_map[C.agent_type]
    return And(r.len == If(C.num_agents < tl.len, If(C.num_agents > 0, C.num_agents, 0), tl.len),
               FA('idx', lambda j: Implies(And(0 <= j, j < r.len), tl.contains(r.raw(j)))))


contract('Model.random_agents', file=F, props=['C14'], params=dict(self=M, agent_type=STR, num_agents=INT),
         returns=TList(INT), locals=dict(agent_ids=TList(INT)),
         requires=lambda C: And(wf(C.self), C.self.agent_type_map.has(C.agent_type)),
         ensures=random_agents_post,
         loops={0: lambda C: And(C.v.agent_ids.len == C.k,
                                 C.v.num_agents_in_map == C.self.agent_type_map[C.agent_type].len,
                                 C.v.agent_map.z == C.self.agent_type_map[C.agent_type].z,
                                 FA('idx', lambda j: Implies(And(0 <= j, j < C.v.agent_ids.len),
                                                             C.self.agent_type_map[C.agent_type].contains(C.v.agent_ids.raw(j)))))})

# ---------------------------------------------------------------------------------------------------
# mutators
# ---------------------------------------------------------------------------------------------------

def create_agent_post(C):
    m1, m0, r = C.self, C.old.self, C.result
    return And(wf(m1),
               m1.agents.is_append(m0.agents, r),
               r.id == m0.next_agent_id, r.agent_type == C.agent_type,
               m1.next_agent_id == m0.next_agent_id + 1,
               C.fresh(r),
               m1.agent_factories.z == m0.agent_factories.z,
               FA('str', lambda T: m1.agent_type_map.has(T) == m0.agent_type_map.has(T)),
               others_unchanged(C, ['Agent.state'], r))


contract('Model.create_agent', file=F, props=['C14'],
         params=dict(self=M, agent_type=STR, agent_properties=TOpt(TOpaque('propspec'))), returns=A,
         requires=lambda C: And(wf(C.self), C.self.agent_type_map.has(C.agent_type)),
         ensures=create_agent_post, allocates=True,
         modifies=['Model.agents', 'Model.agent_type_map', 'Model.next_agent_id'] + AGENT_FIELDS)


def create_agents_inv(C):
    m1, m0 = C.self, C.old.self
    return And(wf(m1), m1.agent_type_map.has(C.agent_spec['name']),
               m1.agents.len == m0.agents.len + C.k,
               m1.next_agent_id == m0.next_agent_id + C.k,
               FA('idx', lambda i: Implies(And(0 <= i, i < m0.agents.len), m1.agents.raw(i) == m0.agents.raw(i))),
               FA('idx', lambda i: Implies(And(m0.agents.len <= i, i < m1.agents.len),
                                           And(m1.agents[i].agent_type == C.agent_spec['name'],
                                               C.fresh(m1.agents[i]), m1.agents[i].id >= m0.next_agent_id))),
               m1.agent_factories.z == m0.agent_factories.z,
               FA('str', lambda T: m1.agent_type_map.has(T) == m0.agent_type_map.has(T)),
               others_unchanged(C, ['Agent.state']))


def create_agents_post(C):
    m1, m0 = C.self, C.old.self
    n = If(C.agent_spec['count'] > 0, C.agent_spec['count'], 0)
    return And(wf(m1),
               m1.agents.len == m0.agents.len + n, m1.next_agent_id == m0.next_agent_id + n,
               FA('idx', lambda i: Implies(And(0 <= i, i < m0.agents.len), m1.agents.raw(i) == m0.agents.raw(i))),
               FA('idx', lambda i: Implies(And(m0.agents.len <= i, i < m1.agents.len),
                                           And(m1.agents[i].agent_type == C.agent_spec['name'], C.fresh(m1.agents[i]),
                                               m1.agents[i].id >= m0.next_agent_id))),
               m1.agent_factories.z == m0.agent_factories.z,
               FA('str', lambda T: m1.agent_type_map.has(T) == m0.agent_type_map.has(T)),
               others_unchanged(C, ['Agent.state']))


def spec_valid(spec):
    return And(spec.has('name'), spec.has('count'))


contract('Model.create_agents', file=F, props=['C14'], params=dict(self=M, agent_spec=AGENT_SPEC),
         requires=lambda C: And(wf(C.self), spec_valid(C.agent_spec), C.self.agent_type_map.has(C.agent_spec['name'])),
         ensures=create_agents_post, loops={0: create_agents_inv}, allocates=True,
         modifies=['Model.agents', 'Model.agent_type_map', 'Model.next_agent_id'] + AGENT_FIELDS)


def configure_agents_post(C):
    m1, m0 = C.self, C.old.self
    return And(wf(m1), m1.next_agent_id >= m0.next_agent_id,
               # ids are never reused: every live agent was created by this call
               FA('idx', lambda i: Implies(And(0 <= i, i < m1.agents.len),
                                           And(C.fresh(m1.agents[i]), m1.agents[i].id >= m0.next_agent_id))))


def configure_agents_inv1(C):
    m1, m0 = C.self, C.old.self
    return And(wf(m1), m1.next_agent_id >= m0.next_agent_id,
               m1.agent_factories.z == m0.agent_factories.z,
               FA('str', lambda T: m1.agent_type_map.has(T) == m0.agent_type_map.has(T)),
               FA('idx', lambda i: Implies(And(0 <= i, i < m1.agents.len),
                                           And(C.fresh(m1.agents[i]), m1.agents[i].id >= m0.next_agent_id))))


def cleared_prefix_inv(C):
    """first loop of reset()/configure_agents(): lists of the first k keys are empty, the rest untouched"""
    m1, m0 = C.self, C.old.self
    keys = m0.agent_type_map.keys
    tm1, tm0 = m1.agent_type_map, m0.agent_type_map
    return And(FA('str', lambda T: tm1.has(T) == tm0.has(T)),
               tm1.keys.z == tm0.keys.z, tm1.wf,
               FA('idx', lambda j: Implies(And(0 <= j, j < C.k), tm1[keys.raw(j)].len == 0)),
               FA('idx', 'idx', lambda i, j: Implies(And(0 <= i, i < C.k, 0 <= j, j < C.k, i != j),
                                                     tm1[keys.raw(i)].oid != tm1[keys.raw(j)].oid)),
               FA('idx', lambda j: Implies(And(0 <= j, j < C.k), C.fresh_oid(tm1[keys.raw(j)].oid))),
               FA('idx', lambda j: Implies(And(C.k <= j, j < keys.len), tm1.raw(keys.raw(j)) == tm0.raw(keys.raw(j)))),
               same_agents(m1, m0), m1.next_agent_id == m0.next_agent_id,
               m1.agent_factories.z == m0.agent_factories.z)


contract('Model.configure_agents', file=F, props=['C14'], params=dict(self=M, config=TList(AGENT_SPEC)),
         requires=lambda C: And(wf(C.self), C.self.agent_type_map.wf,
                                FA('idx', lambda i: Implies(And(0 <= i, i < C.config.len),
                                                            And(spec_valid(C.config[i]),
                                                                C.self.agent_type_map.has(C.config[i]['name']))))),
         ensures=configure_agents_post, loops={0: cleared_prefix_inv, 1: configure_agents_inv1}, allocates=True,
         modifies=['Model.agents', 'Model.agent_type_map', 'Model.next_agent_id'] + AGENT_FIELDS)

contract('Model.reset_cache', file=F, props=['C08', 'C14'], params=dict(self=M),
         requires=lambda C: And(C.self.memo.wf,
                                FA('idx', lambda i: Implies(And(0 <= i, i < C.self.agents.len), C.self.agents[i] != NULL))),
         modifies=['Model.memo', 'DataCollector.agent_statistics', 'DataCollector.event_statistics', 'Agent.properties'],
         ensures=lambda C: And(FA('str', lambda e: Implies(C.self.memo.has(e), C.self.memo[e].size == 0)), C.self.memo.wf,
                               FA('str', lambda e: C.self.memo.has(e) == C.old.self.memo.has(e))),
         loops={0: lambda C: And(C.self.memo.z == C.old.self.memo.z, C.self.agents.z == C.old.self.agents.z),
                1: lambda C: And(C.self.memo.keys.z == C.old.self.memo.keys.z, C.self.memo.wf,
                                 FA('str', lambda e: C.self.memo.has(e) == C.old.self.memo.has(e)),
                                 FA('idx', lambda j: Implies(And(0 <= j, j < C.k),
                                                             C.self.memo[C.old.self.memo.keys.raw(j)].size == 0)))})

contract('Model.reset', file=F, props=['C14'], params=dict(self=M),
         # no precondition on data_collector: Model() leaves it None and reset() must still work (fix recorded in known_findings.json)
         requires=lambda C: And(wf(C.self), C.self.agent_type_map.wf, C.self.memo.wf),
         ensures=lambda C: And(wf(C.self), C.self.agents.len == 0,
                               C.self.next_agent_id == C.old.self.next_agent_id),
         loops={0: cleared_prefix_inv},
         modifies=['Model.agents', 'Model.agent_type_map', 'Model.memo', 'DataCollector.agent_statistics',
                   'DataCollector.event_statistics', 'Agent.properties'])


def register_post(C):
    m1, m0 = C.self, C.old.self
    return And(wf(m1), same_agents(m1, m0), m1.next_agent_id == m0.next_agent_id,
               m1.agent_type_map.has(C.agent_type), m1.agent_type_map[C.agent_type].len == 0)


contract('Model.register_agent_factory', file=F, props=['C14'],
         params=dict(self=M, agent_type=STR, agent_factory=FACTORY),
         requires=lambda C: And(wf(C.self), ftype(C.agent_factory) == C.agent_type,
                                # re-registering a type that has live agents would orphan them: excluded
                                ids_of_type(C.self, C.agent_type)[0] == 0),
         ensures=register_post, modifies=['Model.agent_factories', 'Model.agent_type_map'])


# ---------------------------------------------------------------------------------------------------
# delete_agents / delete_agent
# ---------------------------------------------------------------------------------------------------
IDSET = TSet(INT)


def _da(C):
    """shorthands over the entry state"""
    m0 = C.old.self
    at0 = AT(m0.agents)
    ty, idf = H(m0, 'Agent', 'agent_type'), H(m0, 'Agent', 'id')
    return m0, at0, ty, idf, C.agent_ids, m0.agents.len


def kept_is(lv, C, upto):
    m0, at0, ty, idf, S, n = _da(C)
    return And(lv.len == klen(at0, idf, S, upto),
               FA('idx', lambda j: Implies(And(0 <= j, j < lv.len), lv.raw(j) == kat(at0, idf, S, j, upto))))


def basic_wf(m, ags):
    """clauses 1, 2, 4 of wf for an agent list `ags` (ListView) against model m"""
    tm = m.agent_type_map
    return And(FA('idx', lambda i: Implies(And(0 <= i, i < ags.len),
                                           And(ags[i] != NULL, ags[i].id < m.next_agent_id, ags[i].id >= 0,
                                               tm.has(ags[i].agent_type)))),
               FA('idx', 'idx', lambda i, j: Implies(And(0 <= i, i < j, j < ags.len), ags[i].id < ags[j].id)))


def typelist_of(lst, at, ty, idf, T, upto):
    return And(lst.len == flen(at, ty, T, upto),
               FA('idx', lambda j: Implies(And(0 <= j, j < lst.len), lst.raw(j) == fat(at, ty, idf, T, j, upto))))


def da_inv0(C):
    m0, at0, ty, idf, S, n = _da(C)
    temp, types = C.v.temp_agents, C.v.agent_types
    tat = AT(temp)
    k = C.k
    return And(
        kept_is(temp, C, k),
        basic_wf(m0, temp),
        FA('idx', 'idx', lambda j, i: Implies(And(0 <= j, j < temp.len, k <= i, i < n), temp[j].id < m0.agents[i].id)),
        # type filters of the kept list agree with those of the original for types that lost nobody
        FA('str', lambda T: Implies(ndel(at0, ty, idf, S, T, k) == 0,
                                    And(flen(tat, ty, T, temp.len) == flen(at0, ty, T, k),
                                        FA('idx', lambda j: fat(tat, ty, idf, T, j, temp.len) == fat(at0, ty, idf, T, j, k))))),
        FA('str', lambda T: Implies(ndel(at0, ty, idf, S, T, k) > 0, types.contains(T))),
        FA('idx', lambda j: Implies(And(0 <= j, j < types.len), m0.agent_type_map.has(types.raw(j)))),
    )


def da_common(C):
    """facts that hold from the assignment self.agents = temp_agents to the end"""
    m1, m0 = C.self, C.old.self
    _, at0, ty, idf, S, n = _da(C)
    temp = C.v.temp_agents
    return And(m1.agents.z == temp.z, m1.next_agent_id == m0.next_agent_id,
               m1.agent_factories.z == m0.agent_factories.z,
               kept_is(temp, C, n), basic_wf(m0, temp),
               FA('str', lambda T: m1.agent_type_map.has(T) == m0.agent_type_map.has(T)),
               FA('str', 'str', lambda T, U: Implies(And(m1.agent_type_map.has(T), m1.agent_type_map.has(U), T != U),
                                                     m1.agent_type_map[T].oid != m1.agent_type_map[U].oid)),
               FA('str', lambda T: Implies(ndel(at0, ty, idf, S, T, n) == 0,
                                           And(flen(AT(temp), ty, T, temp.len) == flen(at0, ty, T, n),
                                               FA('idx', lambda j: fat(AT(temp), ty, idf, T, j, temp.len) == fat(at0, ty, idf, T, j, n))))),
               FA('str', lambda T: Implies(ndel(at0, ty, idf, S, T, n) > 0, C.v.agent_types.contains(T))),
               FA('idx', lambda j: Implies(And(0 <= j, j < C.v.agent_types.len), m0.agent_type_map.has(C.v.agent_types.raw(j)))))


def da_type_ok(C, U, k1, skip=None):
    """per-type state of the map while the outer loop has processed agent_types[:k1]"""
    m1, m0 = C.self, C.old.self
    _, at0, ty, idf, S, n = _da(C)
    temp, types = C.v.temp_agents, C.v.agent_types
    tm1, tm0 = m1.agent_type_map, m0.agent_type_map
    done = EX('idx', lambda j: And(0 <= j, j < k1, types.raw(j) == U))
    return And(Implies(And(tm1.has(U), done), typelist_of(tm1[U], AT(temp), ty, idf, U, temp.len)),
               Implies(Not(EX('idx', lambda j: And(0 <= j, j < k1, types.raw(j) == U))), tm1.raw(U) == tm0.raw(U)))


def da_inv1(C):
    return And(da_common(C), FA('str', lambda U: da_type_ok(C, U, C.k)))


def da_inv2(C):
    T = C.v.agent_type
    m1 = C.self
    _, at0, ty, idf, S, n = _da(C)
    temp, types = C.v.temp_agents, C.v.agent_types
    return And(da_common(C),
               0 <= C.outer_k, C.outer_k < types.len, T == types.raw(C.outer_k),
               FA('str', lambda U: Implies(U != T, da_type_ok(C, U, C.outer_k))),
               m1.agent_type_map.has(T),
               # (stated under a quantifier so that it is instantiated at the *term* the goal uses for the type)
               FA('str', lambda U: Implies(U == T, typelist_of(m1.agent_type_map[U], AT(temp), ty, idf, U, C.k))))


def delete_agents_post(C):
    m1, m0 = C.self, C.old.self
    return And(wf(m1), kept_is(m1.agents, C, m0.agents.len), m1.next_agent_id == m0.next_agent_id)


contract('Model.delete_agents', file=F, props=['C14'], params=dict(self=M, agent_ids=IDSET),
         locals=dict(temp_agents=TList(A), agent_types=TList(STR)),
         requires=lambda C: wf(C.self), ensures=delete_agents_post,
         loops={0: da_inv0, 1: da_inv1, 2: da_inv2},
         modifies=['Model.agents', 'Model.agent_type_map'])

contract('Model.delete_agent', file=F, props=['C14'], params=dict(self=M, agent_id=INT),
         requires=lambda C: wf(C.self),
         ensures=lambda C: And(wf(C.self), C.self.next_agent_id == C.old.self.next_agent_id,
                               FA('idx', lambda i: Implies(And(0 <= i, i < C.self.agents.len), C.self.agents[i].id != C.agent_id))),
         modifies=['Model.agents', 'Model.agent_type_map'])
