"""C19 BOUNDED stand-in (never counted as proved): the inverse pair of util/statecompression.py executed exhaustively on the
real functions over a small scope, restricted to the format's positive core; plus the listed known findings as witnesses,
and (C20) the structural obligation that start-up tolerates unreadable state files."""
import ast
import json
import subprocess
import time
from verif.pyvc import binder

SCRIPT = r'''
import sys, json, itertools
sys.path.insert(0, sys.argv[1])
from BPTK_Py.util import statecompression as sc
N = int(sys.argv[2])
def logs(nsteps):
    """all settings logs with steps "1.0".."n.0" (as restored from JSON) whose steps share one non-empty key structure"""
    managers = [["sm"], ["sm", "sm2"]]
    scens = [["a"], ["a", "b"]]
    kinds = [["constants"], ["constants", "points"]]
    names = [["x"], ["x", "y"]]
    for ms, ss, ks, ns in itertools.product(managers, scens, kinds, names):
        def step(i):
            return {m: {s: {k: {n: float(1000 * mi + 100 * si + 10 * i + j + 0.5 * ki) for j, n in enumerate(ns)} for ki, k in enumerate(ks)} for si, s in enumerate(ss)} for mi, m in enumerate(ms)}
        yield {"%d.0" % i: step(i) for i in range(1, nsteps + 1)}
def results(nsteps):
    for ms, ss, ns in itertools.product([["sm"], ["sm", "sm2"]], [["a"], ["a", "b"]], [["x"], ["x", "y"]]):
        yield {"%d.0" % i: {m: {s: {n: {"%d.0" % i: float(1000 * mi + 100 * si + i + 0.5 * j)} for j, n in enumerate(ns)} for si, s in enumerate(ss)} for mi, m in enumerate(ms)} for i in range(1, nsteps + 1)}
n = 0; bad = []
for k in range(1, N + 1):
    for L in logs(k):
        n += 1
        try:
            back = sc.decompress_settings(sc.compress_settings(L))
        except Exception as e:
            back = "raised %s" % type(e).__name__
        if back != L and len(bad) < 3:
            bad.append(("settings", L, back))
    for L in results(k):
        n += 1
        try:
            back = sc.decompress_results(sc.compress_results(L))
        except Exception as e:
            back = "raised %s" % type(e).__name__
        if back != L and len(bad) < 3:
            bad.append(("results", L, back))
# known findings (witnesses; outside the positive core)
known = {}
def probe(name, fn):
    try:
        known[name] = fn()
    except Exception as e:
        known[name] = "raised %s: %s" % (type(e).__name__, e)
S = lambda v: {"sm": {"a": {"constants": {"x": v}}}}
probe("none_settings_step", lambda: sc.decompress_settings(sc.compress_settings({"1.0": S(1.0), "2.0": None})) == {"1.0": S(1.0), "2.0": None})
probe("empty_settings_step", lambda: sc.decompress_settings(sc.compress_settings({"1.0": {}, "2.0": S(2.0)})) == {"1.0": {}, "2.0": S(2.0)})
probe("start_or_dt_not_one", lambda: sc.decompress_settings(sc.compress_settings({"0.5": S(1.0), "1.0": S(2.0)})) == {"0.5": S(1.0), "1.0": S(2.0)})
probe("key_sets_differ", lambda: sc.decompress_settings(sc.compress_settings({"1.0": S(1.0), "2.0": {"sm": {"a": {"constants": {"y": 2.0}}}}})) == {"1.0": S(1.0), "2.0": {"sm": {"a": {"constants": {"y": 2.0}}}}})
print(json.dumps(dict(cases=n, bad=[repr(b)[:400] for b in bad], known={k: (v if isinstance(v, (bool, str)) else repr(v)) for k, v in known.items()})))
'''


def startup_obligation(prop):
    name = '%s/bptkServer.py::BptkServer.__init__/startup.tolerates-unreadable-state' % prop
    try:
        fn = binder.find_function('BPTK_Py/server/bptkServer.py', 'BptkServer.__init__')
    except (KeyError, OSError, SyntaxError) as e:
        return dict(name=name, qualname='BptkServer.__init__', status='undecided', solver='ast', secs=0, reason='unbound: %s' % e)
    loops = [n for n in ast.walk(fn) if isinstance(n, ast.For) and 'reconstruct_instance' in ast.unparse(n)]
    if len(loops) != 1:
        return dict(name=name, qualname='BptkServer.__init__', status='undecided', solver='ast', secs=0, reason='unbound: start-up restore loop not recognised')
    lp = loops[0]
    var = lp.target.id if isinstance(lp.target, ast.Name) else None
    # every use of <var>.<attr> must be dominated by a None test on <var> (continue / guarded block)
    first = lp.body[0]
    guarded = False
    if isinstance(first, ast.If):
        t = ast.unparse(first.test).replace(' ', '')
        if t in ('%sisNone' % var, '%s==None' % var, 'not%s' % var) and any(isinstance(x, ast.Continue) for x in first.body):
            guarded = True
        if t in ('%sisnotNone' % var, '%s!=None' % var, var) and len(lp.body) == 1:
            guarded = True
    return dict(name=name, qualname='BptkServer.__init__', status='discharged' if guarded else 'counterexample', solver='ast', secs=0,
                line=lp.lineno, path=['restore loop at line %d %s None entries' % (lp.lineno, 'skips' if guarded else 'dereferences')],
                model=None if guarded else dict(kind='startup', loop=ast.unparse(lp)[:300]))


def run(prop, cfg, tier, seed):
    out = []
    trusted = []
    t = time.time()
    n = 3 if tier == 'quick' else 5
    try:
        p = subprocess.run(['/venv/bin/python', '-W', 'ignore', '-c', SCRIPT, binder.REPO, str(n)], capture_output=True, text=True, timeout=900)
        res = json.loads(p.stdout.strip().splitlines()[-1])
        ok = not res['bad']
        out.append(dict(name='%s/statecompression.py::roundtrip.core' % prop, qualname='statecompression', kind='bounded',
                        bound='exhaustive: steps "1.0".."%d.0", <=2 managers x <=2 scenarios x <=2 value kinds x <=2 names, identical non-empty key structure per step' % n,
                        cases=res['cases'], secs=round(time.time() - t, 2), status='discharged' if ok else 'counterexample',
                        solver='execution of the real functions (CPython)', model=None if ok else dict(kind='roundtrip', witnesses=res['bad'])))
        known = res['known']
    except Exception as e:
        out.append(dict(name='%s/statecompression.py::roundtrip.core' % prop, qualname='statecompression', kind='bounded', status='undecided',
                        solver='cpython', secs=round(time.time() - t, 2), reason=str(e)))
        known = {}
    if prop == 'C20':
        out.append(startup_obligation(prop))
    return dict(verdicts=out, infos={}, assumptions=['the compression format is only checked on a bounded positive core (labelled bounded, never counted as proved)'],
                trusted=trusted, known_probe=known,
                functions=[dict(function='compress_settings / compress_results / decompress_settings / decompress_results (bounded)',
                                file='BPTK_Py/util/statecompression.py', obligations=1)])
