"""C16 -- server instances are isolated from one another.

The property is a 2-safety statement (responses with / without the other instances' requests are equal).  Deductively it
is decided through its FRAME form, function by function:

  every request handler addressed to instance u, and every InstanceManager operation it uses,
    (a) leaves the table entry of every other id k exactly as it was, or removes it -- and removes it only when k's own
        timeout has elapsed (the sweep), never because of what u did;
    (b) leaves the session state of every bptk object other than u's untouched;
    (c) keeps the representation invariant: different ids own different bptk objects (no two ids share an object);
    (d) calls state-changing bptk methods only on the object registered under u.

Given the per-object contracts of the bptk methods (assumed here: a bptk method reads and writes only its receiver -- the
factory hands out objects that share no mutable state), (a)-(d) imply that the state an instance's handler reads is a
function of that instance's own request history and of the clock: the responses equal those of the solo run.  The native
harness (verif/native/c16_harness.py) checks that conclusion on the running server (bounded search).
"""
from .server_classes import *  # noqa
from . import c17_timeouts as c17
from . import c15_c18_server as srv
from . import c19_state as c19
from .c17_timeouts import wf_im, expiry, inst
from .c15_c18_server import (CONTENT, RESP, REQ, GH, SRV_GLOBALS, HANDLER_MODS, RESP_FIELDS, srv_valid, isolated, isolated_new,
                             uuid_ok)

F = F_SRV

# the handlers see capture / save through their caller-side contracts (no precondition, may raise); the functions
# themselves are under contract in C19
# ... and the function body itself is verified against its full contract of C19 under an alias: capturing a snapshot changes neither
# the live session (in particular not its lock: a /save-state during a running multi-step request must not release it) nor the table
CONTRACTS['InstanceManager._get_instance_state#capture'] = CONTRACTS['InstanceManager._get_instance_state']
CONTRACTS['InstanceManager._get_instance_state'] = srv.GIS_LENIENT

# ---- the bptk session methods the handlers call: assumed per-object contracts -----------------------------------------


def _only_receiver(C):
    return FA('ref', lambda r: Implies(r != C.self.z, C.st.heap_arr_cf('bptk', 'session_state')[r] == C.old_st.heap_arr_cf('bptk', 'session_state')[r]))


_bs = contract('bptk.begin_session', trusted=True, props=['C16'], allocates=True,
               note='bptk.begin_session (C09): (re)starts the session of THIS object; reads and writes only its receiver',
               params=dict(self=B, scenarios=ANY, scenario_managers=ANY, settings=ANY, equations=ANY, agents=ANY, agent_states=ANY,
                           agent_properties=ANY, agent_property_types=ANY, individual_agent_properties=ANY),
               modifies=['bptk.session_state'], ensures=_only_receiver,
               raises={'Exception': lambda C: True}, exc_ensures={'Exception': _only_receiver})
contract('bptk.end_session', trusted=True, props=['C16'],
         note='bptk.end_session (C09): ends the session of THIS object and resets its scenarios; only its receiver',
         params=dict(self=B), modifies=['bptk.session_state'], ensures=_only_receiver,
         raises={'Exception': lambda C: True}, exc_ensures={'Exception': _only_receiver})
contract('bptk.session_results', trusted=True, props=['C16'],
         note='bptk.session_results: a function of the receiver\'s results log; writes nothing',
         params=dict(self=B, index_by_time=BOOL, flat=BOOL), returns=ANY, defaults=dict(index_by_time=sv_bool(True), flat=sv_bool(False)),
         raises={'Exception': lambda C: True})
contract('Adapter.delete_instance', trusted=True, props=['C16'], params=dict(self=TRef('Adapter'), instance_uuid=STR),
         note='external state adapter: deletes the stored state of that id only; may raise', raises={'Exception': lambda C: True})

# ---- the restore-on-demand helper: now verified, not assumed -------------------------------------------------------------


def ensure_post(C):
    im1, im0 = C.self._instance_manager, C.old.self._instance_manager
    t1, t0 = im1._instances, im0._instances
    return And(wf_im(im1), C.result == t1.has(C.instance_uuid),
               FA('str', lambda k: Implies(t0.has(k), And(t1.has(k), t1.raw(k) == t0.raw(k)))),
               FA('str', lambda k: Implies(And(t1.has(k), k != C.instance_uuid), t0.has(k))),
               FA('ref', lambda r: Implies(z3.Select(C.old_st.alloc, r),
                                           C.st.heap_arr_cf('bptk', 'session_state')[r] == C.old_st.heap_arr_cf('bptk', 'session_state')[r])),
               # an instance restored from external state gets an object of its own
               Implies(And(t1.has(C.instance_uuid), Not(t0.has(C.instance_uuid))),
                       Not(z3.Select(C.old_st.alloc, t1[C.instance_uuid]['instance'].z))),
               C.unchanged('bptk.g_destroyed'), C.g('now') == C.old.g('now'))


c = contract('BptkServer._ensure_instance_exists', file=F, props=['C16', 'C17', 'C18', 'C19'], ghost=GH, allocates=True,
             params=dict(self=SRV, instance_uuid=STR), returns=BOOL, locals=dict(instance=TRef('InstanceState')),
             requires=lambda C: And(C.self._instance_manager != NULL, wf_im(C.self._instance_manager)),
             ensures=ensure_post, raises={'Exception': lambda C: True},
             exc_ensures={'Exception': lambda C: And(wf_im(C.self._instance_manager),
                                                     FA('str', lambda k: And(C.self._instance_manager._instances.has(k) == C.old.self._instance_manager._instances.has(k),
                                                                             C.self._instance_manager._instances.raw(k) == C.old.self._instance_manager._instances.raw(k))),
                                                     FA('ref', lambda r: C.st.heap_arr_cf('bptk', 'session_state')[r] == C.old_st.heap_arr_cf('bptk', 'session_state')[r]),
                                                     C.g('now') == C.old.g('now'))},
             modifies=['InstanceManager._instances', 'bptk.session_state', 'InstanceState.state'])
c.globals = SRV_GLOBALS

# ---- handlers ------------------------------------------------------------------------------------------------------------


def handler(name, **kw):
    kw.setdefault('requires', srv_valid)
    kw.setdefault('ensures', isolated)
    kw.setdefault('raises', {'Exception': lambda C: True})
    kw.setdefault('exc_ensures', {'Exception': isolated})
    kw.setdefault('modifies', HANDLER_MODS)
    kw.setdefault('ghost_mods', ['bptk.g_destroyed', '$steps_run'])
    c = contract('BptkServer.' + name, file=F, props=['C16'], ghost=GH, allocates=True, returns=RESP, **kw)
    c.globals = SRV_GLOBALS
    return c


handler('_begin_session_resource', params=dict(self=SRV, instance_uuid=STR),
        locals=dict(content=CONTENT, settings=ANY, equations=ANY, agents=ANY, agent_states=ANY, agent_properties=ANY,
                    agent_property_types=ANY, individual_agent_properties=ANY))
handler('_end_session_resource', params=dict(self=SRV, instance_uuid=STR))
handler('_session_results_resource', params=dict(self=SRV, instance_uuid=STR, flat=BOOL), defaults=dict(flat=sv_bool(False)))
handler('_flat_session_results_resource', params=dict(self=SRV, instance_uuid=STR))
handler('_keep_alive_resource', params=dict(self=SRV, instance_uuid=STR))
handler('_stop_instance_resource', params=dict(self=SRV, instance_uuid=STR),
        ensures=lambda C: And(isolated(C), Not(C.self._instance_manager._instances.has(C.instance_uuid))))


def srv_valid_new(C):
    return And(srv_valid(C), uuid_ok(C, C.self._instance_manager))


handler('_start_instance_resource', params=dict(self=SRV), locals=dict(content=CONTENT, timeout=TIMEOUT, response_data=ANY),
        requires=srv_valid_new, ensures=isolated_new, exc_ensures={'Exception': isolated_new})


def start_instances_inv(C):
    im = C.self._instance_manager
    return And(srv.srv_valid_now(C), im != NULL, wf_im(im), uuid_ok(C, im), isolated_new(C),
               C.v.instance_uuids.len == C.k,
               # identifiers still to be issued were never keys of the table this request started with
               FA('ref', lambda r: Implies(Not(z3.Select(C.st.alloc, r)), Not(C.old.self._instance_manager._instances.has(C.st.heap_arr_cf('UUID', 'hex')[r]))),
                  pats=lambda r: [C.st.heap_arr_cf('UUID', 'hex')[r]]),
               # the ids handed out so far are in the table and pairwise different
               FA('idx', lambda i: Implies(And(0 <= i, i < C.k), im._instances.has(C.v.instance_uuids.raw(i)))))


handler('_start_instances_resource', params=dict(self=SRV),
        locals=dict(content=CONTENT, timeout=TIMEOUT, instance_uuids=TList(STR), instances=INT, response_data=ANY),
        requires=srv_valid_new, loops={0: start_instances_inv},
        ensures=isolated_new, exc_ensures={'Exception': isolated_new})
