"""C03 -- the XMILE transpiler preserves the meaning of every supported equation.

Structure of the argument (DESIGN 3 / C03):

  L1  emit contracts (parametric, all operand texts): the real operator table of generator/py/py.py, applied to opaque
      operand texts, emits  L <tok> R  with the python token of the XMILE operator, '( B )' for the explicit-parentheses node,
      '(not B)' for NOT, and if_ emits a fully parenthesised conditional expression.  Binary operators are therefore
      printed FLAT: the generated text is the in-order token sequence of the IR.
  L2  precedence lemma (finite, complete for operator chains): for every ordered pair of binary operators (and a leading
      unary minus) CPython groups  x o1 y o2 z  exactly as XMILE's precedence / associativity table does.  Together with L1
      this gives: a flat chain is re-parsed by python into the XMILE grouping, whatever nesting the right-recursive PEG produced.
      Pairs of comparison operators are the exception (python chains them): obligation L2c requires that the front end
      never emits two comparisons in one flat chain (it rejects  a < b < c).
  L3  BOUNDED translation validation on the real front end (grammar, visitor, makeAbsolute, generator): every arithmetic
      tree up to depth 2 over a small leaf set (exhaustive) and random trees up to depth 4 with IF / AND / OR / NOT /
      comparisons / built-ins, each in several spellings (whitespace, letter case, redundant parentheses, name shapes):
      a source that is accepted must translate to text that is equal, for ALL variable values (z3 reals, library functions
      uninterpreted), to the reference semantics of the tree; a rejected source is fine (fails loudly).
L1/L2 are exhaustive over the finite tables; L3 is a bounded stand-in and never counted as proved.
"""
import ast
import itertools
import json
import os
import random
import subprocess
import tempfile
import time

import z3

from verif import c03_trees as T

ROOT = os.path.dirname(os.path.dirname(os.path.abspath(__file__)))
REPO = os.environ.get('VERIF_REPO', '/repo')
FILES = ['BPTK_Py/sdcompiler/generator/py/py.py', 'BPTK_Py/sdcompiler/parsers/smile/grammar.py', 'BPTK_Py/sdcompiler/plugins/makeAbsolute.py',
         'BPTK_Py/sdcompiler/plugins/sanitizeNames.py']

PYTOK = {'+': '+', '-': '-', '*': '*', '/': '/', '^': '**', 'mod': '%', '=': '==', '<>': '!=', '<': '<', '<=': '<=', '>': '>', '>=': '>=', 'and': 'and', 'or': 'or'}
# XMILE: (precedence, right associative?) of the binary operators, by their python token
XPREC = {'**': (8, True), '*': (6, False), '/': (6, False), '%': (6, False), '+': (5, False), '-': (5, False),
         '<': (4, False), '<=': (4, False), '>': (4, False), '>=': (4, False), '==': (3, False), '!=': (3, False), 'and': (2, False), 'or': (1, False)}
CMPTOK = ['<', '<=', '>', '>=', '==', '!=']

_UF = {}


def uf(name, n):
    if (name, n) not in _UF:
        _UF[(name, n)] = z3.Function('f_' + name.replace('.', '_'), *([z3.RealSort()] * n), z3.RealSort())
    return _UF[(name, n)]


def var(name):
    return z3.Real('v_' + name)


class Bad(Exception):
    pass


def truthy(x):
    return x != 0


def b2r(c):
    return z3.If(c, z3.RealVal(1), z3.RealVal(0))


def py_to_z3(node, names):
    """CPython AST of a generated equation text -> z3 real (python value semantics; bools are 1/0)"""
    if isinstance(node, ast.Expression):
        return py_to_z3(node.body, names)
    if isinstance(node, ast.Constant):
        if isinstance(node.value, bool):
            return z3.RealVal(1 if node.value else 0)
        if isinstance(node.value, (int, float)):
            return z3.RealVal(repr(float(node.value)))
        raise Bad('constant %r' % (node.value,))
    if isinstance(node, ast.Name):
        if node.id == 't':
            return var('TIME')
        raise Bad('free name %s' % node.id)
    if isinstance(node, ast.Attribute):
        s = ast.unparse(node)
        if s in ('self.dt', 'self.starttime', 'self.stoptime'):
            return var({'self.dt': 'DT', 'self.starttime': 'STARTTIME', 'self.stoptime': 'STOPTIME'}[s])
        if s == 'math.pi':
            return var('PI')
        raise Bad('attribute %s' % s)
    if isinstance(node, ast.BinOp):
        a, b = py_to_z3(node.left, names), py_to_z3(node.right, names)
        if isinstance(node.op, ast.Add):
            return a + b
        if isinstance(node.op, ast.Sub):
            return a - b
        if isinstance(node.op, ast.Mult):
            return a * b
        if isinstance(node.op, ast.Div):
            return a / b
        if isinstance(node.op, ast.Mod):
            return uf('mod', 2)(a, b)
        if isinstance(node.op, ast.Pow):
            return uf('pow', 2)(a, b)
        raise Bad('binop')
    if isinstance(node, ast.UnaryOp):
        a = py_to_z3(node.operand, names)
        if isinstance(node.op, ast.USub):
            return -a
        if isinstance(node.op, ast.UAdd):
            return a
        if isinstance(node.op, ast.Not):
            return b2r(z3.Not(truthy(a)))
        raise Bad('unary')
    if isinstance(node, ast.BoolOp):
        vals = [py_to_z3(v, names) for v in node.values]
        acc = vals[-1]
        for v in reversed(vals[:-1]):
            acc = z3.If(truthy(v), acc, v) if isinstance(node.op, ast.And) else z3.If(truthy(v), v, acc)
        return acc
    if isinstance(node, ast.Compare):
        left = py_to_z3(node.left, names)
        conds = []
        for op, c in zip(node.ops, node.comparators):
            r = py_to_z3(c, names)
            k = {ast.Lt: left < r, ast.LtE: left <= r, ast.Gt: left > r, ast.GtE: left >= r, ast.Eq: left == r, ast.NotEq: left != r}.get(type(op))
            if k is None:
                raise Bad('comparison')
            conds.append(k)
            left = r
        return b2r(z3.And(*conds))
    if isinstance(node, ast.IfExp):
        return z3.If(truthy(py_to_z3(node.test, names)), py_to_z3(node.body, names), py_to_z3(node.orelse, names))
    if isinstance(node, ast.Call):
        f = ast.unparse(node.func)
        if f == 'self.memoize' and len(node.args) == 2 and isinstance(node.args[0], ast.Constant) and ast.unparse(node.args[1]) == 't':
            names.add(node.args[0].value)
            return var('x:' + node.args[0].value)
        args = node.args
        if f in ('min', 'max'):
            if len(args) == 1 and isinstance(args[0], ast.List):
                args = args[0].elts
            vals = [py_to_z3(a, names) for a in args]
            acc = vals[0]
            for v in vals[1:]:
                acc = z3.If((v < acc) if f == 'min' else (v > acc), v, acc)
            return acc
        if f == 'abs' and len(args) == 1:
            a = py_to_z3(args[0], names)
            return z3.If(a < 0, -a, a)
        if node.keywords:
            raise Bad('keywords in call %s' % f)
        return uf(f, len(args))(*[py_to_z3(a, names) for a in args])
    raise Bad(type(node).__name__)


def refvar(expected_names):
    def v(name):
        if name in ('TIME', 'DT', 'STARTTIME'):
            return var(name)
        return var('x:' + expected_names.get(name, name))
    return v


def equal_for_all(a, b, timeout_ms=4000):
    if z3.eq(z3.simplify(a), z3.simplify(b)):
        return 'yes', None
    s = z3.Solver()
    s.set('timeout', timeout_ms)
    s.add(a != b)
    r = s.check()
    if r == z3.unsat:
        return 'yes', None
    if r == z3.sat:
        m = s.model()
        return 'no', {str(d): str(m[d]) for d in m.decls() if d.arity() == 0}
    return 'unknown', s.reason_unknown()


# ---- L2: precedence lemma ---------------------------------------------------------------------------------------------

def grouping_python(o1, o2):
    """'left' if  x o1 y o2 z  parses as (x o1 y) o2 z in CPython, 'right' if x o1 (y o2 z), 'chain' otherwise"""
    e = ast.parse('x %s y %s z' % (o1, o2), mode='eval').body
    d = ast.dump(e)
    left = ast.dump(ast.parse('(x %s y) %s z' % (o1, o2), mode='eval').body)
    right = ast.dump(ast.parse('x %s (y %s z)' % (o1, o2), mode='eval').body)
    if d == left and d != right:
        return 'left'
    if d == right and d != left:
        return 'right'
    if d == left == right:
        return 'both'
    return 'chain'


def grouping_xmile(o1, o2):
    p1, r1 = XPREC[o1]
    p2, _ = XPREC[o2]
    if p1 > p2:
        return 'left'
    if p1 < p2:
        return 'right'
    return 'right' if r1 else 'left'


def precedence_obligations():
    out = []
    for o1, o2 in itertools.product(sorted(XPREC), repeat=2):
        if o1 in CMPTOK and o2 in CMPTOK:
            continue   # L2c
        gp, gx = grouping_python(o1, o2), grouping_xmile(o1, o2)
        if o1 == o2 and o1 in ('and', 'or'):
            gp = 'both'   # CPython flattens x and y and z into one n-ary node: associative, either grouping has the same value
        out.append(('L2.pair[%s,%s]' % (o1, o2), gp == gx or gp == 'both', 'x %s y %s z: CPython groups %s, XMILE groups %s' % (o1, o2, gp, gx)))
    for o in sorted(XPREC):
        if o in ('and', 'or'):
            continue
        # unary minus in front of a chain: XMILE binds ^ tighter than unary minus, everything else looser
        e = ast.dump(ast.parse('-x %s y' % o, mode='eval').body)
        tight = ast.dump(ast.parse('(-x) %s y' % o, mode='eval').body)
        loose = ast.dump(ast.parse('-(x %s y)' % o, mode='eval').body)
        want = loose if o == '**' else tight
        out.append(('L2.unary-minus[%s]' % o, e == want, '-x %s y: CPython %s, XMILE %s' % (o, 'binds the minus first' if e == tight else 'binds the operator first',
                                                                                          'binds the operator first' if o == '**' else 'binds the minus first')))
        e = ast.dump(ast.parse('x %s -y' % o, mode='eval').body)
        out.append(('L2.unary-minus-right[%s]' % o, e == ast.dump(ast.parse('x %s (-y)' % o, mode='eval').body), 'x %s -y' % o))
    return out


# ---- L1: emit contracts ------------------------------------------------------------------------------------------------

def emit_obligations(tables):
    out = []
    ops = tables['operators']
    for xop, tok in sorted(PYTOK.items()):
        got = ops.get(xop)
        want = '<<L>> %s <<R>>' % tok
        out.append(('L1.emit[%s]' % xop, got is not None and ' '.join(got.split()) == want, 'operator %r emits %r, contract: %r' % (xop, got, want)))
    got = ops.get('()')
    out.append(('L1.emit[()]', got is not None and got.replace(' ', '') == '(<<L>>)', 'explicit parentheses emit %r' % got))
    got = ops.get('not')
    out.append(('L1.emit[not]', got is not None and got.replace(' ', '') == '(not<<L>>)'.replace(' ', '') or (got or '').replace(' ', '') == '(not(<<L>>))', 'NOT emits %r' % got))
    got = tables.get('if', '')
    ok = False
    try:
        e = ast.parse(got.replace('<<C>>', 'c1 or c2').replace('<<T>>', 't1 if t2 else t3').replace('<<E>>', 'e1 if e2 else e3'), mode='eval').body
        w = ast.parse('((t1 if t2 else t3) if (c1 or c2) else (e1 if e2 else e3))', mode='eval').body
        ok = ast.dump(e) == ast.dump(w)
    except SyntaxError:
        pass
    out.append(('L1.emit[if]', ok, 'IF emits %r: every part must be used as a unit' % got))
    # what a call-like node emits is pasted as an operand into flat chains: it must itself be a unit
    def result_unit(emitted):
        e = emitted
        for i, ph in enumerate(['<<C>>', '<<T>>', '<<E>>'] + ['<<A%d>>' % j for j in range(4)]):
            e = e.replace(ph, 'o%d' % i)
        for ctx in ('w ** %s ** w2', 'w * %s * w2', 'w - %s - w2', 'w < %s', 'w and %s or w2', '- %s', 'w + %s'):
            try:
                if ast.dump(ast.parse((ctx % e).strip(), mode='eval')) != ast.dump(ast.parse((ctx % ('(' + e + ')')).strip(), mode='eval')):
                    return 'pasted into %r it reads %r' % (ctx % '..', (ctx % e).strip())
            except SyntaxError:
                pass
        return None
    bad = result_unit(got)
    out.append(('L1.result-unit[if]', bad is None, 'the text emitted for IF is not a unit: %s' % bad))
    for key, emitted in sorted(tables.get('builtins_emit', {}).items()):
        if not emitted.startswith('ERR'):
            bad = result_unit(emitted)
            out.append(('L1.result-unit[%s]' % key, bad is None, 'the text emitted for %s is not a unit: %s' % (key, bad)))
    # built-ins that paste their operands into a formula: every operand must be used as a unit, whatever arithmetic
    # shape it has (the generator prints binary operators flat, so an operand text may be any operator chain)
    shapes = ['p + q', 'p - q', 'p * q', 'p / q', 'p ** q', ' - p', 'p % q']
    for key, emitted in sorted(tables.get('builtins_emit', {}).items()):
        if emitted.startswith('ERR'):
            continue
        n = int(key.split('/')[1])
        bad = None
        for i in range(n):
            for sh in shapes:
                subst = lambda txt, wrap: txt.replace('<<A%d>>' % i, ('(' + sh + ')') if wrap else sh)
                plain, wrapped = subst(emitted, False), subst(emitted, True)
                for j in range(n):
                    plain, wrapped = plain.replace('<<A%d>>' % j, 'o%d' % j), wrapped.replace('<<A%d>>' % j, 'o%d' % j)
                try:
                    same = ast.dump(ast.parse(plain.strip(), mode='eval')) == ast.dump(ast.parse(wrapped.strip(), mode='eval'))
                except SyntaxError:
                    same = True     # python refuses the module: fails loudly
                if not same and bad is None:
                    bad = 'argument %d of %s with the text %r is not used as a unit: %r' % (i, key, sh, plain.strip())
        out.append(('L1.builtin-unit[%s]' % key, bad is None, bad))
    # the table contains no operator outside the contract (a new entry needs a contract)
    extra = sorted(set(ops) - set(PYTOK) - {'()', 'not', 'exp'})
    out.append(('L1.table-closed', not extra, 'operators without an emit contract: %s' % extra))
    return out


# ---- L3: bounded translation validation ---------------------------------------------------------------------------------

def cases(tier, seed):
    rnd = random.Random(seed)
    out = []   # (tree, source, kind)
    # exhaustive arithmetic depth 2 over a small leaf set, canonical spelling
    leaves = [['var', 'alpha'], ['var', 'beta'], ['num', 2.0]]
    for t in T.arith_depth(2, leaves):
        out.append((t, T.show(t), 'arith-depth2'))
    # all comparison / boolean pairs
    a, b, c, d = ['var', 'alpha'], ['var', 'beta'], ['var', 'gamma'], ['var', 'delta']
    for o1 in T.CMP:
        out.append((['cmp', o1, a, b], T.show(['cmp', o1, a, b]), 'comparison'))
        out.append((['not', ['cmp', o1, a, b]], T.show(['not', ['cmp', o1, a, b]]), 'not'))
        for o2 in T.CMP:
            for k in ('and', 'or'):
                t = [k, ['cmp', o1, a, b], ['cmp', o2, c, d]]
                out.append((t, T.show(t), 'boolean'))
            t = ['if', ['cmp', o1, ['bin', '+', a, b], c], ['bin', '-', a, ['bin', '-', b, c]], ['if', ['cmp', o2, a, d], b, ['neg', c]]]
            out.append((t, T.show(t), 'if'))
    for op in T.BIN:
        t = ['bin', op, ['bin', '*', a, ['num', 2.0]], ['if', ['cmp', '>', c, d], ['num', 5.0], ['bin', '+', b, ['num', 2.0]]]]
        out.append((t, T.show(t, dict(bare_if=True)), 'bare-if'))
    for k1, k2, k3 in itertools.product(('and', 'or'), repeat=3):
        cs = [['cmp', '>', a, b], ['cmp', '<', c, d], ['cmp', '=', a, c], ['cmp', '<>', b, d]]
        for shape in (lambda: [k1, cs[0], [k2, cs[1], [k3, cs[2], cs[3]]]], lambda: [k3, [k2, [k1, cs[0], cs[1]], cs[2]], cs[3]]):
            t = ['if', shape(), ['num', 1.0], ['num', 0.0]]
            out.append((t, T.show(t), 'boolean-chain'))
    for f, n in sorted(T.CALLS.items()):
        args = [['bin', '-', a, b], ['bin', '*', c, ['num', 2.0]]][:n]
        t = ['bin', '+', ['call', f, args], ['num', 1.0]]
        out.append((t, T.show(t), 'builtin'))
    # random deeper trees, several spellings each
    n_rand = 1500 if tier == 'thorough' else 400
    for _ in range(n_rand):
        t = T.random_tree(rnd, rnd.choice([2, 3, 3, 4]))
        for s in set(T.spellings(t, rnd, 2)):
            out.append((t, s, 'random'))
    # spellings of the exhaustive part (sample)
    for t in rnd.sample(T.arith_depth(2, leaves), 150):
        for s in set(T.spellings(t, rnd, 2)):
            out.append((t, s, 'spelling'))
    return out


def extract(sources, names):
    d = tempfile.mkdtemp(prefix='c03_')
    req, out = os.path.join(d, 'req.json'), os.path.join(d, 'out.json')
    with open(req, 'w') as f:
        json.dump(dict(sources=sources, names=names), f)
    env = dict(os.environ, PYTHONPATH=REPO + os.pathsep + ROOT, PYTHONWARNINGS='ignore', VERIF_REPO=REPO)
    try:
        p = subprocess.run(['timeout', '900', '/venv/bin/python', '-W', 'ignore', os.path.join(ROOT, 'verif/native/c03_extract.py'), req, out],
                           capture_output=True, text=True, env=env, cwd=ROOT)
        if p.returncode != 0 or not os.path.exists(out):
            raise RuntimeError('extraction failed rc=%s: %s' % (p.returncode, (p.stderr or p.stdout)[-400:]))
        with open(out) as f:
            return json.load(f)
    finally:
        import shutil
        shutil.rmtree(d, ignore_errors=True)


def _file_digest(rel):
    import hashlib
    try:
        with open(os.path.join(REPO, rel), 'rb') as f:
            return hashlib.sha256(f.read()).hexdigest()[:16]
    except OSError:
        return None


def run(prop, cfg, tier, seed):
    t0 = time.time()
    cs = cases(tier, seed)
    chains = ['alpha %s beta %s gamma' % (o1, o2) for o1 in T.CMP for o2 in T.CMP]
    unsupported = ['FOO(alpha)', 'alpha + NOSUCHFUNCTION(beta, 2)']
    try:
        res = extract([s for _, s, _ in cs] + chains + unsupported, T.VARS + [v.upper() for v in T.VARS] + [v.title() for v in T.VARS])
    except Exception as e:
        return dict(verdicts=[dict(name='%s/extract' % prop, qualname='extract', status='crash', reason=str(e), kind='bounded')])
    verdicts = []
    sv = 'z3-%s' % z3.get_version_string()
    # L1 / L2: exhaustive over finite tables -> proof obligations
    for (name, ok, detail) in emit_obligations(res['tables']) + precedence_obligations():
        verdicts.append(dict(name='%s/%s' % (prop, name), qualname=name.split('[')[0], status='discharged' if ok else 'counterexample', kind='proof',
                             reason=None if ok else detail, secs=0.0, solver='cpython-ast'))
    # L2c: comparison chains never reach the generator
    results = res['results']
    n = len(cs)
    bad_chain = [(s, r) for s, r in zip(chains, results[n:n + len(chains)]) if r['ok']]
    okc = True
    detail = None
    for s, r in bad_chain:
        try:
            e = ast.parse(r['text'].strip(), mode='eval').body
            if isinstance(e, ast.Compare) and len(e.ops) > 1:
                okc, detail = False, '%r is accepted and emitted as the python comparison chain %r' % (s, r['text'])
        except SyntaxError:
            pass
    verdicts.append(dict(name='%s/L2c.no-comparison-chains' % prop, qualname='L2c', status='discharged' if okc else 'counterexample', kind='proof',
                         reason=detail, secs=0.0, solver='cpython-ast'))
    # unsupported functions must fail loudly
    loud = [(s, r) for s, r in zip(unsupported, results[n + len(chains):]) if r['ok']]
    verdicts.append(dict(name='%s/unsupported-function-fails-loudly' % prop, qualname='loud', status='discharged' if not loud else 'counterexample', kind='proof',
                         reason=None if not loud else '%r is not rejected: it is translated to %r (a value) with only a log message %s' % (loud[0][0], loud[0][1]['text'], loud[0][1].get('warnings')),
                         secs=0.0, solver='front-end'))
    # L3
    silent_zero = []
    fams = {}
    failing = []
    expected = {v: res['names'].get(v, v) for v in T.VARS}
    for (tree, src, kind), r in zip(cs, results[:n]):
        fam = fams.setdefault(kind, dict(cases=0, accepted=0, bad=[], undec=[], secs=0.0))
        fam['cases'] += 1
        if not r['ok']:
            continue
        if any('has not been implemented yet' in w for w in r.get('warnings', [])):
            # the front end replaced an unknown function by 0 with only a log line: that is the obligation
            # unsupported-function-fails-loudly (one defect, reported once), not a translation error of this source
            silent_zero.append(src)
            continue
        fam['accepted'] += 1
        ts = time.time()
        try:
            names = set()
            try:
                got = py_to_z3(ast.parse(r['text'].strip(), mode='eval'), names)
            except SyntaxError:
                continue    # python rejects the module when it is loaded: fails loudly
            want = T.to_z3(tree, z3, refvar(expected), uf)
            v, d = equal_for_all(got, want)
            stray = sorted(x for x in names if x not in expected.values())
            if v == 'yes' and stray:
                v, d = 'no', 'refers to %s, the model defines %s' % (stray, sorted(expected.values()))
        except Bad as e:
            v, d = 'unknown', 'untranslatable: %s' % e
        except Exception as e:
            v, d = 'unknown', '%s: %s' % (type(e).__name__, e)
        fam['secs'] += time.time() - ts
        if v == 'no':
            fam['bad'].append((src, 'XMILE %r is translated to %r, which differs from the XMILE value for %s' % (src, r['text'][:200], d)))
            failing.append(dict(source=src, tree=tree, text=r['text'], kind=kind, detail=str(d)[:300]))
        elif v != 'yes':
            fam['undec'].append((src, d))
    for kind, f in sorted(fams.items()):
        # undecided cases are left to the native evaluation (harness); they never count as violations
        st = 'counterexample' if f['bad'] else 'discharged'
        verdicts.append(dict(name='%s/L3.%s' % (prop, kind), qualname='L3.' + kind, status=st, kind='bounded',
                             bound='%d sources (%d accepted by the front end, %d left to numeric evaluation); all variable values' % (f['cases'], f['accepted'], len(f['undec'])),
                             cases=f['cases'], secs=round(f['secs'], 2), solver=sv, reason=(f['bad'][0][1] if f['bad'] else None),
                             model=(dict(failing_sources=[s for s, _ in f['bad']][:10]) if f['bad'] else None)))
    os.makedirs(os.path.join(ROOT, 'replays'), exist_ok=True)
    with open(os.path.join(ROOT, 'replays', 'C03.failing.json'), 'w') as fh:
        json.dump(failing[:50], fh)
    infos = {'c03:' + fl: dict(file=fl, line=1, digest=_file_digest(fl), n=(len(verdicts) if fl == FILES[0] else 0)) for fl in FILES}
    return dict(verdicts=verdicts, infos=infos,
                trusted=['CPython ast.parse is the semantics of the generated text', 'parsimonious (PEG engine) executed, not modelled',
                         'XMILE v1.0 section 3.3 operator table as written in verif/c03_trees.py is the reference semantics',
                         'library functions named by the built-ins (np.exp, np.log, math.sin, ...) are uninterpreted: the contract is that the designated function is applied to the operand'],
                assumptions=['meta-lemma (operator-precedence grammars): the parse of a flat operator chain is determined by the pairwise grouping decisions; L1+L2 then give the XMILE grouping for chains of any length',
                             'floats as reals; MOD = python % (sign convention for negative operands not fixed by XMILE)',
                             'bounded (L3): %d sources in %.1fs' % (len(cs), time.time() - t0)])
