"""C15 structural obligations generated from the AST of bptkServer.py on every run:
  routes/<handler>.wrapped    every rule registered in BptkServer.__init__ other than the four public ones is bound to a
                              method whose outermost decorator is token_required
  calls/<helper>.guarded      state-restoring helpers are only called from decorated methods
These are syntactic facts about the real source (decidable exactly), reported as obligations."""
import ast
import time
from verif.pyvc import binder

PUBLIC = {'/', '/healthy', '/metrics', '/full-metrics'}
FILE = 'BPTK_Py/server/bptkServer.py'


def run(prop, cfg, tier, seed):
    t0 = time.time()
    verdicts = []
    tree, _ = binder.parse_file(FILE)
    cls = [n for n in tree.body if isinstance(n, ast.ClassDef) and n.name == 'BptkServer']
    if not cls:
        return dict(verdicts=[dict(name='%s/routes' % prop, qualname='routes', status='undecided', solver='ast', secs=0,
                                   reason='class BptkServer not found')])
    cls = cls[0]
    methods = {n.name: n for n in cls.body if isinstance(n, ast.FunctionDef)}
    init = methods.get('__init__')
    routes = []
    for n in ast.walk(init) if init else []:
        # self.route(rule, methods=[...], ...)(self.<handler>)
        if isinstance(n, ast.Call) and isinstance(n.func, ast.Call) and isinstance(n.func.func, ast.Attribute) \
                and n.func.func.attr in ('route', 'add_url_rule') and n.args:
            rule = n.func.args[0].value if n.func.args and isinstance(n.func.args[0], ast.Constant) else None
            h = n.args[0]
            hname = h.attr if isinstance(h, ast.Attribute) else None
            routes.append((rule, hname, n.lineno))
        elif isinstance(n, ast.Call) and isinstance(n.func, ast.Attribute) and n.func.attr == 'add_url_rule':
            rule = n.args[0].value if n.args and isinstance(n.args[0], ast.Constant) else None
            routes.append((rule, None, n.lineno))
    if not routes:
        verdicts.append(dict(name='%s/bptkServer.py::routes/none-found' % prop, qualname='routes', status='undecided',
                             solver='ast', secs=0, reason='no route registrations recognised'))

    def decorated(fn):
        return bool(fn.decorator_list) and ast.unparse(fn.decorator_list[0]) == 'token_required'
    for rule, hname, line in routes:
        name = '%s/bptkServer.py::routes/%s.wrapped' % (prop, hname or ('line%d' % line))
        if rule is None or hname is None or hname not in methods:
            verdicts.append(dict(name=name, qualname='routes', status='undecided', solver='ast', secs=0, line=line,
                                 reason='route registration of an unrecognised shape'))
            continue
        ok = (rule in PUBLIC) or decorated(methods[hname])
        verdicts.append(dict(name=name, qualname='routes', status='discharged' if ok else 'counterexample', solver='ast',
                             secs=0, line=line, path=['rule %s -> %s' % (rule, hname)],
                             model=None if ok else {'rule': rule, 'handler': hname}))
    # public rules must be exactly the four named by the property
    pub = sorted(r for r, h, _ in routes if r in PUBLIC)
    verdicts.append(dict(name='%s/bptkServer.py::routes/public-set' % prop, qualname='routes', solver='ast', secs=0,
                         status='discharged' if set(pub) <= PUBLIC else 'counterexample'))
    # helpers with side effects on instances / external state: only reachable behind an accepted token
    for helper in ('_ensure_instance_exists',):
        for mname, fn in methods.items():
            calls = [c for c in ast.walk(fn) if isinstance(c, ast.Call) and isinstance(c.func, ast.Attribute) and c.func.attr == helper]
            if calls and mname != helper:
                ok = decorated(fn)
                verdicts.append(dict(name='%s/bptkServer.py::calls/%s-from-%s.guarded' % (prop, helper, mname), qualname='routes',
                                     status='discharged' if ok else 'counterexample', solver='ast', secs=0, line=fn.lineno))
    # the decorator must not be bypassed by functools tricks: token_required is defined in the class and wraps with `decorated`
    tr = methods.get('token_required')
    ok = tr is not None and any(isinstance(n, ast.FunctionDef) and n.name == 'decorated' for n in ast.walk(tr)) and \
        any(isinstance(n, ast.Return) and isinstance(n.value, ast.Name) and n.value.id == 'decorated' for n in ast.walk(tr))
    verdicts.append(dict(name='%s/bptkServer.py::token_required/returns-decorated' % prop, qualname='routes', solver='ast', secs=0,
                         status='discharged' if ok else 'counterexample'))
    for v in verdicts:
        v['secs'] = round((time.time() - t0) / max(1, len(verdicts)), 5)
    return dict(verdicts=verdicts,
                trusted=['Flask dispatch calls exactly the registered view function and maps uncaught exceptions to 500',
                         "Flask's implicit /static rule and automatic OPTIONS responses never enter a view function (observed only by the native harness)"],
                functions=[dict(function='BptkServer.__init__ (route table)', file=FILE, line=init.lineno if init else None,
                                obligations=len(verdicts))])
