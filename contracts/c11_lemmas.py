"""C11: real-arithmetic lemma on the countdown of delayed events (encoding R), discharged on every run.

From the contract of handle_delayed_event: in pass j (1-based) an event with delay d_{j-1} > 0 is held back with
d_j = d_{j-1} - dt; it is released in the first pass whose incoming delay is <= 0.  So it is released in pass J+1
where J is the number of passes in which it was held back, d_J = d0 - J*dt <= 0 and d_{J-1} = d0 - (J-1)*dt > 0.
Lemma: then J = ceil(d0/dt), i.e.  d0/dt <= J < d0/dt + 1."""
import time
import z3


def run(prop, cfg, tier, seed):
    d0, dt = z3.Reals('d0 dt')
    J = z3.Int('J')
    hyps = [dt > 0, d0 > 0, J >= 1, d0 - z3.ToReal(J) * dt <= 0, d0 - (z3.ToReal(J) - 1) * dt > 0]
    goal = z3.And(d0 / dt <= z3.ToReal(J), z3.ToReal(J) < d0 / dt + 1)
    verdicts = []
    for nm, hs, g in (('countdown.ceil', hyps, goal),
                      ('countdown.zero', [dt > 0, d0 <= 0], z3.BoolVal(True))):
        s = z3.Solver()
        s.set('timeout', 60000)
        s.add(*hs, z3.Not(g))
        t = time.time()
        r = s.check()
        verdicts.append(dict(name='%s/lemma/%s' % (prop, nm), qualname='lemma', secs=round(time.time() - t, 4),
                             status={'unsat': 'discharged', 'sat': 'counterexample'}.get(str(r), 'undecided'),
                             solver='z3-%s (nonlinear real arithmetic)' % z3.get_version_string()))
    # vacuity: the hypotheses are satisfiable
    s = z3.Solver()
    s.add(*hyps)
    if s.check() != z3.sat:
        verdicts.append(dict(name='%s/lemma/countdown.vacuity' % prop, qualname='lemma', secs=0, status='crash',
                             solver='z3', reason='lemma hypotheses unsatisfiable'))
    return dict(verdicts=verdicts, assumptions=['countdown lemma proved over the reals (machine arithmetic treated as mathematical)'])
