"""Per-property configuration: which contracts / engines decide it, its replay harness, what is not decided."""

K1_C14 = ['Model.agent', 'Model.agent_ids', 'Model.agent_count', 'Model.agent_count_per_state', 'Model.next_agent',
          'Model.random_agents', 'Model.create_agent', 'Model.create_agents', 'Model.delete_agents',
          'Model.delete_agent', 'Model.configure_agents', 'Model.reset_cache', 'Model.reset',
          'Model.register_agent_factory']

PROPS = {
    'C14': dict(
        mods=['contracts.c14_registry'], k1=K1_C14, level='proof',
        harness='verif/native/c14_harness.py', harness_budget=(20, 90),
        explanation='representation invariant wf_registry + whole-view postconditions on every registry mutator and '
                    'query of Model, discharged function by function from the real source of BPTK_Py/modeling/model.py',
        assumptions=[
            'Agent.id and Agent.agent_type do not change after create_agent returns (immutable fields; user code)',
            'the factory registered under type T builds agents whose agent_type settles to T (precondition of register_agent_factory)',
            'Python ints are mathematical integers (true); dict iteration = insertion order; single-threaded execution',
            'log(...) calls are dropped by the extraction (logger only writes to a file / prints)',
        ],
        not_decided=[
            'not decided: re-registering a factory for a type that still has live agents (excluded by precondition)',
            'not decided: Model.reset() on a model without a data collector (precondition data_collector is not None)',
        ]),
}
