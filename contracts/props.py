"""Per-property configuration: which contracts / engines decide it, its replay harness, what is not decided."""

K1_C14 = ['Model.agent', 'Model.agent_ids', 'Model.agent_count', 'Model.agent_count_per_state', 'Model.next_agent',
          'Model.random_agents', 'Model.create_agent', 'Model.create_agents', 'Model.delete_agents',
          'Model.delete_agent', 'Model.configure_agents', 'Model.reset_cache', 'Model.reset',
          'Model.register_agent_factory']

K1_C13 = ['DataCollector.collect_agent_statistics', 'DataCollector.record_event', 'DataCollector.statistics',
          'DataCollector.reset']

K1_C11 = ['Scheduler.handle_delayed_event', 'Agent.receive_event', 'Agent.handle_events', 'Model.enqueue_event',
          'Model.broadcast_event', 'SimultaneousScheduler.run_step', 'Model.agent']
K1_C12 = ['SimultaneousScheduler.run_step', 'SimultaneousScheduler.run', 'Model.run', 'Model.run_step',
          'Agent.handle_events']

_ABM_ASSUME = [
    'user callbacks (act, begin_round, end_round, event handlers, factories) follow the callback contract: they may change agent state/properties and enqueue Event objects; they do not change the registry, inboxes, handler tables, the scheduler, run specs, delays of queued events, or ids/types of agents',
    "the model's scheduler is the SimultaneousScheduler; progress_widget is None/False (non-notebook use)",
    'floats are mathematical reals (encoding R): delay - dt, round + step*dt; round(x) is an integer within 1/2 of x',
    'Python ints are mathematical integers (true); dict iteration = insertion order; single-threaded execution; log() dropped',
]

K1_C17 = ['InstanceManager.is_valid_instance', 'InstanceManager._timeout_instances', 'InstanceManager._update_instance_timestamp',
          'InstanceManager.keep_instance_alive', 'InstanceManager.get_instance', 'InstanceManager._make_bptk',
          'InstanceManager.create_instance', 'InstanceManager._delete_instance']
K1_C18 = ['bptk.lock', 'bptk.unlock', 'bptk.is_locked', 'InstanceManager._get_instance_state#capture', 'BptkServer._run_steps_resource', 'BptkServer._run_step_resource',
          'BptkServer._stream_steps_resource.streamer']
K1_C15 = ['BptkServer.token_required.decorated']
K1_C16 = ['InstanceManager.is_valid_instance', 'InstanceManager._timeout_instances', 'InstanceManager._update_instance_timestamp',
          'InstanceManager.keep_instance_alive', 'InstanceManager.get_instance', 'InstanceManager._make_bptk',
          'InstanceManager.create_instance', 'InstanceManager._delete_instance', 'InstanceManager.reconstruct_instance',
          'BptkServer._ensure_instance_exists', 'BptkServer._begin_session_resource', 'BptkServer._end_session_resource',
          'BptkServer._session_results_resource', 'BptkServer._flat_session_results_resource', 'BptkServer._keep_alive_resource',
          'BptkServer._stop_instance_resource', 'BptkServer._start_instance_resource', 'BptkServer._start_instances_resource',
          'BptkServer._run_step_resource', 'BptkServer._run_steps_resource', 'BptkServer._stream_steps_resource.streamer',
          'Adapter.save_instance', 'Adapter.load_instance', 'InstanceManager._get_instance_state#capture']

_SRV_ASSUME = [
    'Flask: request / make_response / Response behave as declared in the assumed contracts (make_response returns a fresh object with the given status and touches nothing else); dispatch calls exactly the registered view function; uncaught exceptions become 500',
    'Python semantics of the encoded subset (DESIGN 2.2.7); single-threaded execution; log() dropped',
]

K1_C05 = ['normalize', 'timerange', 'Model.memoize', 'Model.previous_time', 'Model.equation', 'SdSimulation.__simulate']

K1_C08 = ['SdElement.generate_function', 'SdElement.Element.equation.setter', 'SdElement.Stock.equation.setter',
          'SdElement.Flow.equation.setter', 'SdElement.Constant.equation.setter', 'SdElement.Stock.initial_value.setter',
          'Scenario.reset_cache', 'Model.reset_cache', 'Model.memoize', 'SdSimulation.change_equation', 'SdSimulation.change_points']

K1_C07 = ['ScenarioManagerSd.add_scenarios', 'SdScenario.__init__', 'SdScenario.configure_settings', 'SdSimulation.__init__', 'SdSimulation.change_runspecs',
          'SdSimulation.change_equation', 'SdSimulation.change_points']
_SCEN_ASSUME = ['scenario lookup (ScenarioManagerFactory.get_scenarios) returns live scenario objects owning distinct models (assumed contract)',
                'SdSimulation.start simulates with the model\'s current run spec (assumed here; its pieces are under contract in C05)',
                'values of constants / points are opaque (ANY): the contracts speak about WHICH entries are replaced, not about evaluating the lambdas',
                'dictionaries and records handed in as arguments are VALUES in the K1 encoding: a write through an alias of the caller\'s object is not modelled (add_scenarios did exactly that until its fix; the native search registers one dictionary with two managers)',
                'copy.deepcopy of a scenario dictionary returns an equal value that shares nothing (trusted contract)',
                'Python semantics of the subset (DESIGN 2.2.7); single-threaded']

PROPS = {
    'C03': dict(
        mods=[], k1=[], level='other', engines=['contracts.c03_transpile'],
        harness='verif/native/c03_harness.py', harness_budget=(25, 120), always_harness=True,
        explanation='L1 (exhaustive over the real tables, parametric in the operand texts): every operator of generator/py/py.py emits  L <python token> R  flat, '
                    'explicit parentheses and NOT are kept, IF is a fully parenthesised conditional, every formula-style built-in uses each argument as a unit. '
                    'L2 (exhaustive over all operator pairs): CPython groups  x o1 y o2 z  and a leading / trailing unary minus exactly as the XMILE precedence table; '
                    'comparison chains never reach the generator. L1+L2 give the XMILE grouping for flat chains of any length (operator-precedence meta-lemma). '
                    'L3 (BOUNDED, not proof): the real front end on every arithmetic tree up to depth 2 and random trees up to depth 4 in several spellings: accepted '
                    'sources translate to text equal to the reference semantics for all variable values (z3). Whole documents are compiled and evaluated natively',
        assumptions=[], not_decided=['bounded stand-in (L3 and the native evaluation), never counted as proved: the PEG grammar / visitor are executed on generated sources, not verified; '
                                     'arrays, modules, delay / smoothing / statistical built-ins are outside the vocabulary checked',
                                     'known finding: an unknown function is translated to 0 with only a log line (does not fail loudly)']),
    'C04': dict(
        mods=['contracts.c04_runtime'], k1=['simulation_model.memoize'], level='other', engines=['contracts.c04_euler'],
        harness='verif/native/c04_harness.py', harness_budget=(30, 150), always_harness=True,
        explanation='PROVED (K1) on the runtime every transpiled model runs (simulation_model.memoize, extracted mechanically from the Jinja template on every run): the '
                    'equation is evaluated at the key the result is stored under, that key is the grid point next to the argument whenever the argument is within '
                    'the tolerance of it, a present key is never re-evaluated, no other entry changes. BOUNDED in structure, all values / times / run specs: every stock/flow structure up to the bound (0..3 inflows x 0..3 outflows, thorough 4; '
                    'non-negative, bidirectional, mixed; spaced names; chained stocks) is transpiled by the real pipeline and each generated equation text is proved '
                    '(z3 reals, memo uninterpreted) to be the init / explicit-Euler step of its stock and max(0,.) / identity of its flow. The floating-point '
                    'grid behaviour (one integration step per grid interval for decimal, binary and reciprocal dt, several start times), graphical functions, the '
                    'path through bptk scenario files and the equality with the same model in the SD DSL are enumerated natively on every run (bounded search)',
        assumptions=[], not_decided=['bounded stand-in, never counted as proved: structures beyond the bound; run specs outside the enumeration (5 start times x 18 dt values)',
                                     'LERP (numpy / scipy) and the other runtime helpers are executed, not verified; whether a floating-point t-self.dt really lies within the snapping tolerance is decided by the native enumeration, not by the real-arithmetic contract']),
    'C10': dict(
        mods=['contracts.c10_shapes'], k1=['DotOperator.resolve_dimensions', 'AdditionOperator.resolve_dimensions', 'SubtractionOperator.resolve_dimensions',
                                           'DivisionOperator.resolve_dimensions', 'NumericalMultiplicationOperator.resolve_dimensions',
                                           'MultiplicationOperator.resolve_dimensions'],
        level='other', engines=['contracts.c10_arrays'],
        harness='verif/native/c10_harness.py', harness_budget=(15, 60), always_harness=True,
        explanation='PROVED for all shapes (K1 contracts on the real resolve_dimensions functions): DotOperator raises exactly where numpy.dot refuses the operand '
                    'shapes and otherwise returns the dimensions of numpy\'s result (value, [n], [m, p]); the element-wise operators accept only equal shapes or a value '
                    'partner and return the array operand\'s dimensions. BOUNDED in shape, all element values: the real sddsl classes build every arrayed equation of the enumeration (element-wise + - * / '
                    'with arrays, scalar elements and numbers in both operand orders, indexed and named; dot in all vector/matrix/scalar pairings; the seven '
                    'aggregates; composite forms) for all operand shapes up to the bound (vectors 1..3, matrices up to 3x3, thorough 4); the function string '
                    'generated for every result element is proved equal (z3, reals, all leaf values) to the entry numpy computes on object arrays of the same '
                    'symbolic leaves; mismatched shapes must be refused or must not yield a value. A numeric replay (values vs numpy) runs on every check',
        assumptions=[], not_decided=['the VALUES of the elements are a bounded stand-in, never counted as proved: shapes beyond the bound are not covered (term() / clone_with_index / '
                                     '_handle_arrayed build strings and model elements: outside the K1 subset); only the shape rules are proved for all shapes',
                                     'refusing a well-shaped form with an error is allowed by the property and only counted (unsupported forms are listed in the evidence)']),
    'C16': dict(
        mods=['contracts.c16_isolation'], k1=K1_C16, level='proof',
        harness='verif/native/c16_harness.py', harness_budget=(45, 200), always_harness=True,
        explanation='instance isolation in FRAME form, function by function: every InstanceManager operation and every instance-scoped request '
                    'handler (begin/end session, run-step, run-steps, stream-steps generator, session results, keep-alive, stop, restore-on-demand) '
                    'leaves the table entry of every OTHER id unchanged or removes it only when that id\'s own timeout has elapsed, changes the session '
                    'state of no bptk object but the one registered under the addressed id, and keeps different ids on different bptk objects; the '
                    'creating handlers (start-instance, start-instances with its loop) add fresh objects only. The 2-safety conclusion (responses equal the '
                    'solo run) follows from the frame plus the assumed per-object contracts of the bptk methods; it is additionally searched natively '
                    '(interleaved vs solo replay on the live app, bounded, not counted as proved)',
        assumptions=_SRV_ASSUME + ['bptk methods (begin_session, run_step, end_session, session_results, destroy) read and write only their receiver: the '
                                   'objects handed out by the user\'s bptk factory share no mutable state (scenario managers, models, module-level config)',
                                   'uuid1().hex values of different UUID objects differ and are not yet keys of the table (library assumption, stated inductively)',
                                   'decorators (token_required) are decided in C15; the handler bodies are verified as written'],
        not_decided=['not decided deductively: equality of HTTP bodies with the solo run as such (2-safety); decided in frame form + bounded native search',
                     'not decided: the module-level configuration dictionary aliased by every conf() (process-wide by design; identical for all instances of a server because one factory builds them)']),
    'C19': dict(
        mods=['contracts.c19_state'], k1=['InstanceManager._get_instance_state', 'bptk._set_state', 'InstanceManager.reconstruct_instance',
                                          'Adapter.save_instance', 'Adapter.load_instance', 'Adapter.load_state'],
        level='other', engines=['contracts.c19_roundtrip'],
        harness='verif/native/c19_harness.py', harness_budget=(25, 120), always_harness=True,
        explanation='BOUNDED core + proved capture/restore. Bounded (never counted as proved): decompress(compress(L)) == L executed exhaustively on the real '
                    'statecompression functions for logs with steps "1.0".."n.0" and one non-empty key structure (the positive core of the format). '
                    'Proved (K1): _get_instance_state snapshots the whole session dictionary (clock, both logs, all other keys) with the lock cleared and leaves '
                    'the live session unchanged; bptk._set_state / reconstruct_instance install exactly the given dictionary and touch no other instance; '
                    'ExternalStateAdapter.save_instance / load_instance / load_state compress / decompress both logs iff the adapter compresses and tolerate None',
        assumptions=_SRV_ASSUME + ['copy.deepcopy returns an equal value; storage back ends (_save_instance / _load_instance) are trusted to store and return what they are given; jsonpickle round-trips JSON-able dicts up to float->string key conversion'],
        not_decided=['the compressed format is lossy outside its positive core: recorded as known findings (steps without / with empty settings, start time or dt other than 1, key sets that differ between steps)']),
    'C20': dict(
        mods=['contracts.c19_state'], k1=['FileAdapter._load_instance', 'BptkServer._load_state_resource', 'InstanceManager.reconstruct_instance',
                                          'InstanceManager._get_instance_state', 'bptk._set_state'],
        level='proof', engines=['contracts.c19_roundtrip'],
        harness='verif/native/c19_harness.py', harness_budget=(45, 180), always_harness=True,
        explanation='fault-tolerance spine with a file-content fault model (absent / old / new / arbitrary bytes): FileAdapter._load_instance is proved TOTAL '
                    '(every exception of open / read / jsonpickle / subscripts is caught, it returns an InstanceState or None); the start-up restore loop and '
                    '/load-state are proved / checked to skip None entries; reconstruct_instance touches no other instance; capture and restore carry the whole '
                    'session dictionary',
        assumptions=_SRV_ASSUME + ['a crash leaves, per instance, a file that is absent, old, new or arbitrary bytes (sound over-approximation of any crash point)'],
        not_decided=['NOT DECIDED: enumeration of crash points as such (replaced by the file-content fault model; the native harness enumerates crash points of generated histories)',
                     'known finding: settings applied in earlier steps are not replayed after a restore (restore installs the dictionary and replays nothing)']),
    'C07': dict(
        mods=['contracts.c07_scenarios'], k1=K1_C07, level='proof',
        harness='verif/native/c09_harness.py', harness_budget=(25, 120), always_harness=True,
        explanation='functional contract per hop of the settings channels: SimulationScenario.__init__ / configure_settings (dictionary -> constants, '
                    'points, run specs; own values win key by key), SdSimulation.__init__/change_equation/change_points/change_runspecs (the integrating model '
                    'gets exactly the scenario\'s start, stop and dt), the step runner itself is under contract in C09)',
        assumptions=_SCEN_ASSUME,
        not_decided=['not decided deductively: the file channel (ScenarioManagerFactory.__readScenario, JSON/YAML parsers, base constants spread over files): file-system driven; searched natively on every run (managers split over two files, base values and scenarios in different files, own values overriding base values; bounded)',
                     'not decided: SdRunner._run_scenarios (batch path) -- exercised by the native harness only']),
    'C09': dict(
        mods=['contracts.c07_scenarios'], k1=['SdRunner.run_scenario_step', 'SdSimulation.change_equation', 'SdSimulation.change_runspecs', 'Model.equation',
                                             'SdSimulation.__simulate'],
        level='proof', engines=['contracts.c05_extra'],
        harness='verif/native/c09_harness.py', harness_budget=(25, 120), always_harness=True,
        explanation='every channel reads model.equation(eq, t) (compute-once memo under the normalised key) on the same grid successor function: '
                    'batch (__simulate: one entry per label of timerange), session clock (structural obligation: normalize(step+dt,...)), '
                    'run_scenario_step keeps the live simulation across steps and applies the step settings before evaluating; change_equation leaves the '
                    'memo untouched, so settings affect the steps from that step onwards and nothing before it',
        assumptions=_SCEN_ASSUME + ['pandas frame assembly (df / to_dict / json) and the REST serialisers are trusted'],
        not_decided=['not decided: bptk.begin_session / session_results re-indexing and the REST handlers as functions (deep dynamic dict code): reached by the native harness only',
                     'not decided: pandas / json agreement of the three batch formats (library code)']),
    'C06': dict(
        mods=['contracts.c07_scenarios'], k1=['ScenarioManagerSd.add_scenarios', 'SdSimulation.change_equation', 'SdSimulation.change_points',
                                             'SdSimulation.change_runspecs', 'SdScenario.__init__', 'SdRunner.run_scenario_step'],
        level='proof', engines=['contracts.c06_clone'],
        harness='verif/native/c09_harness.py', harness_budget=(25, 120), always_harness=True,
        explanation='separation + frames: get_cloned_model returns a new Model that installs none of the base model\'s mutable containers (structural obligations '
                    'from the AST); change_equation / change_points / change_runspecs write only the fields of their own simulation model (frame proved); '
                    'the step runner applies the settings of a step only to the scenario they address and writes no other scenario\'s model (frame proved)',
        assumptions=_SCEN_ASSUME,
        not_decided=['not decided: "results equal those of a freshly built model" as a relation (C07 spine + harness)',
                     'not decided: sharing through mutable default arguments between managers; arrayed elements share _elements with the base element']),
    'C08': dict(
        mods=['contracts.c08_memo', 'contracts.c05_grid', 'contracts.c07_scenarios'], k1=K1_C08, level='proof',
        harness='verif/native/c08_harness.py', harness_budget=(15, 90), always_harness=True,
        explanation='cache-invalidation postconditions: after Element/Stock/Flow/Constant.equation setters, Stock.initial_value setter, '
                    'Model.reset_cache and SimulationScenario.reset_cache EVERY memo table is empty; generate_function installs the new function and '
                    'empties the own memo; Model.memoize writes a key only when absent and returns the stored value otherwise (single value per '
                    '(element, time), stochastic or not, whichever equations are requested in whichever order)',
        assumptions=['array expansion helper _handle_arrayed and the text generators do not write memo entries (assumed contracts; generators are under K2 in C01)',
                     'K1 encodes `==` between dynamically typed values as equality: an overloaded __eq__ that returns a truthy object (SD DSL elements) is outside the encoding; edits that compare elements are covered by the native search only',
                     'eval(text) treated as an opaque value; Python semantics of the subset; SINGLE-THREADED execution'],
        not_decided=['NOT DECIDED: all schedules of the per-equation worker threads (SdSimulation.__simulate_equations): the check-then-compute-then-store window in memoize is a data race a sequential verifier cannot see',
                     'not decided: "equals a freshly built model" as a relation; it follows on paper from empty memo + C01 and is exercised by the native harness']),
    'C05': dict(
        mods=['contracts.c05_grid'], k1=K1_C05, level='proof', engines=['contracts.c05_extra'],
        harness='verif/native/c05_harness.py', harness_budget=(20, 120), always_harness=True,
        explanation='float-agnostic contracts (round(x,p) uninterpreted with idempotence; canonical label = fixed point of round at the grid precision): '
                    'normalize returns a canonical label; timerange records only the start or canonical labels, consecutive ones related by the '
                    'successor function next_grid, all within the range and nothing missing at the end; Model.memoize stores and returns under the '
                    'normalised key and computes a key once; SdSimulation.__simulate writes exactly one entry per label of timerange(start, stop, dt); '
                    'the session clock advances by the same next_grid (structural obligation); real-arithmetic lemmas: every argument within dt/2 '
                    'of a grid point is normalised to that grid point',
        assumptions=['encoding F: float +,-,*,/ interpreted over the reals, round(x,p) uninterpreted with round(round(x,p),p) == round(x,p); round(x) an integer within 1/2 of x',
                     'assumption used by timerange / __simulate: the successor label is above the current one (next_grid(i) > i); termination not proved',
                     'scale(x) contract assumed (bounded lattice check only); Python semantics of the subset (DESIGN 2.2.7)'],
        not_decided=['not decided: IEEE-754 rounding itself (a full error-bound proof of timerange was judged too expensive, DESIGN 2.2.6)',
                     'not decided deductively: Element.plot (pandas comprehension) -- covered by the native harness only']),
    'C01': dict(
        mods=['contracts.c08_memo', 'contracts.c05_grid'],
        k1=['Model.memoize', 'Model.previous_time', 'Model.equation', 'SdElement.generate_function', 'SdElement.Element.equation.setter', 'SdElement.Stock.equation.setter',
            'SdElement.Flow.equation.setter', 'SdElement.Constant.equation.setter', 'SdElement.Stock.initial_value.setter', 'Model.reset_cache'],
        level='proof', engines=['contracts.c01_euler'],
        harness='verif/native/c01_harness.py', harness_budget=(20, 120), always_harness=True,
        explanation='K2 generator contracts: the text built by Stock/Flow.build_function_string and by the term() of every operator and built-in '
                    '(step, pulse, delay, lookup, dt/starttime/stoptime, min/max/abs/..., If/And/Or/Not, arithmetic) denotes the Euler spec expression of '
                    'the element with every operand read at the specified time; Smooth/Trend constructors build average\' = (input-average)/T as a biflow '
                    'into a stock and report the average / (input-average)/(average*T); K1: Model.memoize is compute-once under the normalised key and every '
                    'modelling-API setter empties the memo, so a re-parameterised model reports the Euler solution of its FINAL definitions. Meta-lemma (paper): Element.__call__(t) == V(e,t)',
        assumptions=['meta-lemma on paper (induction over (grid index, acyclic dependency order)); numpy / interp1d trusted; Model._lookup (numpy) assumed: clamped linear interpolation'],
        not_decided=['not decided: stochastic built-ins; arrayed elements (C10); float rounding of dt*flow (spec and code use the same expression tree)']),
    'C02': dict(
        mods=[], k1=[], level='proof', engines=['contracts.c02_grouping'],
        harness='verif/native/c02_harness.py', harness_budget=(15, 90), always_harness=True,
        explanation='K2: the real constructor and term() of every operator class of operators.py (27 classes) and every Python operator '
                    'overload of Operator/Element are executed symbolically over templates for every combination of operand kinds '
                    '(element, arbitrary operator, positive / negative number); obligations: the emitted text denotes Spec(class) with '
                    'every operand read at the requested time (z3 over the reals via the CPython AST), and every operand hole keeps any '
                    'text the operand contract allows as a unit (14 expression shapes)',
        assumptions=[],
        not_decided=['not decided: arrayed operands (C10); statistical / random functions; float association and rounding (semantic equality is over the reals)']),
    'C15': dict(
        mods=['contracts.c15_c18_server'], k1=K1_C15, level='proof', engines=['contracts.c15_routes'],
        harness='verif/native/c15_harness.py', harness_budget=(20, 120), always_harness=True,
        explanation='contract on the real decorator token_required.decorated (closure variable f = the wrapped view, entering it sets a ghost flag): '
                    'with a token configured, the view is entered only if the Authorization header is present and its second space-separated '
                    'word equals the token; otherwise the result is a fresh 401 response (or an exception propagates), and the instance '
                    'table and every session state are unchanged. Plus the route-table obligation generated from the AST of __init__: '
                    'every non-public rule is bound to a method whose outermost decorator is token_required',
        assumptions=_SRV_ASSUME + ['str.split is a pure function of its arguments'],
        not_decided=['not decided deductively: Flask-generated responses (automatic OPTIONS, /static) never enter a view function; observed only by the native harness',
                     'observation, not a violation of the statement: the scheme word is not checked (Basic <token> is accepted); a header without a second word gives 500']),
    'C17': dict(
        mods=['contracts.c17_timeouts', 'contracts.c15_c18_server'], k1=K1_C17, level='proof',
        harness='verif/native/c17_harness.py', harness_budget=(20, 90), always_harness=True,
        explanation='ghost monotone clock ($now, advanced by every datetime.now()); representation invariant of the instance table; '
                    'sweep contract: entries alive at the latest clock reading survive unchanged, entries expired at the earliest reading are '
                    'removed and their bptk object destroyed exactly once; create_instance stores each of the seven timeout units (keyword or 0) '
                    'and sweeps first; get_instance / keep_instance_alive stamp the addressed entry with a fresh reading and then sweep',
        assumptions=_SRV_ASSUME + ['monotone clock; timedelta(**kw) = sum of unit*factor (7 units); reals for seconds', 'uuid1().hex is not already a key of the table', 'the bptk factory returns a fresh object'],
        not_decided=['not decided deductively: which handlers reach get_instance (the access obligation per handler) and the restore-from-external-state path -- covered by the native harness only',
                     'not decided: real-time behaviour (the clock is a ghost)']),
    'C18': dict(
        mods=['contracts.c16_isolation'], k1=K1_C18, level='proof',
        harness='verif/native/c18_harness.py', harness_budget=(20, 90), always_harness=True,
        explanation='all-exit-paths lock contracts (normal return, every exception edge, generator closed at each yield) on _run_steps_resource, '
                    '_run_step_resource and the streamer generator, plus functional contracts on bptk.lock/unlock/is_locked: the lock of the addressed '
                    'instance is the same at exit as at entry; a request that finds it locked answers 500 and runs no step; the generator leaves the '
                    'instance unlocked however it ends',
        assumptions=_SRV_ASSUME + ['bptk.run_step never touches the lock flag and does not install/remove the session object (assumed contract; its functional part is C09)'],
        not_decided=['NOT DECIDED: the first sentence of the property for CONCURRENT requests (the window between is_locked() and lock(), and between reading and writing the session clock) -- a sequential verifier has no thread interleavings',
                     'not decided: that the lock is released if the external state adapter raises after the steps']),
    'C11': dict(
        mods=['contracts.c11_c12_sched'], k1=K1_C11, level='proof', engines=['contracts.c11_lemmas'],
        harness='verif/native/c11_harness.py', harness_budget=(15, 90), always_harness=True,
        explanation='ghost-instrumented contracts (per-event delivery counter / receiver / sequence number, handler counter) on '
                    'the distribution loop of SimultaneousScheduler.run_step, Scheduler.handle_delayed_event, Agent.receive_event, '
                    'Agent.handle_events, Model.enqueue_event/broadcast_event: every event queued at the start of a step goes through '
                    'exactly one pass: held back with delay-dt, or put once into the inbox of the agent whose id equals receiver_id '
                    '(nobody if no such agent), later-queued first; the inbox is drained and each event dispatched exactly once',
        assumptions=_ABM_ASSUME + ['the per-event statements are conditional on the queue / inbox holding no event OBJECT twice (a twice-queued object is delivered twice)'],
        not_decided=[
            'not decided deductively: the composition over steps (sent at t => handled at t+1+ceil(delay/dt)) is a paper lemma over the contracts plus the discharged real-arithmetic lemma on the countdown; float countdown (0.3-3*0.1>0) is outside encoding R',
            'not decided: that held-back events reappear at the tail of model.events after the step (concatenation with symbolic lengths) -- only their membership in scheduler.delayed_events at the end of the distribution loop is proved',
        ]),
    'C12': dict(
        mods=['contracts.c11_c12_sched'], k1=K1_C12, level='proof',
        harness='verif/native/c12_harness.py', harness_budget=(15, 90), always_harness=True,
        explanation='ghost callback trace: run_step appends exactly begin, (handle(a), act(a)) for every agent in list order, end, '
                    'and collect(time) iff data collection is on or it is the final step; run() logs a successor chain of (round, step) '
                    'pairs from (start,0) to (stop, S-1) -- every step once, in increasing time order; Model.run / run_step delegate',
        assumptions=_ABM_ASSUME + ['callbacks do not change the registry or scheduler.running during a step (otherwise the statement is about the agents iterated: Python list-iterator semantics, not modelled)'],
        not_decided=[
            'not decided: HybridRunner.run_scenario (thread per scenario, skip-unfinished filter, pandas) -- unverified',
            'not decided deductively: agents created/deleted by callbacks in the middle of a step; reached only by the native replay harness',
        ]),
    'C13': dict(
        mods=['contracts.c13_stats'], k1=K1_C13, level='proof',
        harness='verif/native/c13_harness.py', harness_budget=(8, 60), always_harness=True,
        explanation='functional contract on DataCollector.collect_agent_statistics (nested loop invariants over the agent '
                    'list and the property dict): for the recorded time, domain of types/states, count, total, max, min and '
                    'mean equal recurrence-defined aggregates over exactly the agents of each (type,state)',
        assumptions=[
            'numeric values are mathematical reals (machine arithmetic treated as mathematical); the mean is total/count with an uninterpreted division symbol (congruence only)',
            'precondition is_valid: every agent property is a {"type","value"} record; agents of one (type,state) group carry the same numeric property names (otherwise the recorded mean depends on agent order); no property is named "count"',
            'Python ints are mathematical integers (true); dict iteration = insertion order; single-threaded execution',
        ],
        not_decided=[
            'not decided: the dataframe / dict / json assembly in HybridRunner.run_scenario and get_df_for_agent (pandas joins, fillna) -- only reached by the native replay harness, never counted as proved',
        ]),
    'C14': dict(
        mods=['contracts.c14_registry'], k1=K1_C14, level='proof',
        harness='verif/native/c14_harness.py', harness_budget=(20, 90), always_harness=True,
        explanation='representation invariant wf_registry + whole-view postconditions on every registry mutator and '
                    'query of Model, discharged function by function from the real source of BPTK_Py/modeling/model.py',
        assumptions=[
            'Agent.id and Agent.agent_type do not change after create_agent returns (immutable fields; user code)',
            'the factory registered under type T builds agents whose agent_type settles to T (precondition of register_agent_factory)',
            'Python ints are mathematical integers (true); dict iteration = insertion order; single-threaded execution',
            'log(...) calls are dropped by the extraction (logger only writes to a file / prints)',
        ],
        not_decided=[
            'not decided: re-registering a factory for a type that still has live agents (excluded by precondition)',
        ]),
}
