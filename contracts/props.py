"""Per-property configuration: which contracts / engines decide it, its replay harness, what is not decided."""

K1_C14 = ['Model.agent', 'Model.agent_ids', 'Model.agent_count', 'Model.agent_count_per_state', 'Model.next_agent',
          'Model.random_agents', 'Model.create_agent', 'Model.create_agents', 'Model.delete_agents',
          'Model.delete_agent', 'Model.configure_agents', 'Model.reset_cache', 'Model.reset',
          'Model.register_agent_factory']

K1_C13 = ['DataCollector.collect_agent_statistics', 'DataCollector.record_event', 'DataCollector.statistics',
          'DataCollector.reset']

PROPS = {
    'C13': dict(
        mods=['contracts.c13_stats'], k1=K1_C13, level='proof',
        harness='verif/native/c13_harness.py', harness_budget=(8, 60), always_harness=True,
        explanation='functional contract on DataCollector.collect_agent_statistics (nested loop invariants over the agent '
                    'list and the property dict): for the recorded time, domain of types/states, count, total, max, min and '
                    'mean equal recurrence-defined aggregates over exactly the agents of each (type,state)',
        assumptions=[
            'numeric values are mathematical reals (machine arithmetic treated as mathematical); the mean is total/count with an uninterpreted division symbol (congruence only)',
            'precondition is_valid: every agent property is a {"type","value"} record; agents of one (type,state) group carry the same numeric property names (otherwise the recorded mean depends on agent order); no property is named "count"',
            'Python ints are mathematical integers (true); dict iteration = insertion order; single-threaded execution',
        ],
        not_decided=[
            'not decided: the dataframe / dict / json assembly in HybridRunner.run_scenario and get_df_for_agent (pandas joins, fillna) -- only reached by the native replay harness, never counted as proved',
        ]),
    'C14': dict(
        mods=['contracts.c14_registry'], k1=K1_C14, level='proof',
        harness='verif/native/c14_harness.py', harness_budget=(20, 90),
        explanation='representation invariant wf_registry + whole-view postconditions on every registry mutator and '
                    'query of Model, discharged function by function from the real source of BPTK_Py/modeling/model.py',
        assumptions=[
            'Agent.id and Agent.agent_type do not change after create_agent returns (immutable fields; user code)',
            'the factory registered under type T builds agents whose agent_type settles to T (precondition of register_agent_factory)',
            'Python ints are mathematical integers (true); dict iteration = insertion order; single-threaded execution',
            'log(...) calls are dropped by the extraction (logger only writes to a file / prints)',
        ],
        not_decided=[
            'not decided: re-registering a factory for a type that still has live agents (excluded by precondition)',
            'not decided: Model.reset() on a model without a data collector (precondition data_collector is not None)',
        ]),
}
