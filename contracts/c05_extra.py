"""C05 extras: (1) structural obligation on the session clock of bptk.run_step, (2) real-arithmetic lemmas (encoding R),
(3) BOUNDED lattice execution of precision_and_scale (float log10 loop: out of every solver's reach; never counted as proved)."""
import ast
import os
import subprocess
import time
import z3
from verif.pyvc import binder


def clock_obligation(prop):
    """the value assigned to session_state["step"] in bptk.run_step is normalize(step+dt, dt, <session start>, max(scale(start), scale(dt)))"""
    name = '%s/bptk.py::bptk.run_step/clock.next_grid' % prop
    try:
        fn = binder.find_function('BPTK_Py/bptk.py', 'bptk.run_step')
    except (KeyError, OSError, SyntaxError) as e:
        return dict(name=name, qualname='bptk.run_step', status='undecided', solver='ast', secs=0, reason='unbound: %s' % e)
    assigns = []
    for n in ast.walk(fn):
        if isinstance(n, ast.Assign) and len(n.targets) == 1 and ast.unparse(n.targets[0]).replace("'", '"') == 'self.session_state["step"]':
            assigns.append(n)
    if len(assigns) != 1:
        return dict(name=name, qualname='bptk.run_step', status='undecided', solver='ast', secs=0, line=fn.lineno,
                    reason='unbound: %d assignments to the session clock' % len(assigns))
    v = assigns[0].value
    ok = False
    why = 'clock is advanced with %r' % ast.unparse(v)
    if isinstance(v, ast.Call) and ast.unparse(v.func) in ('fp.normalize', 'normalize') and len(v.args) >= 4:
        a = [ast.unparse(x).replace(' ', '') for x in v.args]
        start = a[2]
        ok = a[0] in ('step+dt', 'dt+step') and a[1] == 'dt' and \
            a[3] in ('max(fp.scale(%s),fp.scale(dt))' % start, 'max(fp.scale(dt),fp.scale(%s))' % start,
                     'max(scale(%s),scale(dt))' % start)
        # the offset must be the session start time
        src = ast.unparse(fn)
        ok = ok and (start == 'starttime') and ('starttime = self.session_state["starttime"]' in src.replace("'", '"'))
    return dict(name=name, qualname='bptk.run_step', status='discharged' if ok else 'counterexample', solver='ast', secs=0,
                line=assigns[0].lineno, path=[why], model=None if ok else dict(kind='clock', assigned=ast.unparse(v)))


def lemmas(prop):
    out = []
    x, base, off = z3.Reals('x base off')
    n, r = z3.Ints('n r')
    # round(v) is an integer within 1/2 of v  (the engine's contract of one-argument round)
    v = (x - off) / base
    hyp = [base > 0, x - (off + z3.ToReal(n) * base) < base / 2, (off + z3.ToReal(n) * base) - x < base / 2,
           v - z3.RealVal('1/2') <= z3.ToReal(r), z3.ToReal(r) <= v + z3.RealVal('1/2')]
    goal = r == n
    for nm, hs, g in (('normalize.snaps-to-grid', hyp, goal),
                      # consequently two arguments within base/2 of the same grid point get the same memo key
                      ('normalize.same-key', hyp + [base * z3.ToReal(r) + off != base * z3.ToReal(n) + off], z3.BoolVal(False))):
        s = z3.Solver()
        s.set('timeout', 60000)
        s.add(*hs, z3.Not(g))
        t = time.time()
        res = s.check()
        out.append(dict(name='%s/lemma/%s' % (prop, nm), qualname='lemma', secs=round(time.time() - t, 4),
                        status={'unsat': 'discharged', 'sat': 'counterexample'}.get(str(res), 'undecided'),
                        solver='z3-%s (nonlinear real arithmetic)' % z3.get_version_string()))
    s = z3.Solver()
    s.add(*hyp)
    if s.check() != z3.sat:
        out.append(dict(name='%s/lemma/normalize.vacuity' % prop, qualname='lemma', secs=0, status='crash', solver='z3',
                        reason='lemma hypotheses unsatisfiable'))
    return out


LATTICE = r'''
import sys
sys.path.insert(0, sys.argv[1])
from BPTK_Py.util.floating_point import precision_and_scale, scale
from decimal import Decimal
bad = []
n = 0
S = int(sys.argv[2]); M = int(sys.argv[3]); S2 = int(sys.argv[4]); M2 = int(sys.argv[5])
for s in range(0, S2 + 1):
    for m in range(-(M if s <= S else M2), (M if s <= S else M2) + 1):
        d = Decimal(m).scaleb(-s)
        x = float(d)
        want = max(0, -d.normalize().as_tuple().exponent) if m != 0 else 0
        n += 1
        try:
            got = scale(x)
        except Exception as e:
            got = 'raised %s' % type(e).__name__
        if got != want:
            bad.append((x, got, want))
            if len(bad) > 5:
                break
print(n, repr(bad[:5]))
'''


def lattice(prop, tier):
    S, M = (4, 2000) if tier == 'quick' else (6, 100000)
    S2, M2 = (9, 300) if tier == 'quick' else (10, 3000)     # small magnitudes (dt = 1e-5, 1.25e-5, ...) with fewer mantissas
    t = time.time()
    try:
        p = subprocess.run(['/venv/bin/python', '-W', 'ignore', '-c', LATTICE, binder.REPO, str(S), str(M), str(S2), str(M2)], capture_output=True,
                           text=True, timeout=600)
        out = p.stdout.strip().splitlines()[-1] if p.stdout.strip() else ''
        n, bad = out.split(' ', 1)
        ok = bad.strip() == '[]'
        return dict(name='%s/floating_point.py::scale/lattice' % prop, qualname='scale', kind='bounded',
                    bound='exhaustive over x = m*10^-s, s <= %d, |m| <= %d, and s <= %d, |m| <= %d' % (S, M, S2, M2), cases=int(n), secs=round(time.time() - t, 2),
                    status='discharged' if ok else 'counterexample', solver='execution of the real function (CPython)',
                    model=None if ok else dict(kind='scale', witnesses=bad))
    except Exception as e:
        return dict(name='%s/floating_point.py::scale/lattice' % prop, qualname='scale', kind='bounded', status='undecided',
                    solver='cpython', secs=round(time.time() - t, 2), reason=str(e))


def run(prop, cfg, tier, seed):
    vs = [clock_obligation(prop)] + lemmas(prop) + [lattice(prop, tier)]
    return dict(verdicts=vs,
                assumptions=['numeric lemmas are over the reals (machine arithmetic treated as mathematical)',
                             'round(round(x,p),p) == round(x,p) (CPython round correctly rounded)',
                             'scale(x) is only checked by BOUNDED lattice execution (labelled bounded, not counted as proved)'],
                functions=[dict(function='bptk.run_step (session clock)', file='BPTK_Py/bptk.py', obligations=1)])
