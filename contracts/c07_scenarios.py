"""C06 / C07 / C09 -- scenario plumbing: functional contracts for every hop of the settings channels down to the
SdSimulation that integrates (scenario.py, sd_simulation.py, sd_runner.py), and freshness / separation posts (C06)."""
from .c05_grid import *  # noqa  (SdModel, SdSimulation, EQFUN)

F_SC = 'BPTK_Py/scenariomanager/scenario.py'
F_SIM = 'BPTK_Py/sdsimulation/sd_simulation.py'
F_RUN = 'BPTK_Py/scenariorunners/sd_runner.py'
F_SM = 'BPTK_Py/scenariomanager/scenario_manager_sd.py'

RUNSPECS = TRec('runspecs', {'starttime': REAL, 'stoptime': REAL, 'dt': REAL})
CONSTS = TDict(STR, ANY)
SETTINGS = TRec('scenario_dict', {'constants': CONSTS, 'points': CONSTS, 'runspecs': RUNSPECS})
CLASSES['SdModel'].fields.update(points=CONSTS, name=STR)
CLASSES['SdSimulation'].fields.update(until=REAL, starttime=REAL, dt=REAL, name=STR, threads=TList(ANY), result_frame=ANY)
declare_class('SdScenario', ['object'], dictionary=SETTINGS, scenario_manager=STR, model=TRef('SdModel'),
              sd_simulation=TRef('SdSimulation'), stoptime=REAL, starttime=REAL, dt=REAL, constants=CONSTS, points=CONSTS,
              name=STR, result=ANY)
SC = TRef('SdScenario')
SIM = TRef('SdSimulation')


def runspec_of(d, key, default):
    """value of runspecs[key] in a settings dict, else default"""
    return If(And(d.has('runspecs'), d['runspecs'].has(key)), d['runspecs'][key], default)


def only_obj(C, fields, obj):
    """the listed fields change at most on `obj`"""
    out = []
    for cf in fields:
        cls, f = cf.split('.')
        a1, a0 = C.st.heap_arr_cf(cls, f), C.old_st.heap_arr_cf(cls, f)
        out.append(FA('ref', lambda r, a1=a1, a0=a0: Implies(r != zof(obj), z3.Select(a1, r) == z3.Select(a0, r)),
                      pats=lambda r, a1=a1: [z3.Select(a1, r)]))
    return And(*out)


def init_post(C):
    s, d, m = C.self, C.dictionary, C.model
    base = lambda f: If(m.is_null, z3.RealVal(0), getattr(m, f))
    return And(
        # constants / points are the ones given (or empty); run specs: the scenario's own override wins over the model's
        Implies(d.has('constants'), s.constants.z == d['constants'].z), Implies(Not(d.has('constants')), s.constants.size == 0),
        Implies(d.has('points'), s.points.z == d['points'].z), Implies(Not(d.has('points')), s.points.size == 0),
        s.starttime == runspec_of(d, 'starttime', base('starttime')),
        s.stoptime == runspec_of(d, 'stoptime', base('stoptime')),
        s.dt == runspec_of(d, 'dt', base('dt')),
        s.model == m, s.sd_simulation.is_null, s.name == C.name,
        # the points table of the scenario's model, as a WHOLE: the graphical functions the scenario names carry the scenario's
        # points, every other one is exactly what the model had (found wrong on the pinned tree: the table was replaced)
        Implies(Not(m.is_null), FA('str', lambda k: If(And(d.has('points'), d['points'].has(k)),
                                                       And(m.points.has(k), m.points.raw(k) == d['points'].raw(k)),
                                                       And(m.points.has(k) == C.old.model.points.has(k),
                                                           m.points.raw(k) == C.old.model.points.raw(k))))),
        # only the new scenario object is written (and the points of ITS model when it brings points)
        only_obj(C, ['SdScenario.constants', 'SdScenario.points', 'SdScenario.starttime', 'SdScenario.stoptime', 'SdScenario.dt',
                     'SdScenario.model', 'SdScenario.sd_simulation'], C.self),
        # ... and no other model's points table
        only_obj(C, ['SdModel.points'], C.model))


def init_points_inv(C):
    """loop over the scenario's points: the names already visited carry the scenario's points in the model's table, all
    other names are as the model had them"""
    s, d, m = C.self, C.dictionary, C.model
    src = d['points']
    return And(src.wf, d.has('points'), Not(m.is_null), s.points.z == src.z, s.model == m,
               only_obj(C, ['SdScenario.points'], C.self), only_obj(C, ['SdModel.points'], C.model),
               FA('str', lambda k: If(And(src.has(k), d_pos(CONSTS, src.z)[k] < C.k),
                                      And(m.points.has(k), m.points.raw(k) == src.raw(k)),
                                      And(m.points.has(k) == C.old.model.points.has(k), m.points.raw(k) == C.old.model.points.raw(k)))))


contract('SdScenario.__init__', file=F_SC, src_name='SimulationScenario.__init__', props=['C07', 'C06'],
         params=dict(self=SC, dictionary=SETTINGS, name=STR, model=TRef('SdModel'), scenario_manager_name=STR),
         # the model handed to a scenario is its own clone: its points table is not the dictionary's (call sites: add_scenarios)
         requires=lambda C: Or(C.model.is_null, Not(C.dictionary.has('points')), C.model.points.oid != C.dictionary['points'].oid),
         ensures=init_post, loops={0: init_points_inv},
         modifies=['SdScenario.dictionary', 'SdScenario.scenario_manager', 'SdScenario.model', 'SdScenario.sd_simulation',
                   'SdScenario.stoptime', 'SdScenario.starttime', 'SdScenario.dt', 'SdScenario.constants', 'SdScenario.points',
                   'SdScenario.name', 'SdScenario.result', 'SdModel.points'])


def conf_post(C):
    s1, s0, d = C.self, C.old.self, C.dictionary
    return And(
        # own settings win key by key; keys not mentioned keep their value
        FA('str', lambda k: If(And(d.has('constants'), d['constants'].has(k)),
                               And(s1.constants.has(k), s1.constants.raw(k) == d['constants'].raw(k)),
                               And(s1.constants.has(k) == s0.constants.has(k), s1.constants.raw(k) == s0.constants.raw(k)))),
        FA('str', lambda k: If(And(d.has('points'), d['points'].has(k)),
                               And(s1.points.has(k), s1.points.raw(k) == d['points'].raw(k)),
                               And(s1.points.has(k) == s0.points.has(k), s1.points.raw(k) == s0.points.raw(k)))),
        s1.starttime == runspec_of(d, 'starttime', s0.starttime),
        s1.stoptime == runspec_of(d, 'stoptime', s0.stoptime),
        s1.dt == runspec_of(d, 'dt', s0.dt))


def conf_inv(which):
    def inv(C):
        s1, s0, d = C.self, C.old.self, C.dictionary
        src = d[which]
        cur, old = getattr(s1, which), getattr(s0, which)
        other = 'points' if which == 'constants' else 'constants'
        base = [src.wf,
                FA('str', lambda k: If(And(src.has(k), d_pos(CONSTS, src.z)[k] < C.k),
                                       And(cur.has(k), cur.raw(k) == src.raw(k)),
                                       And(cur.has(k) == old.has(k), cur.raw(k) == old.raw(k)))),
                s1.starttime == s0.starttime, s1.stoptime == s0.stoptime, s1.dt == s0.dt]
        if which == 'constants':
            base.append(s1.points.z == s0.points.z)
        else:
            # the constants loop is done
            base.append(FA('str', lambda k: If(And(d.has('constants'), d['constants'].has(k)),
                                               And(s1.constants.has(k), s1.constants.raw(k) == d['constants'].raw(k)),
                                               And(s1.constants.has(k) == s0.constants.has(k), s1.constants.raw(k) == s0.constants.raw(k)))))
        return And(*base)
    return inv


contract('SdScenario.configure_settings', file=F_SC, src_name='SimulationScenario.configure_settings', props=['C07'],
         params=dict(self=SC, dictionary=SETTINGS), ensures=conf_post, loops={0: conf_inv('constants'), 1: conf_inv('points')},
         modifies=['SdScenario.constants', 'SdScenario.points', 'SdScenario.starttime', 'SdScenario.stoptime', 'SdScenario.dt'])

# ---- SdSimulation ----------------------------------------------------------------------------------------
contract('SdSimulation.__init__', file=F_SIM, props=['C07', 'C09'], params=dict(self=SIM, model=TRef('SdModel'), name=STR),
         requires=lambda C: C.model != NULL,
         ensures=lambda C: And(C.self.mod == C.model, C.self.results.size == 0, C.self.until == C.model.stoptime,
                               C.self.starttime == C.model.starttime, C.self.dt == C.model.dt,
                               only_obj(C, ['SdSimulation.mod'], C.self)),
         modifies=['SdSimulation.mod', 'SdSimulation.until', 'SdSimulation.starttime', 'SdSimulation.dt', 'SdSimulation.results',
                   'SdSimulation.threads', 'SdSimulation.result_frame', 'SdSimulation.finished_simulations_count', 'SdSimulation.name'])

contract('SdSimulation.change_runspecs', file=F_SIM, props=['C07', 'C09'], params=dict(self=SIM, starttime=REAL, stoptime=REAL, dt=REAL),
         requires=lambda C: C.self.mod != NULL,
         # the integrating model runs from the scenario's start to its stop with its dt
         ensures=lambda C: And(C.self.mod.starttime == C.starttime, C.self.mod.stoptime == C.stoptime, C.self.mod.dt == C.dt,
                               C.self.mod == C.old.self.mod,
                               only_obj(C, ['SdModel.starttime', 'SdModel.stoptime', 'SdModel.dt'], C.self.mod)),
         modifies=['SdModel.starttime', 'SdModel.stoptime', 'SdModel.dt'])


def chg_eq_post(C):
    m1, m0 = C.self.mod, C.old.self.mod
    n = C.name
    from verif.pyvc.calls import IS_CALLABLE
    replaced = Or(Not(IS_CALLABLE(C.value)), m0.equations.has(n))
    return And(m1 == m0,
               # a plain value always (re)defines the equation of that name; a function only replaces an existing one
               Implies(Not(IS_CALLABLE(C.value)), m1.equations.has(n)),
               FA('str', lambda e: Implies(e != n, And(m1.equations.has(e) == m0.equations.has(e), m1.equations.raw(e) == m0.equations.raw(e)))),
               # the memo is NOT touched: values of earlier times stay (C09: settings affect the steps from here on)
               m1.memo.z == m0.memo.z)


contract('SdSimulation.change_equation', file=F_SIM, props=['C07', 'C09', 'C08'], params=dict(self=SIM, name=STR, value=ANY),
         requires=lambda C: C.self.mod != NULL, ensures=chg_eq_post, modifies=['SdModel.equations'])

contract('SdSimulation.change_points', file=F_SIM, props=['C07', 'C08'], params=dict(self=SIM, name=STR, value=ANY),
         requires=lambda C: C.self.mod != NULL,
         ensures=lambda C: And(C.self.mod.points.has(C.name),
                               FA('str', lambda k: Implies(k != C.name, And(C.self.mod.points.has(k) == C.old.self.mod.points.has(k),
                                                                            C.self.mod.points.raw(k) == C.old.self.mod.points.raw(k))))),
         modifies=['SdModel.points'])

# ---- SdRunner.run_scenario_step ----------------------------------------------------------------------------
declare_class('Factory', ['object'])
declare_class('SdRunner', ['object'], scenario_manager_factory=TRef('Factory'))
SCEN_MAP = TDict(STR, SC)
STEP_SETTINGS = TDict(STR, TDict(STR, SETTINGS))

contract('Factory.get_scenarios', trusted=True, props=['C07', 'C09'], note='scenario lookup (file/registry driven): returns the live scenario objects',
         params=dict(self=TRef('Factory'), scenario_managers=ANY, scenarios=ANY, scenario_manager_type=STR), returns=SCEN_MAP,
         ensures=lambda C: And(C.result.wf, FA('str', lambda k: Implies(C.result.has(k), And(C.result[k] != NULL, C.result[k].model != NULL,
                                                                                        z3.Select(C.st.alloc, C.result.raw(k)),
                                                                                        # session invariant: a live simulation runs on its scenario's model
                                                                                        Implies(Not(C.result[k].sd_simulation.is_null),
                                                                                                C.result[k].sd_simulation.mod == C.result[k].model)))),
                               # C06 separation (assumed here, proved for the cloning code under C06): scenarios own distinct models
                               distinct_models(C.result),
                               FA('str', 'str', lambda a, b: Implies(And(C.result.has(a), C.result.has(b), a != b), C.result[a] != C.result[b]))))
contract('SdSimulation.start', trusted=True, props=['C07', 'C09'], note='(C05/C09) simulates the requested equations on the grid from start to until with the model\'s CURRENT run spec; only the memo grows',
         params=dict(self=SIM, start=ANY, until=ANY, dt=ANY, output=ANY, equations=ANY), returns=ANY,
         defaults=dict(start=NONE_V, until=NONE_V, dt=NONE_V, output=NONE_V, equations=NONE_V),
         modifies=['SdModel.memo', 'SdSimulation.results', 'SdSimulation.threads', 'SdSimulation.result_frame', 'SdSimulation.finished_simulations_count'],
         ghost_mods=['SdModel.g_evals', '$lastarg'], ghost=GH5)


def rss_state(C, upto):
    """scenarios processed so far: a live simulation is attached whose model is the scenario's model and carries its run spec"""
    objs = C.v.scenario_objects
    keys = objs.keys
    return FA('idx', lambda j: Implies(And(0 <= j, j < upto),
                                       And(objs[keys.raw(j)].sd_simulation != NULL,
                                           objs[keys.raw(j)].sd_simulation.mod == objs[keys.raw(j)].model,
                                           # a newly attached simulation integrates with the scenario's own run spec
                                           Implies(C.old_view(objs[keys.raw(j)]).sd_simulation.is_null,
                                                   And(objs[keys.raw(j)].model.starttime == objs[keys.raw(j)].starttime,
                                                       objs[keys.raw(j)].model.stoptime == objs[keys.raw(j)].stoptime,
                                                       objs[keys.raw(j)].model.dt == objs[keys.raw(j)].dt)))))


def _old_view(self, v):
    from verif.pyvc.spec import RefView
    return RefView(self.old_st, v.t, v.z, self.side)


Ctx.old_view = _old_view


def distinct_models(objs):
    """scenarios own distinct models and simulations (C06 separation, assumed here as precondition of the step)"""
    return FA('str', 'str', lambda a, b: Implies(And(objs.has(a), objs.has(b), a != b), objs[a].model != objs[b].model))


c = contract('SdRunner.run_scenario_step', file=F_RUN, props=['C07', 'C09', 'C06'], ghost=GH5, allocates=True,
             params=dict(self=TRef('SdRunner'), step=REAL, settings=STEP_SETTINGS, scenario_manager=STR, scenarios=ANY, equations=ANY),
             returns=ANY,
             requires=lambda C: C.self.scenario_manager_factory != NULL,
             # every addressed scenario ends with a live simulation on its OWN model, integrating with the scenario's run spec;
             # the runner writes no scenario setting
             ensures=lambda C: And(rss_frame(C), rss_state(C, C.v.scenario_objects.keys.len)),
             
             loops={0: lambda C: And(C.v.scenario_objects.wf, rss_frame(C), rss_state(C, C.k), rss_untouched(C, C.k)),
                    1: lambda C: rss_inner(C, 1), 2: lambda C: rss_inner(C, 2), 3: lambda C: rss_inner(C, 3), 4: lambda C: rss_inner(C, 4)},
             modifies=['SdScenario.sd_simulation', 'SdScenario.result', 'SdModel.equations', 'SdModel.points', 'SdModel.starttime',
                       'SdModel.stoptime', 'SdModel.dt', 'SdModel.memo', 'SdSimulation.mod', 'SdSimulation.until', 'SdSimulation.starttime',
                       'SdSimulation.dt', 'SdSimulation.results', 'SdSimulation.threads', 'SdSimulation.result_frame',
                       'SdSimulation.finished_simulations_count', 'SdSimulation.name'],
             ghost_mods=['SdModel.g_evals', '$lastarg'])


def rss_untouched(C, frm):
    """scenarios not yet processed still have the live simulation (or none) they had at entry"""
    objs = C.v.scenario_objects
    keys = objs.keys
    return FA('idx', lambda j: Implies(And(frm <= j, j < keys.len),
                                       objs[keys.raw(j)].sd_simulation == C.old_view(objs[keys.raw(j)]).sd_simulation))


def rss_frame(C):
    objs = C.v.scenario_objects
    return And(FA('str', lambda k: Implies(objs.has(k), And(objs[k] != NULL, objs[k].model != NULL))),
               distinct_models(objs),
               FA('str', 'str', lambda a, b: Implies(And(objs.has(a), objs.has(b), a != b), objs[a] != objs[b])),
               # not yet processed scenarios: an existing live simulation runs on the scenario's model
               FA('str', lambda k: Implies(And(objs.has(k), Not(objs[k].sd_simulation.is_null)), objs[k].sd_simulation.mod == objs[k].model)),
               # scenario fields that the runner must not write
               C.unchanged('SdScenario.starttime'), C.unchanged('SdScenario.stoptime'), C.unchanged('SdScenario.dt'),
               C.unchanged('SdScenario.constants'), C.unchanged('SdScenario.points'), C.unchanged('SdScenario.model'))


def rss_inner(C, n):
    """inner loops (constants / points of the scenario, constants / points of the step settings): the scenario being
    processed keeps its live simulation on its own model"""
    sc = C.v.sc
    base = [C.v.scenario_objects.wf, rss_frame(C), rss_state(C, C.outer_k), rss_untouched(C, C.outer_k + 1), sc != NULL, sc.sd_simulation != NULL,
            sc.sd_simulation.mod == sc.model, sc.model != NULL,
            0 <= C.outer_k, C.outer_k < C.v.scenario_objects.keys.len,
            sc == C.v.scenario_objects[C.v.scenario_objects.keys.raw(C.outer_k)]]
    return And(*base)

# ---- ScenarioManagerSd.add_scenarios (base constants / base points; own values win; own dictionaries) ---------------
declare_class('ScenarioManagerSd', ['object'], base_constants=CONSTS, base_points=CONSTS, scenarios=SCEN_MAP, model=TRef('SdModel'), name=STR)
SMS = TRef('ScenarioManagerSd')

contract('ScenarioManagerSd.get_cloned_model', trusted=True, props=['C06', 'C07'], allocates=True,
         note='(structural obligations in c06_clone) a new Model, or None for None',
         params=dict(self=SMS, model=TRef('SdModel')), returns=TRef('SdModel'),
         # ... whose points table is a dictionary of its own (`new_mod.points = copy.deepcopy(model.points)`)
         ensures=lambda C: Implies(Not(C.result.is_null), And(C.fresh(C.result), C.fresh_oid(C.result.points.oid))))
contract('copy.deepcopy', trusted=True, props=['C06', 'C07'], params=dict(x=SETTINGS), returns=SETTINGS, allocates=True,
         note='copy.deepcopy of a scenario dictionary (plain data): an equal value that shares nothing with the original',
         ensures=lambda C: C.result.z == C.x.z)
contract('ScenarioManagerSd.instantiate_model', trusted=True, props=['C06', 'C07'], params=dict(self=SMS),
         note='(re)compiles file based models; for registered models applies constants/points of every scenario to its own clone')


def merged(C, sc_consts, given_has, given, base):
    """sc_consts (DictView) == base overlaid with the given own values"""
    return FA('str', lambda c: And(
        Implies(And(given_has, given.has(c)), And(sc_consts.has(c), sc_consts.raw(c) == given.raw(c))),
        Implies(And(base.has(c), Not(And(given_has, given.has(c)))), And(sc_consts.has(c), sc_consts.raw(c) == base.raw(c)))))


def add_state(C, upto):
    m1, m0 = C.self, C.old.self
    d = C.scenario_dictionary
    keys = d.keys
    return FA('idx', lambda j: Implies(And(0 <= j, j < upto), And(
        m1.scenarios.has(keys.raw(j)), m1.scenarios[keys.raw(j)] != NULL,
        merged(C, m1.scenarios[keys.raw(j)].constants, d[keys.raw(j)].has('constants'), d[keys.raw(j)]['constants'], m0.base_constants),
        merged(C, m1.scenarios[keys.raw(j)].points, d[keys.raw(j)].has('points'), d[keys.raw(j)]['points'], m0.base_points),
        # a scenario that did not bring its own dictionary gets one of its own: never the manager's base dictionary
        Implies(And(m0.base_constants.size > 0, Not(d[keys.raw(j)].has('constants'))), m1.scenarios[keys.raw(j)].constants.oid != m0.base_constants.oid),
        Implies(And(m0.base_points.size > 0, Not(d[keys.raw(j)].has('points'))), m1.scenarios[keys.raw(j)].points.oid != m0.base_points.oid))))


def add_frame(C):
    m1, m0 = C.self, C.old.self
    return And(m1.base_constants.z == m0.base_constants.z, m1.base_points.z == m0.base_points.z,
               C.scenario_dictionary.wf, m0.base_constants.wf, m0.base_points.wf)


def part_merged(C, sc, which, base, given, k):
    """sc[which] = given[which] overlaid on the first k entries of base"""
    return And(
        sc.has(which), Implies(Not(given.has(which)), sc[which].oid != base.oid),
        FA('str', lambda c: And(
            Implies(And(given.has(which), given[which].has(c)), And(sc[which].has(c), sc[which].raw(c) == given[which].raw(c))),
            Implies(And(base.has(c), d_pos(CONSTS, base.z)[c] < k, Not(And(given.has(which), given[which].has(c)))),
                    And(sc[which].has(c), sc[which].raw(c) == base.raw(c))),
            # nothing else is in it
            Implies(sc[which].has(c), Or(And(given.has(which), given[which].has(c)), And(base.has(c), d_pos(CONSTS, base.z)[c] < k))))))


def add_inner(which, base_attr):
    def inv(C):
        sc = C.v.scenario
        m0 = C.old.self
        base = getattr(m0, base_attr)
        d = C.scenario_dictionary
        key = d.keys.raw(C.outer_k)
        given = d[key]
        parts = [add_frame(C), add_state(C, C.outer_k), 0 <= C.outer_k, C.outer_k < d.keys.len, C.v.name == key,
                 part_merged(C, sc, which, base, given, C.k)]
        if which == 'constants':
            # the points entry is still as given
            parts += [sc.has('points') == given.has('points'), Implies(given.has('points'), sc['points'].z == given['points'].z)]
        else:
            # the constants are finished (all of base_constants merged, if there are any)
            parts += [Implies(m0.base_constants.size > 0, part_merged(C, sc, 'constants', m0.base_constants, given, m0.base_constants.size)),
                      Implies(m0.base_constants.size == 0, And(sc.has('constants') == given.has('constants'),
                                                               Implies(given.has('constants'), sc['constants'].z == given['constants'].z)))]
        return And(*parts)
    return inv


c = contract('ScenarioManagerSd.add_scenarios', file=F_SM, props=['C06', 'C07'], allocates=True,
             params=dict(self=SMS, scenario_dictionary=TDict(STR, SETTINGS)),
             requires=lambda C: And(C.scenario_dictionary.wf, C.self.base_constants.wf, C.self.base_points.wf),
             ensures=lambda C: And(add_frame(C), add_state(C, C.scenario_dictionary.keys.len)),
             loops={0: lambda C: And(add_frame(C), add_state(C, C.k)), 1: add_inner('constants', 'base_constants'),
                    2: add_inner('points', 'base_points')},
             modifies=['ScenarioManagerSd.scenarios', 'SdScenario.dictionary', 'SdScenario.scenario_manager', 'SdScenario.model',
                       'SdScenario.sd_simulation', 'SdScenario.stoptime', 'SdScenario.starttime', 'SdScenario.dt', 'SdScenario.constants',
                       'SdScenario.points', 'SdScenario.name', 'SdScenario.result', 'SdModel.points'])
CONTRACTS['SimulationScenario.__init__'] = CONTRACTS['SdScenario.__init__']
declare_class('SimulationScenario', ['SdScenario'])
