"""C05 -- the simulated time grid is exact.  K1 contracts in the float-agnostic encoding F of DESIGN 2.2.6:
float arithmetic is kept symbolic where the claim is structural (round(x,p) is the uninterpreted rnd(x,p); a label is
CANONICAL at p digits iff rnd(x,p) == x), and interpreted over the reals for the numeric lemmas (encoding R).

Functions: util/floating_point.py normalize, timerange, scale; Model.memoize (modeling/model.py);
SdSimulation.__simulate (sdsimulation/sd_simulation.py); bptk.run_step clock (structural obligation, c05_clock)."""
import z3
from verif.pyvc.spec import *  # noqa
from verif.pyvc.calls import RND, ROUND

And, Or, Not, Implies, If = z3.And, z3.Or, z3.Not, z3.Implies, z3.If

F_FP = 'BPTK_Py/util/floating_point.py'
F_MODEL = 'BPTK_Py/modeling/model.py'
F_SIM = 'BPTK_Py/sdsimulation/sd_simulation.py'

EQFUN = TFun('equation_fn', contract='fun:equation')
if 'object' not in CLASSES:
    declare_class('object')
declare_class('SdModel', ['object'], memo=TDict(STR, TDict(REAL, REAL)), equations=TDict(STR, EQFUN), dt=REAL, starttime=REAL,
              stoptime=REAL, g_evals=INT)
declare_class('SdSimulation', ['object'], mod=TRef('SdModel'), results=TDict(STR, TDict(REAL, REAL)), finished_simulations_count=INT)
SDM = TRef('SdModel')

SCALE = z3.Function('fp_scale', z3.RealSort(), z3.IntSort())


def canon(x, p):
    """x is a canonical decimal label at p digits"""
    return RND(x, p) == x


def next_grid(i, dt, start, p):
    """the grid label after i (as computed by the code: normalize(i+dt, dt, start, p))"""
    return RND(dt * z3.ToReal(ROUND((i + dt - start) / dt)) + start, p)


def prec(start, dt):
    a, b = SCALE(start), SCALE(dt)
    return If(b > a, b, a)


# assumed library facts about rounding (hold for CPython's correctly rounded round())
def rnd_axioms(*terms):
    """idempotence of round(., p) and monotonicity of canonicity in p, instantiated at the given (x, p) pairs"""
    out = []
    for x, p in terms:
        out.append(RND(RND(x, p), p) == RND(x, p))
    return And(*out) if out else z3.BoolVal(True)


contract('fp.scale', trusted=True, props=['C05'], params=dict(x=REAL), returns=INT,
         note='scale(x): number of decimals of x (checked only by bounded lattice execution, engine c05_scale); x is canonical at scale(x) digits',
         ensures=lambda C: And(C.result == SCALE(C.x), C.result >= 0, canon(C.x, SCALE(C.x))))
contract('scale', trusted=True, props=['C05'], params=dict(x=REAL), returns=INT, note='see fp.scale',
         ensures=lambda C: And(C.result == SCALE(C.x), C.result >= 0, canon(C.x, SCALE(C.x))))

contract('normalize', file=F_FP, props=['C05'], params=dict(x=REAL, base=REAL, offset=REAL, precision=INT), returns=REAL,
         defaults=dict(base=sv_real(1), offset=sv_real(0.0), precision=sv_int(2)),
         requires=lambda C: C.base != 0,
         ensures=lambda C: And(C.result == RND(C.base * z3.ToReal(ROUND((C.x - C.offset) / C.base)) + C.offset, C.precision),
                               # idempotence of round (assumed library fact) makes the result a canonical label
                               canon(C.result, C.precision)))
c = CONTRACTS['normalize']
CONTRACTS['fp.normalize'] = c


def tr_inv(C):
    tr = C.v.timerange
    i = C.v.i
    st, dt, stop = C.v.starttime, C.v.dt, C.v.stoptime
    p = prec(st, dt)
    return And(
        st == C.old.starttime, dt == C.old.dt, stop == C.old.stoptime,      # (x*1.0 == x over the reals)
        # every label recorded so far is the start or a canonical grid label, consecutive labels are successors
        FA('idx', lambda j: Implies(And(0 <= j, j < tr.len), Or(tr.raw(j) == st, canon(tr.raw(j), p)))),
        FA('idx', lambda j: Implies(And(0 <= j, j + 1 < tr.len), tr.raw(j + 1) == next_grid(tr.raw(j), dt, st, p))),
        FA('idx', lambda j: Implies(And(0 <= j, j < tr.len), And(tr.raw(j) <= stop, Implies(C.exclusive, tr.raw(j) < stop)))),
        Implies(tr.len == 0, i == st),
        Implies(tr.len > 0, And(tr.raw(0) == st,
                                Or(i == next_grid(tr.raw(tr.len - 1), dt, st, p),
                                   # the label `stop` itself was skipped because the range is exclusive; the loop ends now
                                   And(C.exclusive, next_grid(tr.raw(tr.len - 1), dt, st, p) == stop, i > stop)))),
        Or(i == st, canon(i, p)))


def grid_increasing(C):
    """assumption (encoding R fact, stated once): the successor label is above the current one"""
    st, dt = C.starttime, C.dt
    p = prec(st, dt)
    return FA('real', lambda i: next_grid(i, dt, st, p) > i, pats=lambda i: [next_grid(i, dt, st, p)])


def tr_post(C):
    tr = C.result
    st, dt, stop = C.starttime, C.dt, C.stoptime
    p = prec(st, dt)
    return And(
        FA('idx', lambda j: Implies(And(0 <= j, j < tr.len), Or(tr.raw(j) == st, canon(tr.raw(j), p)))),
        FA('idx', lambda j: Implies(And(0 <= j, j + 1 < tr.len), tr.raw(j + 1) == next_grid(tr.raw(j), dt, st, p))),
        FA('idx', lambda j: Implies(And(0 <= j, j < tr.len), And(tr.raw(j) <= stop, Implies(C.exclusive, tr.raw(j) < stop)))),
        Implies(tr.len > 0, tr.raw(0) == st),
        # nothing is missing at the end: the successor of the last label is beyond the range
        Implies(tr.len > 0, Or(next_grid(tr.raw(tr.len - 1), dt, st, p) > stop,
                               And(C.exclusive, next_grid(tr.raw(tr.len - 1), dt, st, p) >= stop))))


contract('timerange', file=F_FP, props=['C05'], params=dict(starttime=REAL, stoptime=REAL, dt=REAL, exclusive=BOOL),
         returns=TList(REAL), defaults=dict(exclusive=sv_bool(True)), locals=dict(timerange=TList(REAL)),
         requires=lambda C: And(C.dt != 0, Or(Not(C.exclusive), C.starttime < C.stoptime), grid_increasing(C)),
         ensures=tr_post, loops={0: tr_inv})
CONTRACTS['fp.timerange'] = CONTRACTS['timerange']

# ---------------------------------------------------------------------------------------------------
# Model.memoize: compute once, under the NORMALISED key (C05 "any arithmetic route", C08 "single value")
# ---------------------------------------------------------------------------------------------------

GH5 = {'lastarg': REAL}


def _arg_ghost(C, st):
    st.ghost['lastarg'] = SV(REAL, C.t)


def _eval_ghost(C, st):
    arr = st.heap_arr_cf('SdModel', 'g_evals')
    m = C.model.z
    st.heap[('SdModel', 'g_evals')] = z3.Store(arr, m, z3.Select(arr, m) + 1)


EQVAL = z3.Function('equation_value', EQFUN.sort(), z3.RealSort(), z3.IntSort(), z3.RealSort())

contract('fun:equation', trusted=True, props=['C05', 'C08', 'C01'], allocates=False,
         note='a generated equation lambda t -> value: may evaluate other elements through memoize (the memo only grows, '
              'existing entries keep their value); each evaluation is counted in the ghost g_evals',
         params=dict(t=REAL), returns=REAL, modifies=['SdModel.memo'], ghost_mods=['SdModel.g_evals', '$lastarg'], ghost=GH5,
         ghost_update=_arg_ghost, ensures=lambda C: memo_grows(C))


def memo_grows(C):
    a1, a0 = C.st.heap_arr_cf('SdModel', 'memo'), C.old_st.heap_arr_cf('SdModel', 'memo')
    MT = TDict(STR, TDict(REAL, REAL))
    IT = TDict(REAL, REAL)
    return FA('ref', 'str', 'real',
              lambda r, e, k: Implies(And(d_dom(MT, a0[r])[e], d_dom(IT, d_val(MT, a0[r])[e])[k]),
                                      And(d_dom(MT, a1[r])[e], d_dom(IT, d_val(MT, a1[r])[e])[k],
                                          d_val(IT, d_val(MT, a1[r])[e])[k] == d_val(IT, d_val(MT, a0[r])[e])[k])),
              pats=lambda r, e, k: [d_val(IT, d_val(MT, a1[r])[e])[k]])


def memo_key(C):
    m = C.old.self
    return RND(m.dt * z3.ToReal(ROUND((C.arg - m.starttime) / m.dt)) + m.starttime, prec(m.starttime, m.dt))


def memoize_post(C):
    m1, m0 = C.self, C.old.self
    e = C.equation
    key = memo_key(C)
    had = And(m0.memo.has(e), m0.memo[e].has(key))
    return And(
        # the value is stored under, and returned from, the NORMALISED key -- never the raw argument
        m1.memo.has(e), m1.memo[e].has(key), m1.memo[e][key] == C.result,
        # compute once: a key that is present is returned without evaluating the equation and never overwritten
        Implies(had, And(C.result == m0.memo[e][key], m1.memo.z == m0.memo.z)),
        # a key that is absent is computed by evaluating the equation AT THE NORMALISED TIME (the grid label), not at the raw argument
        Implies(Not(had), C.g('lastarg') == key),
        # entries that existed keep their value (single value per (element, time) within a run)
        FA('str', 'real', lambda e2, k2: Implies(And(m0.memo.has(e2), m0.memo[e2].has(k2)),
                                                 And(m1.memo.has(e2), m1.memo[e2].has(k2), m1.memo[e2][k2] == m0.memo[e2][k2])),
           pats=lambda e2, k2: [m1.memo[e2].raw(k2)]))


def memo_kept(C):
    m1, m0 = C.self, C.old.self
    return FA('str', 'real', lambda e2, k2: Implies(And(m0.memo.has(e2), m0.memo[e2].has(k2)),
                                                    And(m1.memo.has(e2), m1.memo[e2].has(k2), m1.memo[e2][k2] == m0.memo[e2][k2])),
              pats=lambda e2, k2: [m1.memo[e2].raw(k2)])


c = contract('Model.memoize', file=F_MODEL, props=['C05', 'C08', 'C01'], params=dict(self=SDM, equation=STR, arg=REAL), returns=REAL,
             requires=lambda C: C.self.dt != 0,
             ensures=memoize_post,
             modifies=['SdModel.memo'], ghost_mods=['SdModel.g_evals', '$lastarg'], ghost=GH5,
             raises={'KeyError': lambda C: Not(C.self.equations.has(C.equation))},
             exc_ensures={'KeyError': lambda C: memo_kept(C)})
c.locals = dict(mymemo=TDict(REAL, REAL))


contract('Model.previous_time', file=F_MODEL, props=['C05', 'C01'], params=dict(self=SDM, t=REAL), returns=REAL,
         requires=lambda C: C.self.dt != 0,
         # the grid label of t - dt: the same key function memoize uses, so an equation read "one step back" sees a canonical time
         ensures=lambda C: C.result == mkey(C.self, C.t - C.self.dt))

contract('Model.equation', file=F_MODEL, props=['C05', 'C09'], params=dict(self=SDM, equation=STR, t=REAL), returns=REAL,
         requires=lambda C: C.self.dt != 0,
         ensures=lambda C: memoize_post(Ctx(C.ex, C.st, C.old_st, dict(C.params, arg=C.params['t']), result=C._result, side=C.side)),
         modifies=['SdModel.memo'], ghost_mods=['SdModel.g_evals', '$lastarg'], ghost=GH5,
         raises={'KeyError': lambda C: Not(C.self.equations.has(C.equation))}, exc_ensures={'KeyError': memo_kept})
CONTRACTS['SdModel.equation'] = CONTRACTS['Model.equation']
# the view of Model.equation used by __simulate: only that the memo keeps growing (implied by the full contract above)
contract('SdModel.equation#frame', trusted=True, props=['C05'], params=dict(self=SDM, equation=STR, t=REAL), returns=REAL,
         note='weakening of the verified contract of Model.equation (memo entries are kept)',
         requires=lambda C: C.self.dt != 0, ensures=memo_kept, modifies=['SdModel.memo'], ghost_mods=['SdModel.g_evals', '$lastarg'], ghost=GH5,
         raises={'KeyError': lambda C: Not(C.self.equations.has(C.equation))}, exc_ensures={'KeyError': memo_kept})
CONTRACTS['SdModel.memoize'] = CONTRACTS['Model.memoize']


def mkey(m, x):
    return RND(m.dt * z3.ToReal(ROUND((x - m.starttime) / m.dt)) + m.starttime, prec(m.starttime, m.dt))


def sim_inv(C):
    s1, s0 = C.self, C.old.self
    m = s0.mod
    e = C.equation
    tr = C.it
    r1, r0 = s1.results, s0.results
    return And(s1.mod == m, m != NULL, m.dt == C.old.self.mod.dt, m.starttime == C.old.self.mod.starttime,
               C.k <= tr.len,
               # one entry per label visited so far, holding the memoised value of the equation at that label
               FA('idx', lambda j: Implies(And(0 <= j, j < C.k),
                                           And(r1.has(e), r1[e].has(tr.raw(j))))),
               # nothing else is written
               FA('str', lambda e2: Implies(e2 != e, And(r1.has(e2) == r0.has(e2), r1.raw(e2) == r0.raw(e2)))),
               FA('real', lambda x: Implies(And(r1.has(e), r1[e].has(x)),
                                            Or(And(r0.has(e), r0[e].has(x)), EX('idx', lambda j: And(0 <= j, j < C.k, tr.raw(j) == x))))),
               s1.finished_simulations_count == s0.finished_simulations_count)


def sim_post(C):
    s1, s0 = C.self, C.old.self
    m = s0.mod
    e = C.equation
    r1, r0 = s1.results, s0.results
    return And(s1.finished_simulations_count == s0.finished_simulations_count + 1,
               FA('str', lambda e2: Implies(e2 != e, And(r1.has(e2) == r0.has(e2), r1.raw(e2) == r0.raw(e2)))),
               # a known equation gets an entry whose keys are labels of timerange(start, until+dt, dt) (or were there before)
               Implies(And(m.equations.has(e), r1.has(e)),
                       FA('real', lambda x: Implies(r1[e].has(x), Or(And(r0.has(e), r0[e].has(x)), x == C.start,
                                                                      canon(x, prec(C.start, m.dt)))))))


from verif.pyvc.exec import STR_CONTAINS
c = contract('SdSimulation.__simulate', file=F_SIM, props=['C05', 'C09'], params=dict(self=TRef('SdSimulation'), equation=STR, until=REAL, start=REAL),
             requires=lambda C: And(C.self.mod != NULL, C.self.mod.dt != 0, Not(STR_CONTAINS(C.equation, strlit('*'))),
                                    C.start < C.until + C.self.mod.dt,
                                    FA('real', lambda i: next_grid(i, C.self.mod.dt, C.start, prec(C.start, C.self.mod.dt)) > i,
                                       pats=lambda i: [next_grid(i, C.self.mod.dt, C.start, prec(C.start, C.self.mod.dt))])),
             ensures=sim_post, loops={0: sim_inv},
             modifies=['SdSimulation.results', 'SdSimulation.finished_simulations_count', 'SdModel.memo'], ghost_mods=['SdModel.g_evals', '$lastarg'], ghost=GH5)
c.locals = dict(dic_t=TDict(REAL, REAL))
c.callee_alias = {'Model.equation': 'SdModel.equation#frame'}
