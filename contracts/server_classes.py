"""Class table and assumed library contracts shared by the REST-server properties C15-C20
(BPTK_Py/server/bptkServer.py, the lock functions of BPTK_Py/bptk.py, external state adapters)."""
import z3
from verif.pyvc.spec import *  # noqa

And, Or, Not, Implies, If = z3.And, z3.Or, z3.Not, z3.Implies, z3.If

F_SRV = 'BPTK_Py/server/bptkServer.py'
F_BPTK = 'BPTK_Py/bptk.py'

UNITS = ['weeks', 'days', 'hours', 'minutes', 'seconds', 'milliseconds', 'microseconds']
FACTOR = {'weeks': '604800', 'days': '86400', 'hours': '3600', 'minutes': '60', 'seconds': '1',
          'milliseconds': '1/1000', 'microseconds': '1/1000000'}
TIMEOUT = TRec('timeout', {u: REAL for u in UNITS})
SESSION = TRec('session', {'lock': BOOL, 'step': REAL, 'stoptime': REAL, 'starttime': REAL, 'dt': REAL,
                           'settings_log': TOpaque('log'), 'results_log': TOpaque('log')},
               rest=TDict(STR, TOpaque('sessionvalue')))
INSTREC = TRec('instance_data', {'instance': TRef('bptk'), 'time': DATETIME, 'timeout': TIMEOUT})

declare_class('object') if 'object' not in CLASSES else None
declare_class('bptk', ['object'], session_state=TOpt(SESSION), g_destroyed=INT, g_owner=STR)
BPTK_FACTORY = TFun('bptk_factory', contract='fun:bptk_factory')
declare_class('InstanceManager', ['object'], _instances=TDict(STR, INSTREC), _bptk_factory=BPTK_FACTORY)
declare_class('InstanceState', ['object'], state=TOpt(SESSION), instance_id=STR, time=DATETIME, timeout=TIMEOUT, step=REAL)
declare_class('Adapter', ['object'], compress=BOOL)
declare_class('Response', ['object'], status=INT, headers=TDict(STR, STR), body=TOpaque('body'))
declare_class('Request', ['object'], is_json=BOOL, headers=TDict(STR, STR))
declare_class('BptkServer', ['object'], _instance_manager=TRef('InstanceManager'), _external_state_adapter=TRef('Adapter'),
              _bearer_token=TOpt(STR), _bptk=TRef('bptk'))
declare_class('UUID', ['object'], hex=STR)

IM = TRef('InstanceManager')
SRV = TRef('BptkServer')
B = TRef('bptk')

GHOST_SRV = {'now': DATETIME}
GH_SAVE = dict(saves=INT, saved_obj=TRef('InstanceState'))   # ghost log of calls to the storage back end


def td_seconds(rec_view_or_z, ty=TIMEOUT, present_only=True):
    """seconds denoted by a timeout record: sum of unit*factor over the keys present"""
    z = rec_view_or_z.z if hasattr(rec_view_or_z, 'z') else rec_view_or_z
    total = z3.RealVal(0)
    for u in UNITS:
        v = ty.get(z, u) * z3.RealVal(FACTOR[u])
        total = total + (If(ty.has(z, u), v, 0) if present_only else v)
    return total


# --- assumed library contracts ------------------------------------------------------------------------
contract('datetime.datetime.now', trusted=True, props=['C17', 'C16', 'C19'], ghost=GHOST_SRV,
         note='monotone clock: every reading is >= the previous one', params={}, returns=DATETIME,
         modifies=['$now'],
         ensures=lambda C: And(C.result >= C.old.g('now'), C.g('now') == C.result))

_td = contract('datetime.timedelta', trusted=True, props=['C17'],
               note='timedelta(**kw) = sum of unit*factor over the seven units (absent = 0)',
               params={u: REAL for u in UNITS}, returns=TIMEDELTA,
               defaults={u: sv_real(0) for u in UNITS},
               ensures=lambda C: C.result == sum((getattr(C, u) * z3.RealVal(FACTOR[u]) for u in UNITS), z3.RealVal(0)))

contract('uuid.uuid1', trusted=True, props=['C17', 'C16'], note='returns an object whose .hex is a new identifier',
         params={}, returns=TRef('UUID'), allocates=True,
         ensures=lambda C: And(C.result != NULL, C.fresh(C.result)))

contract('fun:bptk_factory', trusted=True, props=['C17', 'C16'], allocates=True,
         note='user factory: returns a fresh bptk object; shares no mutable state with earlier ones (assumed)',
         params={}, returns=B,
         ensures=lambda C: And(C.result != NULL, C.fresh(C.result), C.isinst(C.result, 'bptk'),
                               C.result.g_destroyed == 0))


def _destroy_ghost(C, st):
    arr = st.heap_arr_cf('bptk', 'g_destroyed')
    st.heap[('bptk', 'g_destroyed')] = z3.Store(arr, C.self.z, z3.Select(arr, C.self.z) + 1)


contract('bptk.destroy', trusted=True, props=['C17', 'C16'], note='releases the resources of this bptk object only',
         params=dict(self=B), ghost_mods=['bptk.g_destroyed'], ghost_update=_destroy_ghost)

contract('threading.active_count', trusted=True, props=['C17'], params={}, returns=INT)
