"""C07 / C09 / C06 replay/search: every way of obtaining results for SD scenarios (batch df/dict/json, stepwise session,
REST endpoints) against a model built directly with the scenario's settings and simulated with an independent Euler loop."""
import random
import time
from verif.native.common import load_hint, write_replay, finish, ROOT

PRELUDE = '''
import json, math
from fractions import Fraction
from BPTK_Py import Model, bptk
from BPTK_Py.server import BptkServer
from BPTK_Py import sd_functions as sd

def build(start, stop, dt, rate, pts):
    m = Model(starttime=start, stoptime=stop, dt=dt, name="m")
    s = m.stock("s"); f = m.flow("f"); r = m.constant("rate"); g = m.converter("g")
    m.points["p"] = pts
    r.equation = rate
    g.equation = sd.lookup(sd.time(), "p")
    f.equation = r + g
    s.initial_value = 0.0
    s.equation = f
    return m

def lerp(x, pts):
    if x <= pts[0][0]: return pts[0][1]
    if x >= pts[-1][0]: return pts[-1][1]
    for (x0, y0), (x1, y1) in zip(pts, pts[1:]):
        if x0 <= x <= x1: return y0 + (y1 - y0) * (x - x0) / (x1 - x0)

def reference(start, stop, dt, schedule, n_steps=None):
    """schedule: function step index -> (rate, pts) in force when that step is evaluated (settings apply from their step onwards)"""
    grid = []
    k = 0
    while True:
        t = float(Fraction(str(start)) + k * Fraction(str(dt)))
        if t > stop + 1e-12: break
        grid.append(t); k += 1
    s = 0.0
    out = {}
    for k, t in enumerate(grid):
        rate, pts = schedule(k)
        if k > 0:
            prate, ppts = schedule(k)      # the flow of the previous time is evaluated with the settings in force NOW unless memoised
        out[t] = None
    # explicit: value of s at grid[k] uses flow at grid[k-1] as it was computed when grid[k-1] was evaluated
    flows = {}
    vals = {}
    for k, t in enumerate(grid):
        rate, pts = schedule(k)
        flows[k] = max(0, rate + lerp(t, pts))
        vals[t] = 0.0 if k == 0 else vals[grid[k - 1]] + dt * flows[k - 1]
    return grid, vals, flows

def close(a, b):
    return math.isclose(float(a), float(b), rel_tol=1e-9, abs_tol=1e-9)

def run(case):
    """case: dict(start, stop, dt, base_rate, scen: {name: dict(rate?, pts?, runspecs?)}, base_constants?, steps: {k: (scenario, rate)})"""
    start, stop, dt = case["start"], case["stop"], case["dt"]
    P0 = [[0.0, 0.0], [100.0, 0.0]]
    m = build(start, stop, dt, case["base_rate"], P0)
    b = bptk()
    try:
        b.register_model(m)
        sm = {"sm": {"model": m}}
        if case.get("base_constants") is not None:
            sm["sm"]["base_constants"] = {"rate": case["base_constants"]}
        b.register_scenario_manager(sm)
        scen_dict = {}
        for name, sc in case["scen"].items():
            d = {}
            if "rate" in sc: d["constants"] = {"rate": sc["rate"]}
            if "pts" in sc: d["points"] = {"p": sc["pts"]}
            if "runspecs" in sc: d["runspecs"] = dict(sc["runspecs"])
            scen_dict[name] = d
        b.register_scenarios(scenario_manager="sm", scenarios=scen_dict)
        names = list(case["scen"])
        def settings_of(name):
            sc = case["scen"][name]
            rate = sc.get("rate", case["base_constants"] if case.get("base_constants") is not None else case["base_rate"])
            pts = sc.get("pts", P0)
            rs = sc.get("runspecs", {})
            return rate, pts, rs.get("starttime", start), rs.get("stoptime", stop), rs.get("dt", dt)
        # ---- batch run in all formats ----------------------------------------------------------------------
        for name in names:
            rate, pts, st, sp, d = settings_of(name)
            grid, vals, _ = reference(st, sp, d, lambda k: (rate, pts))
            df = b.run_scenarios(scenario_managers=["sm"], scenarios=[name], equations=["s"])
            idx = [float(x) for x in df.index]
            if idx != grid:
                return "batch df of scenario %s covers %r, expected grid %r" % (name, idx[:10], grid[:10])
            col = df[df.columns[0]]
            for t in grid:
                if not close(col[t], vals[t]):
                    return "batch df: %s s(%r) = %r, a model built directly with rate=%r gives %r" % (name, t, col[t], rate, vals[t])
            dd = b.run_scenarios(scenario_managers=["sm"], scenarios=[name], equations=["s"], return_format="dict")
            series = dd["sm"][name]["equations"]["s"]
            if hasattr(series, "to_dict"):
                series = series.to_dict()
            if sorted(float(k) for k in series) != grid or any(not close(series[t], vals[t]) for t in grid):
                return "batch dict differs from the reference for scenario %s" % name
            js = json.loads(b.run_scenarios(scenario_managers=["sm"], scenarios=[name], equations=["s"], return_format="json"))
            series = js["sm"][name]["equations"]["s"]
            if sorted(float(k) for k in series) != grid or any(not close(series[str(t)] if str(t) in series else series[repr(t)], vals[t]) for t in grid):
                return "batch json differs from the reference for scenario %s" % name
        # ---- stepwise session with per-step settings ---------------------------------------------------------
        sess = [n for n in names if "runspecs" not in case["scen"][n]]
        if sess:
            b.begin_session(scenarios=sess, scenario_managers=["sm"], equations=["s", "f"], starttime=start, dt=dt)
            cur = {n: list(settings_of(n)[:2]) for n in sess}
            hist = {n: {} for n in sess}
            grid0 = reference(start, stop, dt, lambda k: (0, P0))[0]
            got = {n: {} for n in sess}
            for k, t in enumerate(grid0):
                stg = None
                if k in case.get("steps", {}):
                    who, newrate = case["steps"][k]
                    if who in sess:
                        stg = {"sm": {who: {"constants": {"rate": newrate}}}}
                        cur[who][0] = newrate
                for n in sess:
                    hist[n][k] = tuple(cur[n])
                res = b.run_step(settings=stg)
                for n in sess:
                    tt = [float(x) for x in res["sm"][n]["s"].keys()]
                    if tt != [t]:
                        return "session step %d of %s reports times %r, expected [%r]" % (k, n, tt, t)
                    got[n][t] = list(res["sm"][n]["s"].values())[0]
            for n in sess:
                grid, vals, _ = reference(start, stop, dt, lambda k, n=n: hist[n][k])
                for t in grid:
                    if not close(got[n][t], vals[t]):
                        return "session: %s s(%r) = %r, expected %r (per-step settings %r)" % (n, t, got[n][t], vals[t], case.get("steps"))
            sr = b.session_results(index_by_time=False)
            for n in sess:
                ser = sr["sm"][n]["equations"]["s"]
                if [float(x) for x in ser.keys()] != grid0 or any(not close(ser[t], got[n][t]) for t in grid0):
                    return "session_results of %s differ from the step results" % n
            # a second session on the same scenarios, begun WITHOUT settings and without ending the first one:
            # it starts from the scenarios' own settings again
            b.begin_session(scenarios=sess, scenario_managers=["sm"], equations=["s"], starttime=start, dt=dt)
            second = {n: {} for n in sess}
            for k, t in enumerate(grid0):
                res = b.run_step()
                for n in sess:
                    second[n][t] = list(res["sm"][n]["s"].values())[0]
            for n in sess:
                rate, pts = settings_of(n)[:2]
                grid, vals, _ = reference(start, stop, dt, lambda k: (rate, pts))
                touched = [who for (who, _r) in case.get("steps", {}).values()]
                if n in touched and "rate" not in case["scen"][n]:
                    continue      # KNOWN FINDING (see known_findings.json C09-step-settings-persist), probed separately
                for t in grid:
                    if not close(second[n][t], vals[t]):
                        return "second session: %s s(%r) = %r, expected %r from the scenario's own settings (first session applied %r)" % (n, t, second[n][t], vals[t], case.get("steps"))
            b.end_session()
            # a session begun WITH settings for one scenario re-parameterises that scenario only
            if len(sess) >= 2:
                who = sess[0]
                b.begin_session(scenarios=sess, scenario_managers=["sm"], equations=["s"], starttime=start, dt=dt,
                                settings={"sm": {who: {"constants": {"rate": 9.0}}}})
                third = {n: {} for n in sess}
                for k, t in enumerate(grid0):
                    res = b.run_step()
                    for n in sess:
                        third[n][t] = list(res["sm"][n]["s"].values())[0]
                b.end_session()
                b.register_scenarios(scenario_manager="sm", scenarios={"LATE": {}})
                late = b.run_scenarios(scenario_managers=["sm"], scenarios=["LATE"], equations=["s"])
                lrate = case["base_constants"] if case.get("base_constants") is not None else case["base_rate"]
                grid, vals, _ = reference(start, stop, dt, lambda k: (lrate, P0))
                col = late[late.columns[0]]
                for t in grid:
                    if not close(col[t], vals[t]):
                        return "scenario registered after a session that re-parameterised %s: s(%r) = %r, expected %r" % (who, t, col[t], vals[t])
                for n in sess[1:]:
                    touched = [w for (w, _r) in case.get("steps", {}).values()]
                    if n in touched and "rate" not in case["scen"][n]:
                        continue
                    rate, pts = settings_of(n)[:2]
                    grid, vals, _ = reference(start, stop, dt, lambda k: (rate, pts))
                    for t in grid:
                        if not close(third[n][t], vals[t]):
                            return "settings given to %s at begin_session changed scenario %s: s(%r) = %r, expected %r" % (who, n, t, third[n][t], vals[t])
        # a session over ALL scenarios (also those with run specs of their own), stepped a little and ended: afterwards every
        # scenario still gives the batch results of its own settings (C06: stepping one scenario never changes another)
        touched = [w for (w, _r) in case.get("steps", {}).values()]
        if len(names) >= 2 and not [n for n in touched if "rate" not in case["scen"][n]]:
            b.begin_session(scenarios=names, scenario_managers=["sm"], equations=["s"], starttime=start, dt=dt)
            for _ in range(2):
                b.run_step()
            b.end_session()
            for name in names:
                if len(sess) >= 2 and name == sess[0]:
                    continue      # re-parameterised on purpose by the settings of the third session above (rate 9.0)
                rate, pts, st, sp, d = settings_of(name)
                grid, vals, _ = reference(st, sp, d, lambda k: (rate, pts))
                df = b.run_scenarios(scenario_managers=["sm"], scenarios=[name], equations=["s"])
                idx = [float(x) for x in df.index]
                if idx != grid:
                    return "after a session over all scenarios (dt %r), the batch run of %s covers %r, its own run specs give %r" % (dt, name, idx[:8], grid[:8])
                col = df[df.columns[0]]
                for t in grid:
                    if not close(col[t], vals[t]):
                        return "after a session over all scenarios, batch %s s(%r) = %r, expected %r" % (name, t, col[t], vals[t])
    finally:
        b.destroy()
    return None

def build2(start, stop, dt, a, b_, P, Q):
    m = Model(starttime=start, stoptime=stop, dt=dt, name="m2")
    s = m.stock("s"); f = m.flow("f"); ca = m.constant("a"); cb = m.constant("b"); g = m.converter("g"); h = m.converter("h")
    m.points["p"] = P
    m.points["q"] = Q
    ca.equation = a
    cb.equation = b_
    g.equation = sd.lookup(sd.time(), "p")
    h.equation = sd.lookup(sd.time(), "q")
    f.equation = ca + cb * 2.0 + g + h * 3.0
    s.initial_value = 0.0
    s.equation = f
    return m

def reference2(start, stop, dt, schedule):
    """schedule(k) -> (a, b, P, Q) in force when grid point k is evaluated"""
    grid = []
    k = 0
    while True:
        t = float(Fraction(str(start)) + k * Fraction(str(dt)))
        if t > stop + 1e-12: break
        grid.append(t); k += 1
    flows = {}; vals = {}
    for k, t in enumerate(grid):
        a, b_, P, Q = schedule(k)
        flows[k] = max(0, a + 2.0 * b_ + lerp(t, P) + 3.0 * lerp(t, Q))
        vals[t] = 0.0 if k == 0 else vals[grid[k - 1]] + dt * flows[k - 1]
    return grid, vals

MP0 = [[0.0, 0.0], [100.0, 0.0]]
MQ0 = [[0.0, 1.0], [100.0, 1.0]]

def _multi_setup(case):
    start, stop, dt = case["start"], case["stop"], case["dt"]
    a0, b0 = case["base"]
    m = build2(start, stop, dt, a0, b0, MP0, MQ0)
    b = bptk()
    b.register_model(m)
    sm = {"sm": {"model": m}}
    if case.get("base_constants"):
        sm["sm"]["base_constants"] = dict(case["base_constants"])
    if case.get("base_points"):
        sm["sm"]["base_points"] = {k: [list(x) for x in v] for k, v in case["base_points"].items()}
    b.register_scenario_manager(sm)
    scen = {}
    for name, sc in case["scen"].items():
        d = {}
        if sc.get("constants"): d["constants"] = dict(sc["constants"])
        if sc.get("points"): d["points"] = {k: [list(x) for x in v] for k, v in sc["points"].items()}
        scen[name] = d
    b.register_scenarios(scenario_manager="sm", scenarios=scen)
    return m, b

def _multi_values(case, name):
    """(a, b, P, Q) of a scenario: its own values, else the manager's base values, else the model's"""
    a0, b0 = case["base"]
    bc = case.get("base_constants") or {}
    bp = case.get("base_points") or {}
    sc = case["scen"][name]
    c = dict(a=a0, b=b0); c.update(bc); c.update(sc.get("constants") or {})
    p = dict(p=MP0, q=MQ0); p.update(bp); p.update(sc.get("points") or {})
    return c["a"], c["b"], p["p"], p["q"]

def run_multi(case):
    """models with TWO constants and TWO graphical functions: settings that name several keys at once, settings that name
    other keys than the registration did, one model under two managers, a finer dt given with the session settings.
    case: dict(start, stop, dt, base=(a, b), base_constants?, base_points?, scen={name: {constants?, points?}},
               step=(k, who, {constants}), begin=(who, {constants?, points?}), fine=dt or None)"""
    start, stop, dt = case["start"], case["stop"], case["dt"]
    names = list(case["scen"])
    # ---- A: batch, every format; the three formats report the SAME numbers ------------------------------------------------
    m, b = _multi_setup(case)
    try:
        for name in names:
            a, b_, P, Q = _multi_values(case, name)
            grid, vals = reference2(start, stop, dt, lambda k: (a, b_, P, Q))
            df = b.run_scenarios(scenario_managers=["sm"], scenarios=[name], equations=["s", "f"])
            idx = [float(x) for x in df.index]
            if idx != grid:
                return "batch df of scenario %s covers %r, expected grid %r" % (name, idx[:10], grid[:10])
            for t in grid:
                if not close(df["s"][t], vals[t]):
                    return "batch df: %s s(%r) = %r, a model built directly with a=%r b=%r p=%r q=%r gives %r" % (name, t, df["s"][t], a, b_, P, Q, vals[t])
            dd = b.run_scenarios(scenario_managers=["sm"], scenarios=[name], equations=["s", "f"], return_format="dict")
            js = json.loads(b.run_scenarios(scenario_managers=["sm"], scenarios=[name], equations=["s", "f"], return_format="json"))
            for eq in ("s", "f"):
                ser = dd["sm"][name]["equations"][eq]
                if hasattr(ser, "to_dict"):
                    ser = ser.to_dict()
                sj = js["sm"][name]["equations"][eq]
                sj = {float(k): v for k, v in sj.items()}
                for t in grid:
                    if t not in ser or float(ser[t]) != float(df[eq][t]):
                        return "batch dict: %s %s(%r) = %r, the dataframe reports %r" % (name, eq, t, ser.get(t), df[eq][t])
                    if t not in sj or float(sj[t]) != float(df[eq][t]):
                        return "batch json: %s %s(%r) = %r, the dataframe reports %r" % (name, eq, t, sj.get(t), df[eq][t])
    finally:
        b.destroy()
    # ---- B: a step whose settings change several constants at once ---------------------------------------------------------
    if case.get("step"):
        k_set, who, newc = case["step"]
        m, b = _multi_setup(case)
        try:
            b.begin_session(scenarios=names, scenario_managers=["sm"], equations=["s", "f"], starttime=start, dt=dt)
            grid0 = reference2(start, stop, dt, lambda k: (0, 0, MP0, MQ0))[0]
            got = {n: {} for n in names}
            for k, t in enumerate(grid0):
                stg = {"sm": {who: {"constants": dict(newc)}}} if k == k_set else None
                res = b.run_step(settings=stg)
                for n in names:
                    tt = [float(x) for x in res["sm"][n]["s"].keys()]
                    if tt != [t]:
                        return "session step %d of %s reports times %r, expected [%r]" % (k, n, tt, t)
                    got[n][t] = list(res["sm"][n]["s"].values())[0]
            for n in names:
                a, b_, P, Q = _multi_values(case, n)
                def sched(k, n=n, a=a, b_=b_, P=P, Q=Q):
                    if n == who and k >= k_set:
                        return (newc.get("a", a), newc.get("b", b_), P, Q)
                    return (a, b_, P, Q)
                grid, vals = reference2(start, stop, dt, sched)
                for t in grid:
                    if not close(got[n][t], vals[t]):
                        return "session: %s s(%r) = %r, expected %r (step %d sets %r for %s)" % (n, t, got[n][t], vals[t], k_set, newc, who)
            b.end_session()
        finally:
            b.destroy()
    # ---- C: session settings that name OTHER keys than the registration: what was registered stays in force -----------------
    if case.get("begin"):
        who, stg = case["begin"]
        m, b = _multi_setup(case)
        try:
            d = {}
            if stg.get("constants"): d["constants"] = dict(stg["constants"])
            if stg.get("points"): d["points"] = {k: [list(x) for x in v] for k, v in stg["points"].items()}
            b.begin_session(scenarios=names, scenario_managers=["sm"], equations=["s"], starttime=start, dt=dt, settings={"sm": {who: d}})
            grid0 = reference2(start, stop, dt, lambda k: (0, 0, MP0, MQ0))[0]
            got = {n: {} for n in names}
            for k, t in enumerate(grid0):
                res = b.run_step()
                for n in names:
                    got[n][t] = list(res["sm"][n]["s"].values())[0]
            b.end_session()
            for n in names:
                a, b_, P, Q = _multi_values(case, n)
                if n == who:
                    a = (stg.get("constants") or {}).get("a", a); b_ = (stg.get("constants") or {}).get("b", b_)
                    P = (stg.get("points") or {}).get("p", P); Q = (stg.get("points") or {}).get("q", Q)
                grid, vals = reference2(start, stop, dt, lambda k: (a, b_, P, Q))
                for t in grid:
                    if not close(got[n][t], vals[t]):
                        return ("session begun with settings %r for %s: %s s(%r) = %r, a model built directly with a=%r b=%r p=%r q=%r gives %r"
                                % (stg, who, n, t, got[n][t], a, b_, P, Q, vals[t]))
        finally:
            b.destroy()
    # ---- D: ONE model object under two managers, each with a scenario that has no settings of its own ----------------------
    if case.get("begin"):
        who, stg = case["begin"]
        a0, b0 = case["base"]
        m = build2(start, stop, dt, a0, b0, MP0, MQ0)
        b = bptk()
        try:
            b.register_scenario_manager({"smA": {"model": m}})
            b.register_scenario_manager({"smB": {"model": m}})
            b.register_scenarios(scenario_manager="smA", scenarios={"base": {}})
            b.register_scenarios(scenario_manager="smB", scenarios={"base": {}})
            d = {}
            if stg.get("constants"): d["constants"] = dict(stg["constants"])
            if stg.get("points"): d["points"] = {k: [list(x) for x in v] for k, v in stg["points"].items()}
            b.begin_session(scenarios=["base"], scenario_managers=["smA"], equations=["s"], starttime=start, dt=dt, settings={"smA": {"base": d}})
            for _ in range(3):
                b.run_step()
            b.end_session()
            grid, vals = reference2(start, stop, dt, lambda k: (a0, b0, MP0, MQ0))
            dfb = b.run_scenarios(scenario_managers=["smB"], scenarios=["base"], equations=["s"])
            for t in grid:
                if not close(dfb[dfb.columns[0]][t], vals[t]):
                    return "a session on smA/base with settings %r changed smB/base (same model object): s(%r) = %r, expected %r" % (stg, t, dfb[dfb.columns[0]][t], vals[t])
            for t in grid:
                v = m.evaluate_equation("s", t)
                if not close(v, vals[t]):
                    return "a session on smA/base with settings %r changed the model the managers were registered from: s(%r) = %r, expected %r" % (stg, t, v, vals[t])
            if m.points["p"] != MP0 or m.points["q"] != MQ0:
                return "a session on smA/base with settings %r changed the points of the registered model: %r" % (stg, m.points)
            b.register_scenarios(scenario_manager="smA", scenarios={"late": {}})
            dfl = b.run_scenarios(scenario_managers=["smA"], scenarios=["late"], equations=["s"])
            for t in grid:
                if not close(dfl[dfl.columns[0]][t], vals[t]):
                    return "a scenario registered after a session on smA/base with settings %r: s(%r) = %r, expected %r" % (stg, t, dfl[dfl.columns[0]][t], vals[t])
        finally:
            b.destroy()
    # ---- E: a scenario that has been run is given a finer dt with the session settings --------------------------------------
    if case.get("fine"):
        fine = case["fine"]
        who = names[0]
        m, b = _multi_setup(case)
        try:
            b.run_scenarios(scenario_managers=["sm"], scenarios=names, equations=["s"])
            b.begin_session(scenarios=[who], scenario_managers=["sm"], equations=["s"], settings={"sm": {who: {"runspecs": {"dt": fine}}}})
            a, b_, P, Q = _multi_values(case, who)
            grid, vals = reference2(start, stop, fine, lambda k: (a, b_, P, Q))
            got = {}
            for k, t in enumerate(grid):
                res = b.run_step()
                if not res or "sm" not in res:
                    break
                for tt, v in res["sm"][who]["s"].items():
                    got[float(tt)] = v
            b.end_session()
            if sorted(got) != grid:
                return "session with dt %r given in the settings (after a batch run with dt %r): steps report the times %r, expected %r" % (fine, dt, sorted(got)[:8], grid[:8])
            for t in grid:
                if not close(got[t], vals[t]):
                    return "session with dt %r given in the settings (after a batch run with dt %r): %s s(%r) = %r, a freshly built model gives %r" % (fine, dt, who, t, got[t], vals[t])
            for n in names[1:]:
                a, b_, P, Q = _multi_values(case, n)
                grid2, vals2 = reference2(start, stop, dt, lambda k: (a, b_, P, Q))
                b.reset_scenario_cache(scenario_manager="sm", scenario=n)
                dfo = b.run_scenarios(scenario_managers=["sm"], scenarios=[n], equations=["s"])
                if [float(x) for x in dfo.index] != grid2:
                    return "after %s was given dt %r, the batch run of %s covers %r" % (who, fine, n, [float(x) for x in dfo.index][:8])
                for t in grid2:
                    if not close(dfo[dfo.columns[0]][t], vals2[t]):
                        return "after %s was given dt %r, %s s(%r) = %r, expected %r" % (who, fine, n, t, dfo[dfo.columns[0]][t], vals2[t])
        finally:
            b.destroy()
    return None

def run_two_managers(case):
    """two scenario managers (different models) that both hold a scenario called "base", one session over both; a step
    setting addressed to ONE manager's scenario affects that one from its step onwards and never the other"""
    start, stop, dt, ra, rb, k_set, newrate = case
    P0 = [[0.0, 0.0], [100.0, 0.0]]
    b = bptk()
    try:
        ma, mb = build(start, stop, dt, ra, P0), build(start, stop, dt, rb, P0)
        ma.name, mb.name = "ma", "mb"
        b.register_scenario_manager({"smA": {"model": ma}}); b.register_scenarios(scenario_manager="smA", scenarios={"base": {}})
        b.register_scenario_manager({"smB": {"model": mb}}); b.register_scenarios(scenario_manager="smB", scenarios={"base": {}})
        # (the flow is requested too: a value that is never requested is evaluated lazily, i.e. under the settings in force
        #  when some later step first needs it -- the reference below assumes every step evaluates its own flow)
        b.begin_session(scenarios=["base"], scenario_managers=["smA", "smB"], equations=["s", "f"], starttime=start, dt=dt)
        grid0 = reference(start, stop, dt, lambda k: (0, P0))[0]
        got = {"smA": {}, "smB": {}}
        for k, t in enumerate(grid0):
            stg = {"smA": {"base": {"constants": {"rate": newrate}}}} if k == k_set else None
            res = b.run_step(settings=stg)
            for sm in ("smA", "smB"):
                got[sm][t] = list(res[sm]["base"]["s"].values())[0]
        b.end_session()
        ga, va, _ = reference(start, stop, dt, lambda k: ((newrate if k >= k_set else ra), P0))
        gb, vb, _ = reference(start, stop, dt, lambda k: (rb, P0))
        for t in grid0:
            if not close(got["smB"][t], vb[t]):
                return "two managers with a scenario of the same name: a step setting addressed to smA/base changed smB/base: s(%r) = %r, expected %r" % (t, got["smB"][t], vb[t])
            if not close(got["smA"][t], va[t]):
                return "two managers: smA/base s(%r) = %r, expected %r with rate %r from step %d" % (t, got["smA"][t], va[t], newrate, k_set)
        return None
    finally:
        b.destroy()

def run_rest(case):
    """REST channels: /run with run-spec-only settings after an earlier run; run-steps / run-step partitions that reach the stop time"""
    start, stop, dt, rate, dt2, parts = case
    P0 = [[0.0, 0.0], [100.0, 0.0]]
    def build_fb():
        # a model whose trajectory depends on dt (the flow depends on the stock)
        m = Model(starttime=start, stoptime=stop, dt=dt, name="m")
        s_ = m.stock("s"); f_ = m.flow("f"); r_ = m.constant("rate")
        r_.equation = rate; f_.equation = r_ + s_ * 0.5; s_.initial_value = 1.0; s_.equation = f_
        return m
    def reference(start, stop, dt, schedule):
        grid = []; k = 0
        while True:
            t = float(Fraction(str(start)) + k * Fraction(str(dt)))
            if t > stop + 1e-12: break
            grid.append(t); k += 1
        vals = {}; v = 1.0
        for k, t in enumerate(grid):
            if k > 0:
                v = v + dt * max(0, schedule(k - 1)[0] + v * 0.5)
            vals[t] = v
        return grid, vals, None
    def factory():
        m = build_fb()
        bb = bptk(); bb.register_model(m); bb.register_scenario_manager({"sm": {"model": m}}); bb.register_scenarios(scenario_manager="sm", scenarios={"base": {}})
        return bb
    app = BptkServer(__name__, factory); c = app.test_client()
    body = {"scenario_managers": ["sm"], "scenarios": ["base"], "equations": ["s"]}
    r = c.post("/run", json=body)
    grid, vals, _ = reference(start, stop, dt, lambda k: (rate, P0))
    ser = json.loads(r.data)["sm"]["base"]["equations"]["s"]
    if sorted(float(k) for k in ser) != grid or any(not close(ser[k], vals[float(k)]) for k in ser):
        return "POST /run differs from the reference: %r" % (dict(list(ser.items())[:4]),)
    # the same scenario again with settings that carry run specs only
    r = c.post("/run", json=dict(body, settings={"sm": {"base": {"runspecs": {"dt": dt2}}}}))
    grid2, vals2, _ = reference(start, stop, dt2, lambda k: (rate, P0))
    ser = json.loads(r.data)["sm"]["base"]["equations"]["s"]
    if sorted(float(k) for k in ser) != grid2:
        return "POST /run with runspecs dt=%r covers %r, expected the grid %r" % (dt2, sorted(float(k) for k in ser)[:8], grid2[:8])
    for k in ser:
        if not close(ser[k], vals2[float(k)]):
            return "POST /run with settings that only change dt to %r (after an earlier run with dt %r): s(%s) = %r, a model simulated with that dt gives %r" % (dt2, dt, k, ser[k], vals2[float(k)])
    # stepping through the REST API in partitions, to the very end of the grid
    u = json.loads(c.post("/start-instance").data)["instance_uuid"]
    c.post("/%s/begin-session" % u, json=dict(body))
    gridS, valsS, _ = reference(start, stop, dt, lambda k: (rate, P0))   # the instance has its own bptk: scenario dt unchanged
    seen = {}
    i = 0
    while len(seen) < len(gridS) and i < 4 * len(gridS):
        n_ = parts[i % len(parts)]; i += 1
        if n_ == 1:
            r = c.post("/%s/run-step" % u)
            items = [json.loads(r.data)] if r.status_code == 200 else []
        else:
            r = c.post("/%s/run-steps" % u, json={"numberSteps": n_, "settings": {}})
            items = json.loads(r.data) if r.status_code == 200 else []
            items = items if isinstance(items, list) else [items]
        if not items:
            break
        for it in items:
            try:
                for tk, v in it["sm"]["base"]["s"].items():
                    seen[float(tk)] = v
            except (KeyError, TypeError, AttributeError):
                pass
    if sorted(seen) != gridS:
        return "REST stepping with request sizes %r covers the times %r, the grid from start to stop is %r" % (parts, sorted(seen), gridS)
    for t in gridS:
        if not close(seen[t], valsS[t]):
            return "REST stepping: s(%r) = %r, batch value %r" % (t, seen[t], valsS[t])
    sr = json.loads(c.get("/%s/session-results" % u).data)["sm"]["base"]["equations"]["s"]
    if sorted(float(k) for k in sr) != gridS:
        return "session-results after stepping to the stop time cover %r, expected %r" % (sorted(float(k) for k in sr), gridS)
    return None
'''
exec(PRELUDE)


def gen(rnd):
    dt = rnd.choice([1.0, 0.5, 0.25])
    start = rnd.choice([0.0, 1.0])
    stop = start + rnd.choice([2.0, 3.0, 4.0])
    scen = {}
    for n in rnd.sample(['A', 'B', 'C'], rnd.randint(1, 3)):
        d = {}
        if rnd.random() < 0.6:
            d['rate'] = rnd.choice([1.0, 3.0, 0.5, 0.0])
        if rnd.random() < 0.4:
            d['pts'] = [[0.0, rnd.choice([0.0, 2.0])], [10.0, rnd.choice([4.0, 1.0])]]
        if rnd.random() < 0.3:
            d['runspecs'] = {'starttime': start + 1.0, 'stoptime': stop + 1.0, 'dt': rnd.choice([dt, 0.5])}
        scen[n] = d
    steps = {}
    for _ in range(rnd.randint(0, 2)):
        steps[rnd.randint(0, 4)] = (rnd.choice(list(scen)), rnd.choice([5.0, 0.0, 2.0]))
    return dict(start=start, stop=stop, dt=dt, base_rate=rnd.choice([2.0, 1.0]), scen=scen,
                base_constants=rnd.choice([None, 4.0]), steps=steps)


MQ7 = [[0.0, 2.0], [10.0, 4.0]]
MP5 = [[0.0, 1.0], [4.0, 3.0]]
MULTI_CASES = [
    dict(start=0.0, stop=4.0, dt=1.0, base=(1.0, 2.0), scen={'X': {'constants': {'a': 5.0, 'b': 0.25}}, 'Y': {'constants': {'b': 3.0}, 'points': {'p': MP5}}, 'Z': {}},
         step=(1, 'X', {'a': 7.0, 'b': 0.5}), begin=('X', {'constants': {'b': 4.0}, 'points': {'q': MQ7}}), fine=0.25),
    dict(start=1.0, stop=3.0, dt=0.5, base=(0.1, 0.2), base_constants={'a': 0.3, 'b': 1.5}, base_points={'q': MQ7},
         scen={'X': {'constants': {'a': 2.0}, 'points': {'p': MP5, 'q': MP5}}, 'Y': {}},
         step=(2, 'Y', {'b': 6.0, 'a': 0.7}), begin=('X', {'constants': {'b': 9.0}}), fine=0.1),
    dict(start=0.0, stop=2.0, dt=0.1, base=(3.2e-11, 1.1e-12), scen={'X': {'constants': {'a': 1e-11, 'b': 2.5e-12}}, 'Y': {'constants': {'a': 0.1, 'b': 0.7}}},
         step=(3, 'X', {'b': 1.0, 'a': 3.0}), begin=('Y', {'points': {'p': MP5}}), fine=None)]

KNOWN_CASE = {'start': 0.0, 'stop': 3.0, 'dt': 1.0, 'base_rate': 2.0, 'scen': {'C': {}}, 'base_constants': None, 'steps': {1: ('C', 5.0)}}

KNOWN_PROBE = '''
def probe_known():
    m = build(0.0, 3.0, 1.0, 2.0, [[0.0, 0.0], [100.0, 0.0]])
    b = bptk()
    try:
        b.register_model(m); b.register_scenario_manager({"sm": {"model": m}}); b.register_scenarios(scenario_manager="sm", scenarios={"C": {}})
        b.begin_session(scenarios=["C"], scenario_managers=["sm"], equations=["s"], starttime=0.0, dt=1.0)
        b.run_step(); b.run_step(settings={"sm": {"C": {"constants": {"rate": 5.0}}}}); b.run_step(); b.run_step()
        b.begin_session(scenarios=["C"], scenario_managers=["sm"], equations=["s"], starttime=0.0, dt=1.0)
        vals = [list(b.run_step()["sm"]["C"]["s"].values())[0] for _ in range(4)]
        b.end_session()
    finally:
        b.destroy()
    return vals      # a fresh model with C's own settings (rate 2) gives [0, 2, 4, 6]
'''
exec(KNOWN_PROBE)

SHARED_PROBE = '''
def probe_shared_dictionary():
    """ONE scenarios dictionary registered with two managers that have different base constants"""
    def mk():
        m = Model(starttime=0.0, stoptime=3.0, dt=1.0, name="m")
        s = m.stock("s"); f = m.flow("f"); a = m.constant("a")
        a.equation = 1.0; f.equation = a; s.initial_value = 0.0; s.equation = f
        return m
    b = bptk()
    try:
        shared = {"sc": {}}
        b.register_scenario_manager({"smA": {"model": mk(), "base_constants": {"a": 5.0}}})
        b.register_scenario_manager({"smB": {"model": mk(), "base_constants": {"a": 7.0}}})
        b.register_scenarios(scenario_manager="smA", scenarios=shared)
        b.register_scenarios(scenario_manager="smB", scenarios=shared)
        dfa = b.run_scenarios(scenario_managers=["smA"], scenarios=["sc"], equations=["s"])
        dfb = b.run_scenarios(scenario_managers=["smB"], scenarios=["sc"], equations=["s"])
        return [float(x) for x in dfa[dfa.columns[0]]], [float(x) for x in dfb[dfb.columns[0]]]
    finally:
        b.destroy()
'''
exec(SHARED_PROBE)


def main():
    hint = load_hint()
    rnd = random.Random(hint.get('seed', 0))
    t_end = time.time() + hint.get('budget_s', 20)
    n = 0
    failures = []
    try:
        pv = probe_known()
        if pv != [0.0, 2.0, 4.0, 6.0]:
            body = PRELUDE + KNOWN_PROBE + '\nv = probe_known()\nprint("second session:", v, "expected [0.0, 2.0, 4.0, 6.0]")\nsys.stdout.flush()\nos._exit(1 if v != [0.0, 2.0, 4.0, 6.0] else 0)\n'
            failures.append(dict(what='a step setting for a constant the scenario does not list stays in the scenario model after the session: second session reports %r, a fresh model gives [0, 2, 4, 6]' % (pv,),
                                 script=write_replay('C09', 'known-step-settings-persist', body), known='C09-step-settings-persist'))
    except Exception:
        pass
    if hint.get('prop') == 'C07':
        try:
            va, vb = probe_shared_dictionary()
            if va != [0.0, 5.0, 10.0, 15.0]:
                failures.append(dict(what='scenario sc of manager smA (base constant a=5): s = %r, expected [0, 5, 10, 15]' % (va,),
                                     script=write_replay('C07', 'shared-dictionary', PRELUDE + SHARED_PROBE + '\nprint(probe_shared_dictionary())\nsys.stdout.flush()\nos._exit(1)\n'), known=None))
            elif vb != [0.0, 7.0, 14.0, 21.0]:
                body = PRELUDE + SHARED_PROBE + ('\nva, vb = probe_shared_dictionary()\nprint("smA/sc:", va, "expected [0, 5, 10, 15]")\n'
                                                 'print("smB/sc:", vb, "expected [0, 7, 14, 21]")\nsys.stdout.flush()\nos._exit(1 if vb != [0.0, 7.0, 14.0, 21.0] else 0)\n')
                failures.append(dict(what='one scenarios dictionary registered with two managers: the second manager (base constant a=7) reports s = %r, expected [0, 7, 14, 21] '
                                          '(add_scenarios wrote the first manager\'s base constant into the caller\'s dictionary)' % (vb,),
                                     script=write_replay('C07', 'shared-dictionary', body), known=None))
        except Exception:
            pass
        # the scenario file channel (bounded, not under contract)
        from verif.native import c07_files
        for fc in c07_files.CASES:
            n += 1
            try:
                bad = c07_files.run_files(fc)
            except Exception as e:
                bad = None
            if bad:
                body = 'sys.path.insert(0, %r)\n' % ROOT + c07_files.BODY + '\ncase = %r\nbad = run_files(case)\nprint("FAIL: " + bad if bad else "PASS")\nsys.stdout.flush()\nos._exit(1 if bad else 0)\n' % (fc,)
                failures.append(dict(what=bad, script=write_replay('C07', 'files', body), known=None))
                break
    extra_cases = [('run_two_managers', (0.0, 4.0, 1.0, 2.0, 3.0, 2, 7.0)), ('run_two_managers', (1.0, 3.0, 0.5, 1.0, 0.5, 1, 4.0)),
                   ('run_rest', (0.0, 4.0, 1.0, 2.0, 0.5, [3, 1, 5])), ('run_rest', (1.0, 4.0, 0.5, 1.0, 0.25, [2, 2, 1]))] + \
                  [('run_multi', mc) for mc in MULTI_CASES]
    for fn, ec in extra_cases:
        if [f for f in failures if not f.get('known')]:
            break
        n += 1
        try:
            bad = globals()[fn](ec)
        except Exception as e:
            bad = None       # harness trouble is never a violation
        if bad:
            body = PRELUDE + '\ncase = %r\nbad = %s(case)\nprint("FAIL: " + bad if bad else "PASS")\nsys.stdout.flush()\nos._exit(1 if bad else 0)\n' % (ec, fn)
            failures.append(dict(what=bad, script=write_replay(hint.get('prop') or 'C09', fn, body), known=None))
    while time.time() < t_end and not [f for f in failures if not f.get('known')]:
        case = gen(rnd)
        n += 1
        try:
            bad = run(case)
        except Exception as e:
            import traceback
            bad = 'raised %s: %s' % (type(e).__name__, e)
        if bad:
            body = PRELUDE + '\ncase = %r\nbad = run(case)\nprint("case:", case)\nprint("FAIL: " + bad if bad else "PASS")\nsys.stdout.flush()\nos._exit(1 if bad else 0)\n' % (case,)
            failures.append(dict(what='%s  (case %r)' % (bad, case), script=write_replay('C09', 'channels', body), known=None))
            break
    finish(n, failures)


main()
