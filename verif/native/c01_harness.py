"""C01 replay/search: random stock-and-flow models built with the real SD DSL against an independent explicit-Euler
reference (exact rational time grid, plain Python arithmetic for the equations)."""
import random
import time
from verif.native.common import load_hint, write_replay, finish

PRELUDE = '''
import math
from fractions import Fraction
from BPTK_Py import Model
from BPTK_Py import sd_functions as sd

PTS = [[0.0, 0.0], [2.0, 10.0], [5.0, 4.0], [9.0, 4.0]]

def lerp(x, pts):
    if x <= pts[0][0]:
        return pts[0][1]
    if x >= pts[-1][0]:
        return pts[-1][1]
    for (x0, y0), (x1, y1) in zip(pts, pts[1:]):
        if x0 <= x <= x1:
            return y0 + (y1 - y0) * (x - x0) / (x1 - x0)

def run(case):
    """case: dict(start, dt, steps, elements=[(kind, name, expr | (init, inflows, outflows))])
    expressions are python source over element names, T (time), DT, START and F_* functions"""
    start, dt, steps = case["start"], case["dt"], case["steps"]
    grid = [float(Fraction(str(start)) + i * Fraction(str(dt))) for i in range(steps + 1)]
    m = Model(starttime=start, stoptime=grid[-1], dt=dt, name="m")
    els = {}
    for kind, name, spec in case["elements"]:
        els[name] = getattr(m, kind)(name)
    denv = dict(els)
    denv.update(T=sd.time(), DT=sd.dt(m), START=sd.starttime(m), F_min=sd.min, F_max=sd.max, F_abs=sd.abs, F_if=sd.If,
                F_step=sd.step, F_lookup=lambda x: sd.lookup(x, PTS), F_pulse=lambda v, f, i: sd.pulse(m, v, f, i),
                F_delay=lambda x, d, iv: sd.delay(m, x, d, iv), F_smooth=lambda x, a, iv: sd.smooth(m, x, a, iv), F_trend=lambda x, a, iv: sd.trend(m, x, a, iv), F_sqrt=sd.sqrt)
    try:
        for kind, name, spec in case["elements"]:
            if kind == "stock":
                init, ins, outs = spec[:3]
                inline = spec[3] if len(spec) > 3 else None
                els[name].initial_value = float(init)
                eq = None
                if inline:
                    eq = eval(inline, {"__builtins__": {}}, denv)
                for f in ins:
                    eq = els[f] if eq is None else eq + els[f]
                for f in outs:
                    eq = (0.0 - els[f]) if eq is None else eq - els[f]
                if eq is not None:
                    els[name].equation = eq
            elif kind == "constant":
                els[name].equation = float(spec)
            else:
                v = eval(spec, {"__builtins__": {}}, denv)
                els[name].equation = v
    except Exception as e:
        return None      # the DSL rejects the model: not a test
    bad = compare(case, m, els, start, dt, steps, grid)
    if not bad and case.get("edit"):
        # an edit through the modelling API on the model that has just been evaluated: a constant gets a new number
        nm, newv = case["edit"]
        els[nm].equation = float(newv)
        case2 = dict(case, elements=[(k_, n_, (float(newv) if n_ == nm else s_)) for (k_, n_, s_) in case["elements"]])
        bad = compare(case2, m, els, start, dt, steps, grid)
        if bad:
            return "after %s.equation = %r on the evaluated model: %s" % (nm, newv, bad)
        case = case2
    if bad or not case.get("dt2"):
        return bad
    # second phase: the run spec is changed on the existing model (direct assignment), caches reset, and the model re-run
    dt2 = case["dt2"]
    grid2 = [float(Fraction(str(start)) + i * Fraction(str(dt2))) for i in range(steps + 1)]
    m.dt = dt2
    m.stoptime = grid2[-1]
    m.reset_cache()
    bad = compare(case, m, els, start, dt2, steps, grid2)
    return ("after model.dt = %r: " % dt2 + bad) if bad else None


def compare(case, m, els, start, dt, steps, grid):
    # ---- reference ------------------------------------------------------------------------------------
    spec_of = {name: (kind, spec) for kind, name, spec in case["elements"]}
    memo = {}
    smooth_state = {}
    def val(name, k):
        """value of element `name` at grid index k"""
        key = (name, k)
        if key in memo:
            return memo[key]
        kind, spec = spec_of[name]
        t = grid[k] if k >= 0 else float(Fraction(str(start)) + k * Fraction(str(dt)))
        if kind == "constant":
            r = float(spec)
        elif kind == "stock":
            init, ins, outs = spec[:3]
            inline = spec[3] if len(spec) > 3 else None
            if k <= 0:
                r = float(init)
            else:
                net = sum(val(f, k - 1) for f in ins) - sum(val(f, k - 1) for f in outs)
                if inline:
                    net += ev(inline, k - 1)
                r = val(name, k - 1) + dt * net
        else:
            r = ev(spec, k)
            if kind == "flow":
                r = max(0, r)
        memo[key] = r
        return r
    def ev(expr, k):
        t = grid[k] if k >= 0 else float(Fraction(str(start)) + k * Fraction(str(dt)))
        class Env(dict):
            def __missing__(self, n):
                if n in spec_of:
                    return val(n, k)
                raise KeyError(n)
        def f_delay(x_name, d, iv):
            steps_back = d / dt
            kk = k - int(round(steps_back))
            return val(x_name, kk) if kk >= 0 else iv
        def f_smooth(x_name, a, iv):
            key = (x_name, a, iv)
            st = smooth_state.setdefault(key, {0: iv})
            for j in range(1, k + 1):
                if j not in st:
                    st[j] = st[j - 1] + dt * ((val(x_name, j - 1) - st[j - 1]) / a)
            return st[max(k, 0)]
        def f_trend(x_name, a, iv):
            # trend = (input - average) / (average * averaging time), average = first-order exponential average of the input
            avg = f_smooth(x_name, a, iv)
            return (val(x_name, k) - avg) / (avg * a)
        env = Env(T=t, DT=dt, START=start, F_min=min, F_max=max, F_abs=abs, F_if=lambda c, a, b: a if c else b,
                  F_step=lambda h, s: h if t > s else 0.0, F_lookup=lambda x: lerp(x, PTS),
                  F_pulse=lambda v, f, i: (v / dt) if ((t == f) if i == 0 else ((t - f) >= 0 and abs(((t - f) / i) - round((t - f) / i)) < 1e-9)) else 0.0,
                  F_delay=f_delay, F_smooth=f_smooth, F_trend=f_trend, F_sqrt=lambda x: x ** 0.5)
        return eval(expr.replace("F_delay(", "F_delay(_n(").replace("F_smooth(", "F_smooth(_n("), {"__builtins__": {}, "_n": None}, env) if False else eval(_quote(expr), {"__builtins__": {}}, env)
    def _quote(expr):
        # delay / smooth take the NAME of their input element in the reference
        import re
        return re.sub(r"F_(delay|smooth|trend)\\((\\w+)", lambda mo: "F_%s('%s'" % (mo.group(1), mo.group(2)), expr)
    try:
        want = {name: [val(name, k) for k in range(len(grid))] for _, name, _ in case["elements"]}
    except (ZeroDivisionError, OverflowError, ValueError, TypeError, RecursionError):
        return None
    for name, series in want.items():
        for k, t in enumerate(grid):
            w = series[k]
            if isinstance(w, complex) or w != w or abs(w) > 1e12:
                return None
            try:
                g = els[name](t)
            except Exception as e:
                return "%s(%r) raised %s: %s" % (name, t, type(e).__name__, e)
            if not math.isclose(float(g), float(w), rel_tol=1e-7, abs_tol=1e-7):
                return "%s(%r) = %r, explicit Euler gives %r" % (name, t, g, w)
    # a value is reported for EVERY grid time from start through stop (the run the element itself offers)
    for name in list(want)[-2:]:
        try:
            df = els[name].plot(return_df=True)
        except Exception as e:
            return "%s.plot(return_df=True) raised %s: %s" % (name, type(e).__name__, e)
        idx = [float(x) for x in df.index]
        if idx != grid:
            missing = [t for t in grid if t not in idx]
            return "%s: the run reports the times %r, the grid is %r (no value reported at %r)" % (name, idx[:12], grid[:12], missing[:3])
        col = df[df.columns[0]]
        for k, t in enumerate(grid):
            if not math.isclose(float(col[t]), float(want[name][k]), rel_tol=1e-7, abs_tol=1e-7):
                return "%s: the run reports %r at %r, explicit Euler gives %r" % (name, col[t], t, want[name][k])
    return None
'''
exec(PRELUDE)

LEAVES = ['T', 'c1', 'c2', '2.0', '0.5', '(-1.5)', 'DT']


def gen_expr(rnd, names, depth, allow_stock=True):
    pool = LEAVES + names
    if depth == 0 or rnd.random() < 0.3:
        return rnd.choice(pool)
    r = rnd.random()
    if r < 0.5:
        return '(%s %s %s)' % (gen_expr(rnd, names, depth - 1), rnd.choice(['+', '-', '*', '+', '-']), gen_expr(rnd, names, depth - 1))
    if r < 0.6:
        return '(%s / (1.0 + F_abs(%s)))' % (gen_expr(rnd, names, depth - 1), gen_expr(rnd, names, depth - 1))
    f = rnd.choice(['F_min', 'F_max', 'F_if', 'F_step', 'F_lookup', 'F_pulse', 'F_delay', 'F_smooth', 'F_trend', 'F_abs'])
    if f in ('F_min', 'F_max'):
        return '%s(%s, %s)' % (f, gen_expr(rnd, names, depth - 1), gen_expr(rnd, names, depth - 1))
    if f == 'F_if':
        return 'F_if(%s > %s, %s, %s)' % (gen_expr(rnd, names, depth - 1), gen_expr(rnd, names, depth - 1), gen_expr(rnd, names, depth - 1), gen_expr(rnd, names, depth - 1))
    if f == 'F_step':
        return 'F_step(%s, %s)' % (rnd.choice(['3.0', '(-2.0)', 'c1']), rnd.choice(['1.0', '2.5', '0.0']))
    if f == 'F_lookup':
        return 'F_lookup(%s)' % gen_expr(rnd, names, depth - 1)
    if f == 'F_pulse':
        return 'F_pulse(%s, %s, %s)' % (rnd.choice(['4.0', 'c1']), rnd.choice(['1.0', '2.0']), rnd.choice(['0.0', '2.0']))
    if f == 'F_trend' and names:
        return 'F_trend(%s, %s, %s)' % (rnd.choice(names), rnd.choice(['2.0', '4.0']), rnd.choice(['(-3.0)', '3.0', '(-0.5)']))
    if f in ('F_delay', 'F_smooth') and names:
        if f == 'F_delay':
            return 'F_delay(%s, %s, %s)' % (rnd.choice(names), rnd.choice(['1.0', '2.0']), rnd.choice(['0.0', '5.0', '(-1.0)']))
        return 'F_smooth(%s, %s, %s)' % (rnd.choice(names), rnd.choice(['2.0', '4.0']), rnd.choice(['0.0', '3.0']))
    return 'F_abs(%s)' % gen_expr(rnd, names, depth - 1)


def gen(rnd):
    case = _gen(rnd)
    if rnd.random() < 0.3:
        case['edit'] = (rnd.choice(['c1', 'c2']), rnd.choice([7.0, -4.0, 0.25]))
    return case


def _gen(rnd):
    dt = rnd.choice([1.0, 0.5, 0.25, 0.1, 0.2, 0.05])
    elements = [('constant', 'c1', rnd.choice([3.0, -2.0, 0.5])), ('constant', 'c2', rnd.choice([1.0, 4.0]))]
    names = []
    nconv = rnd.randint(1, 3)
    for i in range(nconv):
        elements.append(('converter', 'v%d' % i, gen_expr(rnd, list(names), rnd.randint(1, 3))))
        names.append('v%d' % i)
    stocks = ['s%d' % i for i in range(rnd.randint(1, 2))]
    flows = []
    for i in range(rnd.randint(1, 3)):
        kind = rnd.choice(['flow', 'biflow'])
        elements.append((kind, 'f%d' % i, gen_expr(rnd, names + stocks, rnd.randint(1, 3))))
        flows.append('f%d' % i)
    for s in stocks:
        ins = [f for f in flows if rnd.random() < 0.6]
        outs = [f for f in flows if f not in ins and rnd.random() < 0.5]
        inline = gen_expr(rnd, names, rnd.randint(1, 2)) if rnd.random() < 0.5 else None
        elements.append(('stock', s, (rnd.choice([0.0, 10.0, -3.0]), ins, outs, inline)))
    return dict(start=rnd.choice([0.0, 1.0, 0.1]), dt=dt, steps=rnd.randint(2, 9), elements=elements,
                dt2=rnd.choice([None, dt / 2, 0.1, 0.05]))


def main():
    hint = load_hint()
    rnd = random.Random(hint.get('seed', 0))
    t_end = time.time() + hint.get('budget_s', 20)
    n = 0
    failures = []
    while time.time() < t_end:
        case = gen(rnd)
        n += 1
        try:
            bad = run(case)
        except Exception as e:
            bad = None
        if bad:
            body = PRELUDE + '\ncase = %r\nbad = run(case)\nprint("model:", case)\nprint("FAIL: " + bad if bad else "PASS")\nsys.exit(1 if bad else 0)\n' % (case,)
            p = write_replay('C01', 'model', body)
            failures.append(dict(what='%s  (model %r)' % (bad, case), script=p, known=None))
            break
    finish(n, failures)


main()
