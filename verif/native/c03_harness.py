"""C03 replay/search (native, bounded): whole XMILE documents through the REAL compile_xmile, the transpiled model is
loaded and every generated equation is EVALUATED and compared with the reference semantics of the expression tree
(verif/c03_trees.py); each tree in several spellings (whitespace, letter case, redundant parentheses) and with variable
names defined with spaces / capitals and referenced with underscores.  A document that does not compile, a module that
does not load and an equation that raises are 'failing loudly' and never reported."""
import json
import logging
import math
import os
import random
import sys
import time
from verif.native.common import load_hint, write_replay, finish, ROOT
from verif import c03_trees as T

BODY = '''
import os, sys, math, logging
from verif.native.xmile_gen import xmile, Compiled
from verif import c03_trees as T

DEFINED = {"alpha": "Alpha Rate", "beta": "beta", "gamma": "Gamma_Level", "delta": "DELTA"}
VALUES = {"alpha": 3.5, "beta": -1.25, "gamma": 0.0, "delta": 12.0}
REFS = {
    "asdefined": lambda n: DEFINED[n].replace(" ", "_"),
    "lower": lambda n: DEFINED[n].replace(" ", "_").lower(),
    "upper": lambda n: DEFINED[n].replace(" ", "_").upper(),
}

class _Warned(logging.Handler):
    def __init__(self):
        super().__init__(); self.msgs = []
    def emit(self, record):
        self.msgs.append(record.getMessage())

VALUES_B = {"alpha": -2.0, "beta": 4.5, "gamma": 1.0, "delta": 0.5}

def run(case):
    """case: (tree, [sources], start, dt[, 'modules']) -> None | text"""
    if len(case) == 5 and case[4] == "modules":
        return run_modules(case)
    tree, sources, start, dt = case
    variables = [dict(kind="aux", name=DEFINED[n], eqn=repr(v)) for n, v in VALUES.items()]
    for i, src in enumerate(sources):
        variables.append(dict(kind="aux", name="Result %d" % i, eqn=src))
    h = _Warned(); root = logging.getLogger(); root.addHandler(h)
    c = None
    try:
        try:
            c = Compiled(xmile("m", start, start + 4 * dt, dt, variables))
            sim = c.model()
        except BaseException as e:
            return None          # does not compile / load: fails loudly
        for t in (start, start + dt, start + 3 * dt):
            env = dict(VALUES, TIME=t, DT=dt, STARTTIME=start)
            try:
                want = T.eval_num(tree, env)
                if isinstance(want, complex) or want != want or abs(want) == float("inf"):
                    continue
            except (ZeroDivisionError, ValueError, OverflowError, TypeError):
                continue
            for i, src in enumerate(sources):
                try:
                    got = sim.equation("result%d" % i, t)
                    got = float(got)
                except BaseException:
                    continue     # raises when evaluated: fails loudly
                if got != got or abs(got - want) > 1e-9 * max(1.0, abs(want)):
                    silent = [m for m in h.msgs if "has not been implemented yet" in m]
                    return ("%sXMILE equation %r evaluates to %r at t=%r in the transpiled model, the XMILE value is %r (alpha=3.5, beta=-1.25, gamma=0, delta=12; same tree as %r)"
                            % ("[unknown function replaced by 0] " if silent else "", src, got, t, want, T.show(tree)))
        return None
    finally:
        root.removeHandler(h)
        if c is not None:
            c.cleanup()

def run_modules(case):
    """the same equation texts in two modules over module-local variables with different values: each module's
    equations must be computed from its own variables"""
    tree, sources, start, dt, _ = case
    mods = {}
    for mname, vals in (("Plant A", VALUES), ("Plant B", VALUES_B)):
        vs = [dict(kind="aux", name=DEFINED[n], eqn=repr(v)) for n, v in vals.items()]
        for i, src in enumerate(sources):
            vs.append(dict(kind="aux", name="Result %d" % i, eqn=src))
        mods[mname] = vs
    c = None
    try:
        try:
            c = Compiled(xmile("m", start, start + 4 * dt, dt, [dict(kind="aux", name="total", eqn="Plant_A.Result_0 + Plant_B.Result_0")], modules=mods))
            sim = c.model()
        except BaseException:
            return None
        for t in (start, start + dt):
            for mname, pre, vals in (("Plant A", "plantA", VALUES), ("Plant B", "plantB", VALUES_B)):
                env = dict(vals, TIME=t, DT=dt, STARTTIME=start)
                try:
                    want = T.eval_num(tree, env)
                    if isinstance(want, complex) or want != want or abs(want) == float("inf"):
                        continue
                except (ZeroDivisionError, ValueError, OverflowError, TypeError):
                    continue
                for i, src in enumerate(sources):
                    try:
                        got = float(sim.equation("%s.result%d" % (pre, i), t))
                    except BaseException:
                        continue
                    if got != got or abs(got - want) > 1e-9 * max(1.0, abs(want)):
                        return ("module %r: XMILE equation %r evaluates to %r at t=%r, with the module's own variables %r the XMILE value is %r (the other module holds %r)"
                                % (mname, src, got, t, vals, want, VALUES_B if vals is VALUES else VALUES))
        return None
    finally:
        if c is not None:
            c.cleanup()

def run_names(_case=None):
    """variables whose names differ only in characters that are not identifier characters stay DIFFERENT variables"""
    variables = [dict(kind="aux", name="cost", eqn="3"), dict(kind="aux", name="Cost $", eqn="11"),
                 dict(kind="aux", name="share", eqn="0.25"), dict(kind="aux", name="Share %", eqn="25"),
                 dict(kind="aux", name="Probe 0", eqn="cost"), dict(kind="aux", name="Probe 1", eqn="cost_$"),
                 dict(kind="aux", name="Probe 2", eqn="share"), dict(kind="aux", name="Probe 3", eqn="Share_%"),
                 dict(kind="aux", name="Probe 4", eqn="cost_$ - cost + share_% / share")]
    want = [3.0, 11.0, 0.25, 25.0, 108.0]
    try:
        c = Compiled(xmile("m", 0, 2, 1, variables))
    except BaseException:
        return None
    try:
        try:
            sim = c.model()
        except BaseException:
            return None
        for i, w in enumerate(want):
            try:
                got = float(sim.equation("probe%d" % i, 1.0))
            except BaseException:
                continue
            if abs(got - w) > 1e-9:
                return ("document with the variables 'cost' = 3, 'Cost $' = 11, 'share' = 0.25, 'Share %%' = 25: the probe %r evaluates to %r, the XMILE value is %r"
                        % (variables[4 + i]["eqn"], got, w))
        return None
    finally:
        c.cleanup()
'''
sys.path.insert(0, os.environ.get('VERIF_REPO', '/repo'))
logging.getLogger().setLevel(logging.WARNING)
exec(BODY)


LITERAL_CASES = [
    # spellings of numeric literals (each source alone in its document: a spelling the parser rejects fails loudly and is skipped)
    (['bin', '*', ['num', -0.5], ['var', 'alpha']], ['- .5 * Alpha_Rate']), (['bin', '*', ['num', -0.5], ['var', 'alpha']], ['-.5 * Alpha_Rate']),
    (['bin', '*', ['num', -0.5], ['var', 'alpha']], ['Alpha_Rate * -.5']), (['bin', '*', ['num', -0.5], ['var', 'alpha']], ['-0.5 * Alpha_Rate']),
    (['bin', '+', ['var', 'alpha'], ['num', 0.25]], ['Alpha_Rate - -.25']), (['bin', '*', ['num', 0.5], ['var', 'alpha']], ['.5 * Alpha_Rate']),
    (['bin', '*', ['num', 0.75], ['var', 'alpha']], ['Alpha_Rate * .75']), (['bin', '+', ['num', 0.002], ['var', 'alpha']], ['2e-3 + Alpha_Rate']),
    (['bin', '+', ['num', 100.0], ['var', 'alpha']], ['1E2 + Alpha_Rate']), (['bin', '-', ['var', 'alpha'], ['num', 0.5]], ['Alpha_Rate -.5']),
    (['bin', '*', ['num', -5.0], ['var', 'alpha']], ['-.5e1 * Alpha_Rate']), (['bin', '+', ['num', 1.5], ['var', 'alpha']], ['1.50 + Alpha_Rate'])]


def spell(tree, rnd):
    out = []
    for refstyle in rnd.sample(sorted(REFS), 2):
        st = dict(space=rnd.choice(['', ' ', '  ']), case=rnd.choice([None, 'lower', 'title']), redundant=rnd.choice([0.0, 0.0, 0.3]),
                  intnum=rnd.random() < 0.5, ident=REFS[refstyle], bare_if=rnd.random() < 0.6)
        out.append(T.show(tree, st, rnd))
    out.append(T.show(tree, dict(ident=REFS['asdefined'])))
    return out


def main():
    hint = load_hint()
    rnd = random.Random(hint.get('seed', 0))
    t_end = time.time() + hint.get('budget_s', 20)
    known = hint.get('known', [])
    failures = []
    n = 0
    todo = []
    try:
        with open(os.path.join(ROOT, 'replays', 'C03.failing.json')) as f:
            for rec in json.load(f)[:10]:
                todo.append((rec['tree'], [rec['source']], 0, 1))
    except (OSError, ValueError):
        pass
    # the always-present probe of the known finding, then the search
    todo.append((['bin', '+', ['var', 'alpha'], ['num', 1.0]], ['Alpha_Rate + NOSUCHFUNCTION(1)'], 0, 1))
    mt = ['bin', '-', ['bin', '*', ['var', 'alpha'], ['var', 'beta']], ['if', ['cmp', '>', ['var', 'gamma'], ['var', 'delta']], ['var', 'delta'], ['call', 'MAX', [['var', 'alpha'], ['var', 'gamma']]]]]
    todo.append((mt, [T.show(mt, dict(ident=REFS['asdefined']))], 0, 1, 'modules'))
    for (lt, lsrc) in LITERAL_CASES:
        todo.append((lt, lsrc, 0, 1))
    n += 1
    try:
        bad = run_names()
    except Exception:
        bad = None
    if bad:
        body = 'sys.path.insert(0, %r)\n' % ROOT + BODY + '\nbad = run_names()\nprint("FAIL: " + bad if bad else "PASS")\nsys.stdout.flush()\nos._exit(1 if bad else 0)\n'
        failures.append(dict(what=bad, script=write_replay('C03', 'names', body), known=None))
    seen = set()
    while time.time() < t_end and not [f for f in failures if not f.get('known')]:
        if todo:
            case = todo.pop(0)
        else:
            batch = []
            tree = T.random_tree(rnd, rnd.choice([1, 2, 3, 3, 4]))
            case = (tree, spell(tree, rnd), rnd.choice([0, 1, 2.5]), rnd.choice([1, 0.5, 0.25]))
            if rnd.random() < 0.2:
                case = (tree, [T.show(tree, dict(ident=REFS['asdefined']))], case[2], case[3], 'modules')
        n += 1
        try:
            bad = run(case)
        except Exception as e:
            bad = None   # harness trouble is never a violation
        if bad:
            kid = None
            for k in known:
                if any(p in bad for p in k.get('match', [])):
                    kid = k.get('id')
            key = kid or 'new'
            if key in seen:
                continue
            seen.add(key)
            body = 'sys.path.insert(0, %r)\n' % ROOT + BODY + '\ncase = %r\nbad = run(case)\nprint("FAIL: " + bad if bad else "PASS")\nsys.stdout.flush()\nos._exit(1 if bad else 0)\n' % (case,)
            p = write_replay('C03', 'equation' if not kid else kid, body)
            failures.append(dict(what=bad, script=p, known=kid))
            if not kid:
                break
    finish(n, failures)


if __name__ == '__main__':
    main()
