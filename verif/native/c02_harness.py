"""C02 replay/search: random expression trees built with the real DSL (Python operators on elements, numbers and DSL
functions) against the same tree evaluated with ordinary Python arithmetic."""
import math
import random
import time
from verif.native.common import load_hint, write_replay, finish

PRELUDE = '''
import math
import numpy as np
from BPTK_Py import Model
from BPTK_Py import sd_functions as sd

VALS = {"a": 7.0, "b": 3.0, "c": 2.0, "d": 5.0, "e": 11.0}

def ref_env():
    env = dict(VALS)
    vec = [1.5, 4.0, 0.5]
    env.update(dict(vsum=sum(vec), vprod=vec[0] * vec[1] * vec[2]))
    env.update(dict(sd_max=max, sd_min=min, sd_abs=abs, sd_sqrt=lambda x: x ** 0.5, sd_exp=math.exp, sd_round=round,
                    sd_If=lambda c, x, y: x if c else y, sd_And=lambda x, y: x and y, sd_Or=lambda x, y: x or y,
                    sd_Not=lambda x: not x))
    return env

def dsl_env(m):
    env = {}
    for k, v in VALS.items():
        # d and e are converters (their values are re-assigned after the first evaluation), the others constants
        el = m.converter(k) if k in ("d", "e") else m.constant(k)
        el.equation = v; env[k] = el
    # aggregates of an arrayed element: operators (not binary ones) whose text is a bare chain  v0+v1+v2 / v0*v1*v2
    v = m.constant("v"); v.setup_vector(3, [1.5, 4.0, 0.5])
    env.update(dict(vsum=v.arr_sum(), vprod=v.arr_prod()))
    env.update(dict(sd_max=sd.max, sd_min=sd.min, sd_abs=sd.abs, sd_sqrt=sd.sqrt, sd_exp=sd.exp, sd_round=sd.round,
                    sd_If=sd.If, sd_And=sd.And, sd_Or=sd.Or, sd_Not=sd.Not))
    return env

def run(expr):
    """expr: python source over a..e, numbers and sd_* functions; -> None | description"""
    try:
        want = eval(expr, {"__builtins__": {}}, ref_env())
    except Exception as e:
        return None            # reference undefined (division by zero, complex power, ...): not a test
    if isinstance(want, complex) or (isinstance(want, float) and (math.isnan(want) or math.isinf(want))):
        return None
    m = Model(starttime=0.0, stoptime=2.0, dt=1.0)
    try:
        denv = dsl_env(m)
        node = eval(expr, {"__builtins__": {}}, denv)
    except Exception as e:
        return None            # the DSL rejects the nesting with an exception: allowed by the property
    if isinstance(node, (int, float, bool)):
        return None
    x = m.converter("x")
    try:
        x.equation = node
        got = x(1.0)
    except Exception as e:
        return None            # rejected at build / evaluation time
    try:
        ok = math.isclose(float(got), float(want), rel_tol=1e-9, abs_tol=1e-9)
    except Exception:
        ok = False
    if not ok:
        return "%s evaluates to %r with the DSL, %r with ordinary arithmetic" % (expr, got, want)
    # the operands d and e get other values: the element is still the value of the same expression tree
    renv = ref_env(); renv.update(d=6.5, e=-2.25)
    try:
        want2 = eval(expr, {"__builtins__": {}}, renv)
    except Exception:
        return None
    if isinstance(want2, complex) or (isinstance(want2, float) and (math.isnan(want2) or math.isinf(want2))):
        return None
    try:
        denv["d"].equation = 6.5
        denv["e"].equation = -2.25
        got2 = x(1.0)
    except Exception:
        return None
    try:
        ok = math.isclose(float(got2), float(want2), rel_tol=1e-9, abs_tol=1e-9)
    except Exception:
        ok = False
    if not ok:
        return "%s evaluates to %r with the DSL after d and e were set to 6.5 and -2.25, %r with ordinary arithmetic" % (expr, got2, want2)
    return None
'''
exec(PRELUDE)

BIN = ['+', '-', '*', '/', '**', '%', '<', '>', '<=', '>=']
NAMES = ['a', 'b', 'c', 'd', 'e', 'vsum', 'vprod']


def gen(rnd, depth):
    if depth >= 2 and rnd.random() < 0.15:
        # a sub-expression bound to a python variable and used several times (the same node object, also negated)
        sub = gen(rnd, depth - 1)
        body = rnd.choice(['(n - (-n))', '((-n) + (n * 2.0))', '((-n) * n)', '(n + (-(-n)))', '((2.0 * n) - (-(2.0 * n)) + n)'])
        return '(lambda n: %s)(%s)' % (body, sub)
    if depth == 0 or rnd.random() < 0.25:
        r = rnd.random()
        if r < 0.7:
            return rnd.choice(NAMES)
        return rnd.choice(['2.0', '(-2.0)', '0.5', '3.0', '(-1.5)'])
    r = rnd.random()
    if r < 0.65:
        op = rnd.choice(BIN)
        return '(%s %s %s)' % (gen(rnd, depth - 1), op, gen(rnd, depth - 1))
    if r < 0.72:
        return '(-%s)' % gen(rnd, depth - 1)
    f = rnd.choice(['sd_max', 'sd_min', 'sd_abs', 'sd_sqrt', 'sd_round', 'sd_If', 'sd_And', 'sd_Or', 'sd_Not'])
    if f in ('sd_max', 'sd_min', 'sd_And', 'sd_Or'):
        return '%s(%s, %s)' % (f, gen(rnd, depth - 1), gen(rnd, depth - 1))
    if f == 'sd_round':
        return 'sd_round(%s, 2)' % gen(rnd, depth - 1)
    if f == 'sd_If':
        return 'sd_If(%s, %s, %s)' % (gen(rnd, depth - 1), gen(rnd, depth - 1), gen(rnd, depth - 1))
    return '%s(%s)' % (f, gen(rnd, depth - 1))


def exhaustive_depth2():
    leaves = ['a', 'b', '(-2.0)', '3.0']
    for o1 in BIN[:6]:
        for o2 in BIN[:6]:
            for x, y, z in (('a', 'b', 'c'), ('a', '(-2.0)', 'c'), ('3.0', 'b', 'c')):
                yield '(%s %s (%s %s %s))' % (x, o1, y, o2, z)
                yield '((%s %s %s) %s %s)' % (x, o2, y, o1, z)
    for o1 in BIN[:6]:
        for agg in ('vsum', 'vprod'):
            yield '(a %s %s)' % (o1, agg)
            yield '(%s %s a)' % (agg, o1)
            yield '(-%s)' % agg
            yield '(2.0 %s %s)' % (o1, agg)
    for sub in ('(-a)', '(2.0 * a)', '(a * 3.0)', '(-(a + b))'):
        for body in ('(n - (-n))', '((-n) + (n * 2.0))', '(n + (-(-n)))'):
            yield '(lambda n: %s)(%s)' % (body, sub)
    for o1 in BIN[:6]:
        yield '((-a) %s b)' % o1
        yield '(a %s (-b))' % o1
        yield '((-2.0) %s b)' % o1
        yield '(2.0 %s b)' % o1


def main():
    hint = load_hint()
    rnd = random.Random(hint.get('seed', 0))
    t_end = time.time() + hint.get('budget_s', 20)
    n = 0
    failures = []
    todo = list(exhaustive_depth2())
    while time.time() < t_end:
        expr = todo.pop() if todo else gen(rnd, rnd.randint(1, 3))
        n += 1
        bad = run(expr)
        if bad:
            body = PRELUDE + '\nexpr = %r\nbad = run(expr)\nprint("FAIL: " + bad if bad else "PASS")\nsys.exit(1 if bad else 0)\n' % (expr,)
            p = write_replay('C02', 'expr', body)
            failures.append(dict(what=bad, script=p, known=None))
            break
    finish(n, failures)


main()
