"""C10 extraction (runs under the repo's interpreter): build every arrayed equation of the enumeration on the REAL
sddsl classes and dump, per case, whether it was accepted and the function string the real code generated for every
element of the result.  Nothing is evaluated here except an optional numeric cross-check; the deciding comparison with
the numpy operation is done symbolically (all element values) by contracts/c10_arrays.py.

usage: c10_extract.py <bound> <out.jsonl>
"""
import itertools
import json
import os
import sys

sys.path.insert(0, os.environ.get('VERIF_REPO', '/repo'))
from BPTK_Py import Model  # noqa


NUM = 2.5


def shapes(bound):
    out = [(n,) for n in range(1, bound + 1)]
    out += [(r, c) for r in range(1, bound + 1) for c in range(1, bound + 1)]
    return out


def reshapes(bound):
    out = []
    for n in range(1, bound + 1):
        for k in range(1, bound + 1):
            out.append(((n,), (n, k)))           # vector -> matrix with the same length
    for r in range(1, bound + 1):
        for c in range(1, bound):
            for c2 in range(c + 1, bound + 1):
                out.append(((r, c), (r, c2)))    # more columns, same number of rows
    return out


def leafval(tag, idx):
    # distinct, non-integer, non-zero values (only used by the numeric cross-check)
    base = {'a': 1.37, 'b': -0.61, 'c': 3.3, 'd': 0.77}.get(tag, 0.9 + 0.37 * sum(ord(ch) % 7 for ch in tag))
    return round(base + 0.173 * sum((k + 1) * (i + 1) * (1 if k == 0 else 1.9) for k, i in enumerate(idx)), 6)


def make_operand(m, tag, kind, named=False):
    """kind: shape tuple | 'S' (scalar element) | 'N' (python number) -> (object usable in an expression, description)"""
    if kind == 'N':
        return NUM, dict(kind='num', value=NUM)
    if isinstance(kind, tuple) and kind and kind[0] == 'D':
        # derived array: a converter whose members are the operator equations of an element-wise operation
        _, op, shape, partner = kind
        x, dx = make_operand(m, tag + 'x', shape)
        y, dy = make_operand(m, tag + 'y', partner)
        e = m.converter(tag)
        e.equation = BINOPS[op](x, y) if partner != 'S' else BINOPS[op](y, x)
        leaves, defs = {}, {}
        for idx in itertools.product(*[range(n) for n in shape]):
            sub = e
            for i in idx:
                sub = sub[sub._elements.equations[i]]
            leaves[','.join(str(i) for i in idx)] = sub.name
            defs[sub.name] = sub.function_string
        return e, dict(kind='derived', name=tag, op=op, shape=list(shape), named=False, bases=[dx, dy] if partner != 'S' else [dy, dx], leaves=leaves, defs=defs)
    if isinstance(kind, tuple) and kind and kind[0] == 'M':
        # a NAMED array whose member names differ from the standard ones (k0.. / r0.. / c0..): 'other' = other names, 'perm' = same
        # names in another order
        _, shape, variant = kind
        def names(prefix, n_):
            base = ['%s%d' % (prefix, i) for i in range(n_)]
            return [x + 'x' for x in base] if variant == 'other' else list(reversed(base))
        e = m.constant(tag)
        leaves, values = {}, {}
        if len(shape) == 1:
            nms = names('k', shape[0])
            e.setup_named_vector({nm: leafval(tag, (i,)) for i, nm in enumerate(nms)})
            for i, nm in enumerate(nms):
                leaves[str(i)] = e[nm].name; values[str(i)] = leafval(tag, (i,))
        else:
            rows, cols = ['r%d' % i for i in range(shape[0])], names('c', shape[1])
            e.setup_named_matrix({rn: {cn: leafval(tag, (i, j)) for j, cn in enumerate(cols)} for i, rn in enumerate(rows)})
            for i, rn in enumerate(rows):
                for j, cn in enumerate(cols):
                    leaves['%d,%d' % (i, j)] = e[rn][cn].name; values['%d,%d' % (i, j)] = leafval(tag, (i, j))
        return e, dict(kind='array', name=tag, shape=list(shape), named=True, names_variant=variant, leaves=leaves, values=values)
    if isinstance(kind, tuple) and kind and kind[0] == 'R':
        # an array that was used with shape s0 and is then set up again, in place, with the wider shape s1
        _, s0, s1 = kind
        e, _d0 = make_operand(m, tag, s0)
        probe = m.converter(tag + '_probe')
        probe.equation = e + e
        probe2 = m.converter(tag + '_probe2')
        probe2.equation = e.arr_rank(1)
        str(e.dot(e) if len(s0) == 1 else e.arr_sum())
        if len(s1) == 1:
            e.setup_vector(s1[0], [leafval(tag, (i,)) for i in range(s1[0])])
        else:
            e.setup_matrix(list(s1), [[leafval(tag, (i, j)) for j in range(s1[1])] for i in range(s1[0])])
        leaves, values = {}, {}
        for idx in itertools.product(*[range(n) for n in s1]):
            sub = e
            for i in idx:
                sub = sub[i]
            leaves[','.join(str(i) for i in idx)] = sub.name
            values[','.join(str(i) for i in idx)] = leafval(tag, idx)
        return e, dict(kind='array', name=tag, shape=list(s1), named=False, reshaped_from=list(s0), leaves=leaves, values=values)
    e = m.constant(tag)
    if kind == 'S':
        e.equation = leafval(tag, ())
        return e, dict(kind='scalar', name=tag, leaves={'': tag}, values={'': leafval(tag, ())})
    leaves, values = {}, {}
    if len(kind) == 1:
        if named:
            names = ['k%d' % i for i in range(kind[0])]
            e.setup_named_vector({nm: leafval(tag, (i,)) for i, nm in enumerate(names)})
            for i, nm in enumerate(names):
                leaves[str(i)] = e[nm].name
                values[str(i)] = leafval(tag, (i,))
        else:
            e.setup_vector(kind[0], [leafval(tag, (i,)) for i in range(kind[0])])
            for i in range(kind[0]):
                leaves[str(i)] = e[i].name
                values[str(i)] = leafval(tag, (i,))
    else:
        if named:
            rows = ['r%d' % i for i in range(kind[0])]
            cols = ['c%d' % j for j in range(kind[1])]
            e.setup_named_matrix({rn: {cn: leafval(tag, (i, j)) for j, cn in enumerate(cols)} for i, rn in enumerate(rows)})
            for i, rn in enumerate(rows):
                for j, cn in enumerate(cols):
                    leaves['%d,%d' % (i, j)] = e[rn][cn].name
                    values['%d,%d' % (i, j)] = leafval(tag, (i, j))
        else:
            e.setup_matrix(list(kind), [[leafval(tag, (i, j)) for j in range(kind[1])] for i in range(kind[0])])
            for i in range(kind[0]):
                for j in range(kind[1]):
                    leaves['%d,%d' % (i, j)] = e[i][j].name
                    values['%d,%d' % (i, j)] = leafval(tag, (i, j))
    return e, dict(kind='array', name=tag, shape=list(kind), named=named, leaves=leaves, values=values)


def result_of(r):
    """element -> {index string: (function string, value at t=1 | error)}; '' for a non-arrayed result"""
    out = {}

    def val(e):
        try:
            v = e(1.0)
            return float(v)
        except BaseException as ex:   # noqa
            return 'ERR %s: %s' % (type(ex).__name__, str(ex)[:80])
    if not r.arrayed or r._elements.vector_size() == 0:
        return {'': [r.function_string, val(r)]}, None
    names = list(r._elements.equations)
    sub0 = r[names[0]]
    if sub0._elements.vector_size() == 0:
        for i, k in enumerate(names):
            out[str(i)] = [r[k].function_string, val(r[k])]
        return out, [len(names)]
    ncols = None
    for i, k in enumerate(names):
        cols = list(r[k]._elements.equations)
        ncols = len(cols) if ncols is None else ncols
        if len(cols) != ncols:
            return {'ragged': ['', 'ragged result']}, None
        for j, c in enumerate(cols):
            out['%d,%d' % (i, j)] = [r[k][c].function_string, val(r[k][c])]
    return out, [len(names), ncols]


BINOPS = {'add': lambda x, y: x + y, 'sub': lambda x, y: x - y, 'mul': lambda x, y: x * y, 'div': lambda x, y: x / y,
          'dot': lambda x, y: x.dot(y)}
AGGS = {'sum': lambda x: x.arr_sum(), 'prod': lambda x: x.arr_prod(), 'mean': lambda x: x.arr_mean(), 'median': lambda x: x.arr_median(),
        'stddev': lambda x: x.arr_stddev(), 'size': lambda x: x.arr_size(), 'rank1': lambda x: x.arr_rank(1), 'rank2': lambda x: x.arr_rank(2),
        'rank9': lambda x: x.arr_rank(9), 'rankneg': lambda x: x.arr_rank(-1)}
# composite forms over three operands (all of the same shape s, or dot-compatible): built from the binary operators
COMPOSITE = {'(a+b)*N': lambda a, b, c: (a + b) * NUM, 'N*(a-b)': lambda a, b, c: NUM * (a - b), '(a*b)+c': lambda a, b, c: (a * b) + c,
             'a-(b/c)': lambda a, b, c: a - (b / c), '(a+b).dot(c)': lambda a, b, c: (a + b).dot(c), 'a.dot(b)+c': lambda a, b, c: a.dot(b) + c,
             'a.dot(b).dot(c)': lambda a, b, c: a.dot(b).dot(c), 'a.dot(b+c)': lambda a, b, c: a.dot(b + c),
             # an array combined element-wise with a dot RESULT (operator operand) of any shape, matching or not
             'c+a.dot(b)': lambda a, b, c: c + a.dot(b), 'c*a.dot(b)': lambda a, b, c: c * a.dot(b),
             'a.dot(b)-c': lambda a, b, c: a.dot(b) - c, 'a.dot(b)/c': lambda a, b, c: a.dot(b) / c}
MIXED = ('c+a.dot(b)', 'c*a.dot(b)', 'a.dot(b)-c', 'a.dot(b)/c')


def kind_json(k):
    if isinstance(k, tuple) and k and isinstance(k[0], str):
        return [k[0]] + [kind_json(x) if isinstance(x, tuple) else x for x in k[1:]]
    return list(k) if isinstance(k, tuple) else k


def kind_from_json(k):
    if isinstance(k, list) and k and isinstance(k[0], str):
        return tuple([k[0]] + [kind_from_json(x) if isinstance(x, list) else x for x in k[1:]])
    return tuple(k) if isinstance(k, list) else k


def run_case(form, kinds, named=False, target='converter'):
    m = Model(starttime=0.0, stoptime=3.0, dt=1.0, name='m')
    ops, descs = [], []
    for tag, kind in zip('abc', kinds):
        o, d = make_operand(m, tag, kind, named and kind not in ('S', 'N'))
        ops.append(o)
        descs.append(d)
    rec = dict(form=form, kinds=[kind_json(k) for k in kinds], named=named, operands=descs)
    try:
        if form in BINOPS:
            expr = BINOPS[form](ops[0], ops[1])
        elif form in AGGS:
            expr = AGGS[form](ops[0])
        else:
            expr = COMPOSITE[form](*ops)
        r = m.converter('r')
        r.equation = expr
        res, dims = result_of(r)
        rec.update(accepted=True, result=res, dims=dims)
    except BaseException as ex:   # noqa
        rec.update(accepted=False, error='%s: %s' % (type(ex).__name__, str(ex)[:160]))
    return rec


def main():
    BOUND = int(sys.argv[1])
    OUT = sys.argv[2]
    shp = shapes(BOUND)
    n = 0
    with open(OUT, 'w') as f:
        def emit(rec):
            nonlocal n
            n += 1
            f.write(json.dumps(rec) + '\n')
        for form in BINOPS:
            for k1, k2 in itertools.product(shp + ['S', 'N'], repeat=2):
                if k1 in ('S', 'N') and k2 in ('S', 'N'):
                    continue
                emit(run_case(form, (k1, k2)))
            # named operands: equal shapes and a scalar partner
            if form != 'dot':
                for s in shp:
                    emit(run_case(form, (s, s), named=True))
                    emit(run_case(form, (s, 'N'), named=True))
                    emit(run_case(form, ('S', s), named=True))
        for form in AGGS:
            for s in shp:
                emit(run_case(form, (s,)))
                emit(run_case(form, (s,), named=True))
        small3 = [x for x in shp if all(n <= 3 for n in x)]
        for form in MIXED:
            for m_, n_ in itertools.product(range(1, 4), repeat=2):
                for cshape in small3:
                    emit(run_case(form, ((m_, n_), (n_,), cshape)))      # matrix . vector -> vector of length m
                    emit(run_case(form, ((m_,), (m_, n_), cshape)))      # vector . matrix -> vector of length n
        for form in COMPOSITE:
            if form in MIXED:
                continue
            for s in shp:
                if 'dot' in form:
                    if len(s) == 2 and s[0] == s[1]:
                        emit(run_case(form, (s, s, s)))
                        emit(run_case(form, ((s[0],), s, (s[0],))))
                    elif len(s) == 1:
                        emit(run_case(form, (s, s, s)))
                else:
                    emit(run_case(form, (s, s, s)))
        # named arrays whose index NAMES do not match (same shape): must be refused or yield no value
        for form in ('add', 'sub', 'mul', 'div'):
            for sh in [x for x in shp if all(n <= min(BOUND, 3) for n in x)]:
                if len(sh) == 1 and sh[0] < 2:
                    continue
                if len(sh) == 2 and sh[1] < 2:
                    continue
                for variant in ('other',):   # (same names in another order are combined by NAME: a match, not enumerated here)
                    emit(run_case(form, (sh, ('M', sh, variant)), named=True))
                    emit(run_case(form, (('M', sh, variant), sh), named=True))
        # aggregates and operators over DERIVED arrays (members are operator equations)
        small = [x for x in shp if all(n <= min(BOUND, 3) for n in x)]
        for op in ('add', 'sub', 'mul', 'div'):
            for sh in small:
                for partner in (sh, 'S'):
                    d = ('D', op, sh, partner)
                    for form in AGGS:
                        emit(run_case(form, (d,)))
                    emit(run_case('add', (d, sh)))
                    emit(run_case('mul', ('N', d)))
                    if len(sh) == 1:
                        emit(run_case('dot', (d, sh)))
                    else:
                        emit(run_case('dot', (d, (sh[1],))))
        # arrays re-set up in place (same first dimension, wider) after they have been used
        for s0, s1 in reshapes(min(BOUND, 3)):
            r = ('R', s0, s1)
            for form in AGGS:
                emit(run_case(form, (r,)))
            for form in ('add', 'mul'):
                emit(run_case(form, (r, s1)))
                emit(run_case(form, (r, s0)))
                emit(run_case(form, (r, 'N')))
                emit(run_case(form, (r, r)))
            for other in shp:
                emit(run_case('dot', (r, other)))
                emit(run_case('dot', (other, r)))
    print(json.dumps(dict(cases=n)))
    sys.stdout.flush()
    os._exit(0)


if __name__ == '__main__':
    main()
