"""Minimal XMILE document builder + loader of the transpiled module (shared by the C03 / C04 machinery; runs under the
repo's interpreter).  Only what the transpiler reads is emitted: header, sim_specs, one model with its variables."""
import importlib.util
import os
import sys
import tempfile

sys.path.insert(0, os.environ.get('VERIF_REPO', '/repo'))


def xml_escape(s):
    return str(s).replace('&', '&amp;').replace('<', '&lt;').replace('>', '&gt;').replace('"', '&quot;')


def _variables_xml(variables):
    vs = []
    for v in variables:
        body = '<eqn>%s</eqn>' % xml_escape(v['eqn'])
        for i in v.get('inflows', []):
            body += '<inflow>%s</inflow>' % xml_escape(i)
        for o in v.get('outflows', []):
            body += '<outflow>%s</outflow>' % xml_escape(o)
        if v.get('non_negative'):
            body += '<non_negative/>'
        if v.get('gf'):
            xs, ys = zip(*v['gf'])
            if v.get('xpts'):
                # explicit (possibly unevenly spaced) x points
                body += '<gf><yscale min="%s" max="%s"/><xpts>%s</xpts><ypts>%s</ypts></gf>' % (
                    min(ys), max(ys), ','.join(repr(float(x)) for x in xs), ','.join(repr(float(y)) for y in ys))
            else:
                body += '<gf><xscale min="%s" max="%s"/><yscale min="%s" max="%s"/><ypts>%s</ypts></gf>' % (
                    xs[0], xs[-1], min(ys), max(ys), ','.join(repr(float(y)) for y in ys))
        vs.append('<%s name="%s">%s</%s>' % (v['kind'], xml_escape(v['name']), body, v['kind']))
    return ''.join(vs)


def xmile(name, start, stop, dt, variables, reciprocal=False, modules=None):
    """variables: list of dict(kind='stock'|'flow'|'aux', name, eqn, inflows=[], outflows=[], non_negative=False, gf=[(x,y)..]);
    modules: {module name: variables} -> one extra <model name=...> per module, referenced from the root model"""
    vs = [_variables_xml(variables)]
    extra = ''
    for mname, mvars in (modules or {}).items():
        vs.insert(0, '<module name="%s"/>' % xml_escape(mname))
        extra += '<model name="%s"><variables>%s</variables></model>' % (xml_escape(mname), _variables_xml(mvars))
    dts = '<dt reciprocal="true">%s</dt>' % dt if reciprocal else '<dt>%s</dt>' % dt
    return ('<?xml version="1.0" encoding="utf-8"?>\n'
            '<xmile version="1.0" xmlns="http://docs.oasis-open.org/xmile/ns/XMILE/v1.0" xmlns:isee="http://iseesystems.com/XMILE">'
            '<header><smile version="1.0" namespace="std, isee"/><name>%s</name><uuid>0</uuid><vendor>verif</vendor>'
            '<product version="1.0" lang="en">verif</product></header>'
            '<sim_specs method="Euler" time_units="Months"><start>%s</start><stop>%s</stop>%s</sim_specs>'
            '<model><variables>%s</variables></model>%s</xmile>') % (name, start, stop, dts, ''.join(vs), extra)


class Compiled:
    """compile an XMILE text with the REAL compile_xmile into a scratch directory; .text is the generated python,
    .model() a fresh simulation_model instance"""

    _n = 0

    def __init__(self, text, keep=False):
        from BPTK_Py.sdcompiler.compile import compile_xmile
        self.dir = tempfile.mkdtemp(prefix='xmile_')
        Compiled._n += 1
        self.modname = 'xm_%d_%d' % (os.getpid(), Compiled._n)
        self.src = os.path.join(self.dir, self.modname + '.stmx')
        self.dest = os.path.join(self.dir, self.modname + '.py')
        with open(self.src, 'w') as f:
            f.write(text)
        try:
            compile_xmile(self.src, self.dest, 'py')
            with open(self.dest) as f:
                self.text = f.read()
        finally:
            if not keep and not os.path.exists(self.dest):
                self.cleanup()

    def model(self):
        spec = importlib.util.spec_from_file_location(self.modname, self.dest)
        mod = importlib.util.module_from_spec(spec)
        spec.loader.exec_module(mod)
        return mod.simulation_model()

    def cleanup(self):
        import shutil
        shutil.rmtree(self.dir, ignore_errors=True)


def equations_of(text):
    """generated python -> {equation name: source text of the lambda body} (from the self.equations dict literal)"""
    import ast
    tree = ast.parse(text)
    out = {}
    for node in ast.walk(tree):
        if isinstance(node, ast.Assign) and len(node.targets) == 1 and ast.unparse(node.targets[0]) == 'self.equations' and isinstance(node.value, ast.Dict):
            for k, v in zip(node.value.keys, node.value.values):
                if isinstance(k, ast.Constant) and isinstance(v, ast.Lambda):
                    out[k.value] = ast.unparse(v.body)
    return out
