"""source text shared by the server harnesses and the replay scripts they write"""
PRELUDE = '''
import json, datetime as _real_datetime
from BPTK_Py import Model, bptk
from BPTK_Py.server import BptkServer
import BPTK_Py.server.bptkServer as srvmod

DESTROYED = []      # serial numbers of destroyed bptk objects (NOT id(): python reuses the id of a freed object)
_SERIAL = [0]

SM = ["sm"]          # name of the scenario manager the factory registers (a harness may switch it, e.g. to "2024")
RUNSPEC = [1.0, 10.0, 1.0]
TWO = [False]        # True: the factory registers a second manager "sm2" (another model) and sessions span both managers

def make_bptk():
    m = Model(starttime=RUNSPEC[0], stoptime=RUNSPEC[1], dt=RUNSPEC[2], name="m")
    s = m.stock("s"); f = m.flow("f"); c = m.constant("c")
    s.initial_value = 0.0; c.equation = 1.0; f.equation = c; s.equation = f
    b = bptk()
    b.register_model(m)
    b.register_scenario_manager({SM[0]: {"model": m}})
    b.register_scenarios(scenario_manager=SM[0], scenarios={"base": {"constants": {"c": 1.0}}})
    if TWO[0]:
        m2 = Model(starttime=RUNSPEC[0], stoptime=RUNSPEC[1], dt=RUNSPEC[2], name="m2")
        s2 = m2.stock("s"); f2 = m2.flow("f"); c2 = m2.constant("c")
        s2.initial_value = 5.0; c2.equation = 3.0; f2.equation = c2 * 2.0; s2.equation = f2
        b.register_scenario_manager({"sm2": {"model": m2}})
        b.register_scenarios(scenario_manager="sm2", scenarios={"base": {"constants": {"c": 3.0}}})
    orig = b.destroy
    _SERIAL[0] += 1
    b._verif_serial = _SERIAL[0]
    def destroy(orig=orig, b=b):
        DESTROYED.append(b._verif_serial); return orig()
    b.destroy = destroy
    return b

class FakeClock:
    now_value = _real_datetime.datetime(2030, 1, 1, 0, 0, 0)
    class datetime(_real_datetime.datetime):
        @classmethod
        def now(cls, tz=None):
            return FakeClock.now_value
    timedelta = _real_datetime.timedelta
    @classmethod
    def advance(cls, seconds):
        cls.now_value = cls.now_value + _real_datetime.timedelta(seconds=seconds)

def make_app(token=None, fake_clock=False, adapter=None):
    if fake_clock:
        srvmod.datetime = FakeClock
    app = BptkServer(__name__, make_bptk, external_state_adapter=adapter, bearer_token=token)
    return app

BEGIN = {"scenario_managers": ["sm"], "scenarios": ["base"], "equations": ["s", "c"]}

def start(client, headers=None, timeout=None):
    r = client.post("/start-instance", json=({"timeout": timeout} if timeout else None), headers=headers or {})
    return json.loads(r.data)["instance_uuid"]

def begin(client, u, headers=None):
    return client.post("/%s/begin-session" % u, json=dict(BEGIN, scenario_managers=[SM[0]] + (["sm2"] if TWO[0] else [])), headers=headers or {})

def digest(app):
    """server-side state that a refused request must not change"""
    d = {}
    for k, rec in app._instance_manager._instances.items():
        ss = rec["instance"].session_state
        d[k] = None if ss is None else (ss.get("step"), ss.get("lock"), len(ss.get("results_log", {}) or {}), repr(ss.get("settings_log"))[:200])
    sc = app._bptk.get_scenario(SM[0], "base")
    return (d, dict(sc.constants), len(DESTROYED))
'''
