"""C14 replay/search: random registry histories on the real Model against an oracle list.
Used (a) to replay counterexamples of failed obligations as legal user histories, (b) as engine
validation in the thorough tier.  Never the deciding step on its own."""
import random
import sys
import time
from verif.native.common import load_hint, write_replay, finish

PRELUDE = '''
from BPTK_Py import Model, Agent
from BPTK_Py.modeling.simultaneousScheduler import SimultaneousScheduler
from BPTK_Py.modeling.dataCollector import DataCollector

class TA(Agent):
    def initialize(self):
        self.agent_type = "a"
class TB(Agent):
    def initialize(self):
        self.agent_type = "b"
class TC(Agent):
    def initialize(self):
        self.agent_type = "c"

class TN(Agent):
    """an agent whose initialize() creates another agent (nested creation)"""
    def initialize(self):
        self.agent_type = "n"
        self.model.create_agent("a", None)

def consistent(m):
    """the queries agree with each other (no prediction of the ids needed)"""
    ids = [a.id for a in m.agents]
    if len(set(ids)) != len(ids):
        return "ids are not unique: %r" % ids
    for a in m.agents:
        r = m.agent(a.id)
        if r is not a:
            return "agent(%d) returns %r, not the agent with that id (type %s)" % (a.id, None if r is None else (r.id, r.agent_type), a.agent_type)
    for t in ("a", "b", "c", "n"):
        exp = [a.id for a in m.agents if a.agent_type == t]
        try:
            got = list(m.agent_ids(t)); cnt = m.agent_count(t)
        except Exception as e:
            if not exp:
                continue
            return "agent_ids/agent_count(%s) raised %s" % (t, type(e).__name__)
        if sorted(got) != sorted(exp) or cnt != len(exp):
            return "agent_ids(%s)=%r, agent_count=%r, the live agents of that type are %r" % (t, got, cnt, exp)
    return None

def run_nested(ops):
    """histories with an agent type whose initialize() creates another agent: ('n',) create a nesting agent, ('a',) a plain one,
    ('d', k) delete the k-th live agent, ('dall', type) delete_agents(agent_ids(type)) with the list the model hands out"""
    m = fresh_model()
    m.register_agent_factory("n", lambda i, mod, p: TN(i, mod, p))
    for n, op in enumerate(ops):
        try:
            if op[0] == "n":
                m.create_agent("n", None)
            elif op[0] == "a":
                m.create_agent("a", None)
            elif op[0] == "d" and m.agents:
                m.delete_agent(m.agents[op[1] % len(m.agents)].id)
            elif op[0] == "dall":
                m.delete_agents(m.agent_ids(op[1]))
        except Exception as e:
            return "step %d %r raised %s: %s" % (n, op, type(e).__name__, e)
        bad = consistent(m)
        if bad:
            return "after step %d %r: %s" % (n, op, bad)
    return None

def fresh_model(no_dc=False):
    # no_dc: the default constructor leaves data_collector None; every registry operation incl. reset must still work
    m = Model(scheduler=SimultaneousScheduler()) if no_dc else Model(scheduler=SimultaneousScheduler(), data_collector=DataCollector())
    m.register_agent_factory("a", lambda i, mod, p: TA(i, mod, p))
    m.register_agent_factory("b", lambda i, mod, p: TB(i, mod, p))
    m.register_agent_factory("c", lambda i, mod, p: TC(i, mod, p))
    return m

TYPES = ["a", "b", "c"]
STATES = ["active", "x", "y"]

def apply(m, oracle, op):
    """oracle: dict(agents=[(id,type,state)], next=int)"""
    k = op[0]
    if k == "create":
        m.create_agent(op[1], None)
        oracle["agents"].append([oracle["next"], op[1], "active"]); oracle["next"] += 1
    elif k == "creates":
        m.create_agents({"name": op[1], "count": op[2]})
        for _ in range(max(0, op[2])):
            oracle["agents"].append([oracle["next"], op[1], "active"]); oracle["next"] += 1
    elif k == "delete":
        m.delete_agent(op[1])
        oracle["agents"] = [a for a in oracle["agents"] if a[0] != op[1]]
    elif k == "deletes":
        m.delete_agents(list(op[1]))
        oracle["agents"] = [a for a in oracle["agents"] if a[0] not in op[1]]
    elif k == "churn":
        # several operations with no query in between: delete some agents and create as many (population size unchanged)
        m.delete_agents(list(op[1]))
        gone = [a for a in oracle["agents"] if a[0] in op[1]]
        oracle["agents"] = [a for a in oracle["agents"] if a[0] not in op[1]]
        for _ in range(len(gone)):
            m.create_agent(op[2], None)
            oracle["agents"].append([oracle["next"], op[2], "active"]); oracle["next"] += 1
    elif k == "configure":
        m.configure_agents([{"name": t, "count": c} for t, c in op[1]])
        oracle["agents"] = []
        for t, c in op[1]:
            for _ in range(c):
                oracle["agents"].append([oracle["next"], t, "active"]); oracle["next"] += 1
    elif k == "reset":
        m.reset()
        oracle["agents"] = []
    elif k == "state":
        ag = m.agent(op[1])
        if ag is not None:
            ag.state = op[2]
        for a in oracle["agents"]:
            if a[0] == op[1]:
                a[2] = op[2]

def check(m, oracle):
    """-> None or description of the first disagreement between the queries and the oracle"""
    live = oracle["agents"]
    ids = [a[0] for a in live]
    if [a.id for a in m.agents] != ids:
        return "agents list ids %r != expected %r" % ([a.id for a in m.agents], ids)
    if len(set(ids)) != len(ids):
        return "duplicate ids"
    for i in range(0, oracle["next"] + 2):
        try:
            r = m.agent(i)
        except Exception as e:
            return "agent(%d) raised %s" % (i, type(e).__name__)
        exp = [a for a in live if a[0] == i]
        if exp and (r is None or r.id != i or r.agent_type != exp[0][1]):
            return "agent(%d) returned %r" % (i, None if r is None else (r.id, r.agent_type))
        if not exp and r is not None:
            return "agent(%d) returned an agent although none is live" % i
    for t in TYPES:
        exp_ids = [a[0] for a in live if a[1] == t]
        try:
            got = list(m.agent_ids(t)); cnt = m.agent_count(t)
        except Exception as e:
            return "agent_ids/agent_count(%s) raised %s" % (t, type(e).__name__)
        if got != exp_ids:
            return "agent_ids(%s)=%r expected %r" % (t, got, exp_ids)
        if cnt != len(exp_ids):
            return "agent_count(%s)=%r expected %r" % (t, cnt, len(exp_ids))
        for s in STATES:
            e = len([a for a in live if a[1] == t and a[2] == s])
            try:
                g = m.agent_count_per_state(t, s)
            except Exception as ex:
                return "agent_count_per_state(%s,%s) raised %s" % (t, s, type(ex).__name__)
            if g != e:
                return "agent_count_per_state(%s,%s)=%r expected %r" % (t, s, g, e)
            na = m.next_agent(t, s)
            first = [a for a in live if a[1] == t and a[2] == s]
            if (na is None) != (not first) or (na is not None and na.id != first[0][0]):
                return "next_agent(%s,%s) wrong" % (t, s)
        ra = m.random_agents(t, 2)
        if any(x not in exp_ids for x in ra) or len(ra) != min(2, len(exp_ids)):
            return "random_agents(%s,2)=%r not within %r" % (t, ra, exp_ids)
    # the two lists of two different types must not be the same object
    lists = [id(m.agent_ids(t)) for t in TYPES]
    if len(set(lists)) != len(lists):
        return "per-type id lists are aliased"
    return None

def run(ops, no_dc=False):
    m = fresh_model(no_dc); oracle = dict(agents=[], next=0)
    for n, op in enumerate(ops):
        try:
            apply(m, oracle, op)
        except Exception as e:
            return "step %d %r raised %s: %s" % (n, op, type(e).__name__, e)
        bad = check(m, oracle)
        if bad:
            return "after step %d %r: %s" % (n, op, bad)
    return None
'''
exec(PRELUDE)


def gen_ops(rnd, n, weights):
    ops = []
    nxt = 0
    for _ in range(n):
        k = rnd.choices(list(weights), weights=list(weights.values()))[0]
        if k == 'create':
            ops.append(('create', rnd.choice(TYPES))); nxt += 1
        elif k == 'creates':
            c = rnd.randint(0, 3); ops.append(('creates', rnd.choice(TYPES), c)); nxt += c
        elif k == 'delete':
            ops.append(('delete', rnd.randint(0, max(0, nxt))))
        elif k == 'deletes':
            ops.append(('deletes', tuple(sorted({rnd.randint(0, max(0, nxt)) for _ in range(rnd.randint(0, 3))}))))
        elif k == 'churn':
            ops.append(('churn', tuple(sorted({rnd.randint(0, max(0, nxt)) for _ in range(rnd.randint(1, 3))})), rnd.choice(TYPES))); nxt += 3
        elif k == 'configure':
            spec = [(rnd.choice(TYPES), rnd.randint(0, 2)) for _ in range(rnd.randint(0, 3))]
            ops.append(('configure', tuple(spec))); nxt += sum(c for _, c in spec)
        elif k == 'reset':
            ops.append(('reset',))
        elif k == 'state':
            ops.append(('state', rnd.randint(0, max(0, nxt)), rnd.choice(STATES)))
    return ops


def shrink(ops):
    cur = list(ops)
    changed = True
    while changed:
        changed = False
        for i in range(len(cur)):
            cand = cur[:i] + cur[i + 1:]
            if run(cand):
                cur = cand
                changed = True
                break
    return cur


def main():
    hint = load_hint()
    rnd = random.Random(hint.get('seed', 0))
    weights = dict(create=4, creates=2, delete=3, deletes=2, configure=1, reset=1, state=3, churn=2)
    for f in hint.get('functions', []):
        for k in list(weights):
            if k.rstrip('s') in f or (k == 'configure' and 'configure' in f) or (k == 'reset' and 'reset' in f):
                weights[k] += 6
    t_end = time.time() + hint.get('budget_s', 20)
    n = 0
    failures = []
    for _ in range(300):
        nops = [rnd.choice([('n',), ('a',), ('n',), ('d', rnd.randint(0, 9)), ('dall', rnd.choice(['a', 'n']))]) for _ in range(rnd.randint(1, 8))]
        n += 1
        bad = run_nested(nops)
        if bad:
            body = PRELUDE + '\nops = %r\nbad = run_nested(ops)\nprint("history:", ops)\nprint("FAIL: " + bad if bad else "PASS")\nsys.exit(1 if bad else 0)\n' % (nops,)
            failures.append(dict(what='%s  (history %r)' % (bad, nops), script=write_replay('C14', 'nested', body), known=None))
            break
    # models built by the default constructor (no data collector): scripted reset histories, then random ones
    for ops in [[('reset',)], [('create', 'a'), ('reset',), ('create', 'b')], [('creates', 'a', 3), ('delete', 1), ('reset',), ('creates', 'c', 2)]] \
            + [gen_ops(rnd, rnd.randint(1, 10), dict(weights, reset=weights['reset'] + 6)) for _ in range(60)]:
        n += 1
        bad = run(ops, True)
        if bad:
            body = PRELUDE + '\nops = %r\nbad = run(ops, True)\nprint("history (Model without data collector):", ops)\nprint("FAIL: " + bad if bad else "PASS")\nsys.exit(1 if bad else 0)\n' % (ops,)
            failures.append(dict(what='%s  (no data collector, history %r)' % (bad, ops), script=write_replay('C14', 'nodc', body), known=None))
            break
    while time.time() < t_end and not failures:
        ops = gen_ops(rnd, rnd.randint(1, 12), weights)
        n += 1
        bad = run(ops)
        if bad:
            ops = shrink(ops)
            bad = run(ops)
            body = PRELUDE + '\nops = %r\nbad = run(ops)\nprint("history:", ops)\nprint("FAIL: " + bad if bad else "PASS")\nsys.exit(1 if bad else 0)\n' % (ops,)
            p = write_replay('C14', 'history', body)
            failures.append(dict(what='%s  (history %r)' % (bad, ops), script=p, known=None))
            break
    finish(n, failures)


main()
