"""C17 replay/search: timed sequences of create / access / keep-alive / metrics on the live app under a controlled clock."""
import random
import time
from verif.native.common import load_hint, write_replay, finish
from verif.native.server_prelude import PRELUDE

BODY = PRELUDE + '''
UNIT_SECONDS = {"weeks": 604800, "days": 86400, "hours": 3600, "minutes": 60, "seconds": 1, "milliseconds": 0.001, "microseconds": 0.000001}

def run(case):
    """case: list of ops  ('create', timeout_dict) | ('advance', seconds) | ('access', idx, kind) | ('metrics',)"""
    del DESTROYED[:]
    import tempfile, shutil
    tmpd = None
    use_adapter = bool(case) and case[0] == ("adapter",)
    if use_adapter:
        from BPTK_Py.externalstateadapter import FileAdapter
        tmpd = tempfile.mkdtemp(prefix="c17_")
    try:
        return _run(case, make_app(fake_clock=True, adapter=(FileAdapter(False, tmpd) if use_adapter else None)), use_adapter)
    finally:
        if tmpd:
            shutil.rmtree(tmpd, ignore_errors=True)

def _run(case, app, use_adapter):
    client = app.test_client()
    ids = []          # created instance ids
    last = {}         # id -> clock value of creation / last access
    tmo = {}          # id -> seconds
    objs = {}
    def now():
        return (FakeClock.now_value - _real_datetime.datetime(2030, 1, 1)).total_seconds()
    def expired(u):
        return now() >= last[u] + tmo[u]
    def expect(step, swept_except=None):
        table = app._instance_manager._instances
        for u in ids:
            if u == swept_except:
                continue
            if u in gone:
                if u in table:
                    return "step %d: instance %d is back although it had timed out" % (step, ids.index(u))
                continue
            if expired(u):
                if u in table:
                    return "step %d: instance %d not accessed for %.6gs (timeout %.6gs) is still there" % (step, ids.index(u), now() - last[u], tmo[u])
                gone.add(u)
                if DESTROYED.count(objs[u]) != 1:
                    return "step %d: resources of timed-out instance %d released %d times" % (step, ids.index(u), DESTROYED.count(objs[u]))
            elif u not in table:
                return "step %d: instance %d vanished %.6gs after its last access (timeout %.6gs)" % (step, ids.index(u), now() - last[u], tmo[u])
        return None
    gone = set()
    held = []
    held_ids = set()
    for step, op in enumerate(case):
        if op[0] == "adapter":
            continue
        if op[0] == "create":
            u = start(client, timeout=op[1]); ids.append(u); last[u] = now()
            tmo[u] = sum(UNIT_SECONDS[k] * v for k, v in op[1].items())
            objs[u] = app._instance_manager._instances[u]["instance"]._verif_serial
            begin(client, u); last[u] = now()
            if use_adapter:
                client.post("/%s/run-step" % u); last[u] = now()        # a stepping request externalises the state
            bad = expect(step)
        elif op[0] == "advance":
            FakeClock.advance(op[1]); bad = None
        elif op[0] == "hold":
            # a stream in progress (instance locked) that nobody reads any more: it times out like any other instance
            live = [u for u in ids if u not in gone and not expired(u)]
            bad = None
            if live:
                u = live[op[1] % len(live)]
                r = client.post("/%s/stream-steps" % u, buffered=False)
                it = iter(r.response)
                try:
                    next(it); next(it)
                except StopIteration:
                    pass
                held.append((r, it)); held_ids.add(u)
                last[u] = now()
                bad = expect(step)
        elif op[0] == "metrics":
            r = client.get("/full-metrics" if op[1] else "/metrics")
            bad = expect(step)
            if not bad and op[1]:
                m = json.loads(r.data)
                alive = [u for u in ids if u not in gone]
                if m.get("instanceCount") != len(alive):
                    bad = "step %d: metrics report %r instances, %d are alive" % (step, m.get("instanceCount"), len(alive))
                elif sorted(k for k in m if k not in ("instanceCount", "threadCount")) != sorted(alive):
                    bad = "step %d: metrics list the wrong instances" % step
        elif op[0] == "access":
            if not ids:
                continue
            u = ids[op[1] % len(ids)]
            path = {"keep": "/%s/keep-alive", "step": "/%s/run-step", "results": "/%s/session-results"}[op[2]] % u
            was_expired = (u in gone) or expired(u)
            r = client.open(path, method="GET" if op[2] == "results" else "POST")
            if u in gone and use_adapter and op[2] != "keep":
                # its state was externalised: the request restores it transparently, and it lives on from this access
                bad = None
                if not (200 <= r.status_code < 300):
                    bad = "step %d: instance %d had timed out with its state externalised; the next request must restore it, it answered %d" % (step, ids.index(u), r.status_code)
                else:
                    gone.discard(u); last[u] = now()
                    objs[u] = app._instance_manager._instances[u]["instance"]._verif_serial
                    bad = expect(step)
            elif u in gone:
                # the id is no longer known: the request is refused and (not being an access to any instance) sweeps nothing
                bad = None
                if 200 <= r.status_code < 300 and not use_adapter:
                    bad = "step %d: timed-out instance %d answered %d" % (step, ids.index(u), r.status_code)
            elif was_expired:
                # expired but not swept yet: this access re-stamps it first, so it either survives or is refused
                if u in app._instance_manager._instances:
                    last[u] = now()
                else:
                    gone.add(u)
                bad = expect(step)
            else:
                if not (200 <= r.status_code < 300) and not (op[2] == "step" and u in held_ids):
                    return "step %d: live instance %d refused %s with %d" % (step, ids.index(u), op[2], r.status_code)
                last[u] = now()
                bad = expect(step)
        if bad:
            return bad
    return None
'''
exec(BODY)


def gen(rnd):
    case = [('adapter',)] if rnd.random() < 0.35 else []
    for _ in range(rnd.randint(2, 4)):
        unit = rnd.choice(['weeks', 'days', 'hours', 'minutes', 'seconds', 'milliseconds', 'microseconds'])
        val = rnd.choice([1, 2, 3])
        t = {unit: val}
        if rnd.random() < 0.3:
            t[rnd.choice(['seconds', 'minutes'])] = rnd.choice([1, 5])
        case.append(('create', t))
    for _ in range(rnd.randint(3, 12)):
        r = rnd.random()
        if r < 0.4:
            case.append(('advance', rnd.choice([0.0000005, 0.0004, 0.5, 0.9, 1, 30, 59, 61, 1800, 3601, 43200, 86400, 604800, 1300000])))
        elif r < 0.55:
            case.append(('metrics', rnd.random() < 0.7))
        elif r < 0.65:
            case.append(('create', {'seconds': rnd.choice([1, 2, 90])}))
        elif r < 0.72:
            case.append(('hold', rnd.randint(0, 5)))
        else:
            case.append(('access', rnd.randint(0, 5), rnd.choice(['keep', 'step', 'results'])))
    return case


def main():
    hint = load_hint()
    rnd = random.Random(hint.get('seed', 0))
    t_end = time.time() + hint.get('budget_s', 20)
    n = 0
    failures = []
    while time.time() < t_end:
        case = gen(rnd)
        n += 1
        try:
            bad = run(case)
        except Exception as e:
            bad = 'harness raised %s: %s' % (type(e).__name__, e)
        if bad:
            body = BODY + '\ncase = %r\nbad = run(case)\nprint("timeline:", case)\nprint("FAIL: " + bad if bad else "PASS")\nsys.stdout.flush()\nos._exit(1 if bad else 0)\n' % (case,)
            p = write_replay('C17', 'timeline', body)
            failures.append(dict(what='%s (timeline %r)' % (bad, case), script=p, known=None))
            break
    finish(n, failures)


main()
