"""C04 extraction (runs under the repo's interpreter): every stock/flow STRUCTURE of the enumeration is written as an
XMILE document, transpiled with the REAL compile_xmile, and the generated equation texts are dumped.  The comparison
with the explicit-Euler step (for all values, all t, dt, start) is done symbolically by contracts/c04_euler.py.

usage: c04_extract.py <bound> <out.jsonl>"""
import itertools
import json
import os
import sys

sys.path.insert(0, os.environ.get('VERIF_REPO', '/repo'))
from verif.native.xmile_gen import xmile, Compiled, equations_of  # noqa


def structure(n_in, n_out, nonneg, names='plain', init='7.5', second_stock=False):
    """one stock with n_in inflows and n_out outflows; flow k reads aux a<k>; nonneg: 'all' | 'none' | 'mixed'"""
    nm = {'plain': lambda s: s, 'spaces': lambda s: s.replace('_', ' ').title(), 'caps': lambda s: s.upper()}[names]
    ref = {'plain': lambda s: s, 'spaces': lambda s: s.replace('_', ' ').title().replace(' ', '_'), 'caps': lambda s: s.upper()}[names]
    ins = ['in_flow_%d' % i for i in range(n_in)]
    outs = ['out_flow_%d' % i for i in range(n_out)]
    vs = [dict(kind='stock', name=nm('tank_level'), eqn=init, inflows=[ref(x) for x in ins], outflows=[ref(x) for x in outs])]
    flows = {}
    for k, f in enumerate(ins + outs):
        nn = nonneg == 'all' or (nonneg == 'mixed' and k % 2 == 0)
        vs.append(dict(kind='flow', name=nm(f), eqn=ref('aux_%d' % k), non_negative=nn))
        flows[f.replace('_', '').lower() if False else f] = dict(reads='aux_%d' % k, non_negative=nn)
        vs.append(dict(kind='aux', name=nm('aux_%d' % k), eqn=repr(1.5 + k)))
    if second_stock and outs:
        # the first outflow of the tank feeds a second stock
        vs.append(dict(kind='stock', name=nm('sink_level'), eqn='0', inflows=[ref(outs[0])], outflows=[]))
    return vs, dict(stock='tank_level', inflows=ins, outflows=outs, flows=flows, init=init, second='sink_level' if (second_stock and outs) else None)


def main():
    bound = int(sys.argv[1])
    out = sys.argv[2]
    n = 0
    with open(out, 'w') as f:
        for n_in, n_out in itertools.product(range(bound + 1), repeat=2):
            for nonneg in ('none', 'all', 'mixed'):
                for names in (('plain', 'spaces') if (n_in + n_out) <= 3 else ('plain',)):
                    for second in ((False, True) if n_out else (False,)):
                        vs, desc = structure(n_in, n_out, nonneg, names, second_stock=second)
                        from BPTK_Py.sdcompiler.plugins import sanitizeName
                        logical = [desc['stock']] + desc['inflows'] + desc['outflows'] + [fl['reads'] for fl in desc['flows'].values()] + ([desc['second']] if desc['second'] else [])
                        shown = {'plain': lambda s: s, 'spaces': lambda s: s.replace('_', ' ').title(), 'caps': lambda s: s.upper()}[names]
                        rec = dict(n_in=n_in, n_out=n_out, nonneg=nonneg, names=names, second=second, desc=desc,
                                   sanitized={x: sanitizeName('.' + shown(x).lower()) for x in logical})
                        c = None
                        try:
                            c = Compiled(xmile('m', 0, 10, 0.25, vs))
                            rec.update(ok=True, equations=equations_of(c.text))
                        except BaseException as e:   # noqa
                            rec.update(ok=False, error='%s: %s' % (type(e).__name__, str(e)[:200]))
                        finally:
                            if c is not None:
                                c.cleanup()
                        f.write(json.dumps(rec) + '\n')
                        n += 1
    print(json.dumps(dict(cases=n)))
    sys.stdout.flush()
    os._exit(0)


if __name__ == '__main__':
    main()
