"""C15 replay/search on the live Flask app (test client): every non-public rule x method x credential shape x state."""
import time
from verif.native.common import load_hint, write_replay, finish
from verif.native.server_prelude import PRELUDE

BODY = PRELUDE + '''
TOKEN = "S3cretTok"
PUBLIC = {"/", "/healthy", "/metrics", "/full-metrics"}
CREDS = [None, "", "Bearer", "Bearer ", "Bearer wrong", "Bearer " + TOKEN[:-1], "Bearer " + TOKEN + "X", "Bearer " + TOKEN + TOKEN,
         "Bearer " + TOKEN.lower(), "Bearer " + TOKEN.upper(), TOKEN, "Bearer  " + TOKEN, "Bearer x " + TOKEN, "bearer wrong", "Basic wrong"]
OK = {"Authorization": "Bearer " + TOKEN}

def probes(app):
    out = []
    for rule in app.url_map.iter_rules():
        if rule.rule in PUBLIC or rule.rule.startswith("/static"):
            continue
        for meth in sorted(rule.methods - {"HEAD", "OPTIONS"}):
            out.append((rule.rule, meth))
    return sorted(out)

def sweep(app, client, uuid, tag):
    evals = 0
    for (rule, meth) in probes(app):
        path = rule.replace("<instance_uuid>", uuid)
        for cred in CREDS:
            for body in (None, {"settings": {"sm": {"base": {"constants": {"c": 9.0}}}}, "numberSteps": 2,
                                "scenario_managers": ["sm"], "scenarios": ["base"], "equations": ["s"]}):
                before = digest(app)
                hdr = {} if cred is None else {"Authorization": cred}
                try:
                    r = client.open(path, method=meth, json=body, headers=hdr)
                    code = r.status_code
                    r.close()
                except Exception as e:
                    code = 500
                evals += 1
                after = digest(app)
                if 200 <= code < 300:
                    return evals, "%s: %s %s with Authorization=%r answered %d" % (tag, meth, path, cred, code)
                if before != after:
                    return evals, "%s: refused %s %s with Authorization=%r changed server state" % (tag, meth, path, cred)
    return evals, None

def run(case):
    app = make_app(token=TOKEN)
    client = app.test_client()
    n, bad = sweep(app, client, "nonexistent", "no instances")
    if bad:
        return n, bad
    u = start(client, OK); begin(client, u, OK)
    client.post("/%s/run-step" % u, headers=OK)
    n2, bad = sweep(app, client, u, "live session")
    if bad:
        return n + n2, bad
    # histories: authorised requests that fail inside the handler, then the sweep again
    client.post("/equations", json={"scenarioManager": "nope", "scenario": "nope"}, headers=OK)
    client.post("/agents", json={}, headers=OK)
    client.post("/%s/run-steps" % u, json={"numberSteps": 1}, headers=OK)
    n3, bad = sweep(app, client, u, "after failing authorised requests")
    if bad:
        return n + n2 + n3, bad
    # an authorised stream is in progress (the instance is locked) while the refused requests arrive
    u2 = start(client, OK); begin(client, u2, OK)
    r = client.post("/%s/stream-steps" % u2, json={"settings": {}}, headers=OK, buffered=False)
    it = iter(r.response)
    try:
        next(it); next(it)
    except StopIteration:
        pass
    try:
        n4, bad = sweep(app, client, u2, "stream in progress")
    finally:
        r.close()
    return n + n2 + n3 + n4, bad
'''
exec(BODY)


def main():
    hint = load_hint()
    failures = []
    n, bad = run(None)
    if bad:
        body = BODY + '\nn, bad = run(None)\nprint("FAIL: " + bad if bad else "PASS")\nsys.stdout.flush()\nos._exit(1 if bad else 0)\n'
        p = write_replay('C15', 'probe', body)
        failures.append(dict(what=bad, script=p, known=None))
    finish(n, failures)


main()
