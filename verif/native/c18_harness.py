"""C18 replay/search (sequential part): request scripts on the live app; streams can be paused and closed mid-way."""
import random
import time
from verif.native.common import load_hint, write_replay, finish
from verif.native.server_prelude import PRELUDE

BODY = PRELUDE + '''
SET = {"settings": {"sm": {"base": {"constants": {"c": 1.0}}}}}

def run(case):
    """case: list of ops on ONE instance:
       ('steps', n) run-steps | ('step',) run-step | ('stream_all',) | ('stream_open', k) read k chunks and keep it open
       | ('stream_close',) close the open stream | ('stream_finish',) read the open stream to the end | ('bad_steps',) run-steps that fails inside"""
    import tempfile, shutil
    from BPTK_Py.externalstateadapter import FileAdapter
    tmpd = tempfile.mkdtemp(prefix="c18_")
    try:
        FakeClock.now_value = _real_datetime.datetime(2030, 1, 1, 0, 0, 0)
        return _run(case, make_app(fake_clock=True, adapter=FileAdapter(False, tmpd)))
    finally:
        shutil.rmtree(tmpd, ignore_errors=True)

def _run(case, app):
    client = app.test_client()
    u = start(client, timeout={"seconds": 30}); begin(client, u)
    inst = app._instance_manager._instances[u]["instance"]
    open_stream = None
    stream_live = False      # the harness' own view: a stream was opened, not read to its end and not closed
    times = []         # all simulation times returned by successful responses, in order of production
    def clock():
        return inst.session_state["step"]
    def parse_steps(objs):
        out = []
        for o in objs:
            if not isinstance(o, dict):
                continue
            for sm in o.values():
                if not isinstance(sm, dict):
                    continue
                for sc in sm.values():
                    if not isinstance(sc, dict):
                        continue
                    for eq, series in sc.items():
                        if eq == "s" and isinstance(series, dict):
                            out.extend(float(t) for t in series.keys())
        return out
    for n, op in enumerate(case):
        locked_before = inst.is_locked() or stream_live
        c0 = clock()
        if op[0] == "wait":
            # time passes (more than a third of the instance timeout) while the client keeps the instance alive
            FakeClock.advance(11)
            r = client.post("/%s/keep-alive" % u)
            if r.status_code != 200:
                return "op %d %r: keep-alive answered %d" % (n, op, r.status_code)
            continue
        if op[0] == "steps":
            r = client.post("/%s/run-steps" % u, json=dict(SET, numberSteps=op[1]))
            if locked_before:
                if r.status_code != 500:
                    return "op %d %r: accepted (%d) while a multi-step request is in progress" % (n, op, r.status_code)
                if clock() != c0:
                    return "op %d %r: refused request advanced the clock" % (n, op)
                if not inst.is_locked():
                    return "op %d %r: a refused request released the lock held by the request in progress" % (n, op)
            else:
                if r.status_code != 200:
                    return "op %d %r: refused with %d although the instance was free" % (n, op, r.status_code)
                got = parse_steps(json.loads(r.data))
                times.extend(got)
                if inst.is_locked():
                    return "op %d %r: lock not released after run-steps" % (n, op)
        elif op[0] == "bad_steps":
            r = client.post("/%s/run-steps" % u, json={"settings": {"sm": {"nope": {"constants": {"c": 1.0}}}}, "numberSteps": 2})
            if not locked_before and inst.is_locked():
                return "op %d %r: lock not released after a failing run-steps" % (n, op)
            if locked_before and not inst.is_locked():
                return "op %d %r: a refused request released the lock held by the request in progress" % (n, op)
        elif op[0] == "save":
            # another client externalises the whole server state: this must not change any lock or clock
            r = client.get("/save-state")
            if inst.is_locked() != locked_before:
                return "op %d %r: /save-state changed the lock of the instance from %r to %r" % (n, op, locked_before, inst.is_locked())
            if clock() != c0:
                return "op %d %r: /save-state moved the session clock" % (n, op)
        elif op[0] == "bad_step":
            # a step whose settings cannot be applied: the request ends by error; no step is delivered, so the clock must not move
            r = client.post("/%s/run-step" % u, json={"settings": {"sm": {"base": {"constants": None}}}})
            delivered = []
            if r.status_code == 200:
                try:
                    delivered = parse_steps([json.loads(r.data)])
                except Exception:
                    delivered = []
            times.extend(delivered)
            if not locked_before and clock() != c0 + len(delivered):
                return "op %d %r: the request returned %d step(s) (status %d) but the session clock advanced from %r to %r" % (n, op, len(delivered), r.status_code, c0, clock())
            if not locked_before and inst.is_locked():
                return "op %d %r: lock left set after a failing run-step" % (n, op)
        elif op[0] == "bad_steps2":
            r = client.post("/%s/run-steps" % u, json={"settings": {"sm": {"base": {"constants": None}}}, "numberSteps": 2})
            delivered = []
            if r.status_code == 200:
                try:
                    delivered = parse_steps(json.loads(r.data))
                except Exception:
                    delivered = []
            times.extend(delivered)
            if not locked_before and clock() != c0 + len(delivered):
                return "op %d %r: run-steps returned %d step(s) (status %d) but the session clock advanced from %r to %r" % (n, op, len(delivered), r.status_code, c0, clock())
            if not locked_before and inst.is_locked():
                return "op %d %r: lock not released after a failing run-steps" % (n, op)
        elif op[0] == "step":
            r = client.post("/%s/run-step" % u, json=SET)
            if locked_before:
                if r.status_code != 500:
                    return "op %d %r: run-step accepted (%d) while a multi-step request is in progress" % (n, op, r.status_code)
                if clock() != c0:
                    return "op %d %r: refused run-step advanced the clock" % (n, op)
            elif r.status_code == 200:
                try:
                    times.extend(parse_steps([json.loads(r.data)]))
                except Exception:
                    pass
        elif op[0] == "stream_all" and open_stream is None:
            r = client.post("/%s/stream-steps" % u, json=SET)
            if locked_before:
                if r.status_code != 500:
                    return "op %d %r: stream accepted while locked" % (n, op)
            else:
                data = r.get_data(as_text=True)
                try:
                    times.extend(parse_steps(json.loads(data)))
                except Exception:
                    pass
                if inst.is_locked():
                    return "op %d %r: lock not released after a complete stream" % (n, op)
        elif op[0] == "stream_open" and open_stream is None and not locked_before:
            r = client.post("/%s/stream-steps" % u, json=SET, buffered=False)
            it = iter(r.response)
            chunks = []
            stream_live = True
            try:
                for _ in range(op[1]):
                    chunks.append(next(it))
            except StopIteration:
                stream_live = False
            open_stream = (r, it, chunks)
            if not inst.is_locked() and len(chunks) == op[1] and op[1] > 0:
                return "op %d %r: stream in progress but the instance is not locked" % (n, op)
        elif op[0] == "stream_close" and open_stream is not None:
            r, it, chunks = open_stream
            r.close()
            open_stream = None
            stream_live = False
            if inst.is_locked():
                return "op %d %r: lock not released after the client went away" % (n, op)
        elif op[0] == "stream_finish" and open_stream is not None:
            r, it, chunks = open_stream
            for ch in it:
                chunks.append(ch)
            r.close()
            open_stream = None
            stream_live = False
            text = "".join(c.decode() if isinstance(c, bytes) else c for c in chunks)
            try:
                got = parse_steps(json.loads(text))
            except Exception:
                got = None
            if got is not None:
                if any(b - a != 1.0 for a, b in zip(got, got[1:])):
                    return "op %d %r: a stream returned non-consecutive steps %r" % (n, op, got)
                times.extend(got)
            if inst.is_locked():
                return "op %d %r: lock not released after the stream completed" % (n, op)
    s = sorted(times)
    if len(set(times)) != len(times):
        return "a simulation time was produced twice: %r" % (times,)
    return None
'''
exec(BODY)


def gen(rnd):
    ops = []
    for _ in range(rnd.randint(1, 6)):
        ops.append(rnd.choice([('steps', 1), ('steps', 2), ('step',), ('stream_open', 1), ('stream_open', 3), ('stream_close',),
                               ('stream_finish',), ('bad_steps',), ('stream_all',), ('steps', 3), ('step',), ('save',), ('bad_step',), ('bad_steps2',), ('wait',), ('wait',)]))
    return ops


def main():
    hint = load_hint()
    rnd = random.Random(hint.get('seed', 0))
    t_end = time.time() + hint.get('budget_s', 20)
    n = 0
    failures = []
    fixed = [[('stream_open', 3), ('stream_close',), ('steps', 2)], [('stream_open', 2), ('steps', 1), ('step',), ('steps', 2), ('stream_finish',)],
             [('stream_all',), ('step',)], [('bad_steps',), ('steps', 1)], [('stream_open', 2), ('save',), ('step',), ('stream_finish',)],
             [('step',), ('bad_step',), ('step',), ('bad_steps2',), ('steps', 2)],
             [('stream_open', 2), ('wait',), ('step',), ('wait',), ('wait',), ('steps', 1), ('wait',), ('step',), ('steps', 2), ('stream_finish',)],
             [('stream_open', 1), ('step',), ('steps', 2), ('stream_all',), ('stream_finish',), ('step',)]]
    while time.time() < t_end:
        case = fixed[n] if n < len(fixed) else gen(rnd)
        n += 1
        try:
            bad = run(case)
        except Exception as e:
            bad = 'harness raised %s: %s' % (type(e).__name__, e)
        if bad:
            body = BODY + '\ncase = %r\nbad = run(case)\nprint("script:", case)\nprint("FAIL: " + bad if bad else "PASS")\nsys.stdout.flush()\nos._exit(1 if bad else 0)\n' % (case,)
            p = write_replay('C18', 'script', body)
            failures.append(dict(what='%s (script %r)' % (bad, case), script=p, known=None))
            break
    finish(n, failures)


main()
