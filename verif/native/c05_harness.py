"""C05 replay/search: lattice of (start, dt, steps) on the real code: batch run labels, session labels, evaluation routes."""
import random
import time
from verif.native.common import load_hint, write_replay, finish

PRELUDE = '''
from decimal import Decimal
from BPTK_Py import Model, bptk
from BPTK_Py.util.floating_point import timerange
from BPTK_Py import sd_functions as sd

def grid(start, dt, n):
    return [float(Decimal(str(start)) + i * Decimal(str(dt))) for i in range(n + 1)]

def run_labels(case):
    """the label generator alone, on a much larger lattice (cheap): exactly the decimal grid, first to last point"""
    start, dt, n = case
    g = grid(start, dt, n)
    tr = timerange(start, g[-1], dt, exclusive=False)
    if tr != g:
        k = next((i for i, (a, b) in enumerate(zip(tr, g)) if a != b), min(len(tr), len(g)))
        return "timerange(%r,%r,%r) has %d labels, the grid has %d; first difference at index %d: %r vs %r" % (
            start, g[-1], dt, len(tr), len(g), k, tr[k:k + 3], g[k:k + 3])
    tr2 = timerange(start, g[-1], dt)        # exclusive: everything but the stop time
    if tr2 != g[:-1]:
        return "timerange(%r,%r,%r, exclusive) = ...%r, expected ...%r" % (start, g[-1], dt, tr2[-3:], g[:-1][-3:])
    return None

def run(case):
    start, dt, n = case
    g = grid(start, dt, n)
    stop = g[-1]
    tr = timerange(start, stop, dt, exclusive=False)
    if tr != g:
        return "timerange(%r,%r,%r) = %r, expected %r" % (start, stop, dt, tr[:12], g[:12])
    def fresh():
        m = Model(starttime=start, stoptime=stop, dt=dt, name="m")
        tm = m.converter("tm"); tm.equation = sd.time()
        s = m.stock("s"); f = m.flow("f"); s.initial_value = 0.0; f.equation = 1.0; s.equation = f
        return m, tm, s
    # cold caches: the FIRST evaluation of a grid point comes from an arithmetic route, late times first
    m, tm, s = fresh()
    acc = start
    routes = []
    for i, t in enumerate(g):
        routes.append((acc, start + i * dt, t, i))
        acc = acc + dt
    for (a1, a2, t, i) in reversed(routes):
        exp = float(Decimal(str(dt)) * i)
        got = s(a1)
        if abs(got - exp) > 1e-9 * max(1, abs(exp)):
            return "cold cache: stock at %r (route to grid point %r) is %r, expected %r" % (a1, t, got, exp)
    m, tm, s = fresh()
    for (a1, a2, t, i) in routes:
        if tm(a1) != t:
            return "cold cache: time converter at %r (route to grid point %r) reports %r" % (a1, t, tm(a1))
    m, tm, s = fresh()
    for (a1, a2, t, i) in routes:
        if tm(a2) != t:
            return "cold cache: time converter at %r (route to grid point %r) reports %r" % (a2, t, tm(a2))
    m, tm, s = fresh()
    # evaluation at a time reached by any arithmetic route returns the value of the grid point
    acc = start
    for i, t in enumerate(g):
        v_grid = tm(t)
        if v_grid != t:
            return "time converter at grid label %r reports %r" % (t, v_grid)
        if tm(acc) != t or tm(start + i * dt) != t:
            return "evaluation at %r / %r (routes to grid point %r) gives %r / %r" % (acc, start + i * dt, t, tm(acc), tm(start + i * dt))
        exp = float(Decimal(str(dt)) * i)
        if abs(s(acc) - exp) > 1e-9 * max(1, abs(exp)):
            return "stock at route %r to grid point %r is %r, expected %r" % (acc, t, s(acc), exp)
        acc = acc + dt
    # ONE model object evaluated on a coarse grid first and then re-specified to this grid the way the scenario runner does it
    # (SdSimulation.change_runspecs assigns starttime / stoptime / dt directly): the grid in force is the model's current one
    from BPTK_Py.sdsimulation import SdSimulation
    mc = Model(starttime=0.0, stoptime=3.0, dt=1.0, name="mc")
    tmc = mc.converter("tm"); tmc.equation = sd.time()
    sc = mc.stock("s"); fc = mc.flow("f"); sc.initial_value = 0.0; fc.equation = 1.0; sc.equation = fc
    simc = SdSimulation(model=mc, name="coarse-then-fine")
    dfc = simc.start(output=["frame"], equations=["tm", "s"])
    if [float(x) for x in dfc.index] != [0.0, 1.0, 2.0, 3.0]:
        return "coarse run (0,3,1): index %r" % ([float(x) for x in dfc.index],)
    simc.change_runspecs(starttime=start, stoptime=stop, dt=dt)
    mc.reset_cache()
    try:
        dfc = simc.start(output=["frame"], equations=["tm", "s"])
    except RecursionError:
        return "model re-specified from (0,3,1) to (%r,%r,%r): RecursionError (t-dt does not move down the grid)" % (start, stop, dt)
    if [float(x) for x in dfc.index] != g:
        return "model re-specified from (0,3,1) to (%r,%r,%r): index %r, expected %r" % (start, stop, dt, [float(x) for x in dfc.index][:12], g[:12])
    if [float(x) for x in dfc["tm"]] != g:
        return "model re-specified from (0,3,1) to (%r,%r,%r): time converter reports %r at labels %r" % (start, stop, dt, [float(x) for x in dfc["tm"]][:8], g[:8])
    for i, t in enumerate(g):
        exp = float(Decimal(str(dt)) * i)
        if abs(float(dfc["s"][t]) - exp) > 1e-9 * max(1, abs(exp)):
            return "model re-specified from (0,3,1) to (%r,%r,%r): stock at %r is %r, expected %r" % (start, stop, dt, t, float(dfc["s"][t]), exp)
        if tmc(start + i * dt) != t:
            return "model re-specified from (0,3,1) to (%r,%r,%r): evaluation at %r gives %r, expected %r" % (start, stop, dt, start + i * dt, tmc(start + i * dt), t)
    b = bptk()
    try:
        b.register_model(m)
        b.register_scenario_manager({"sm": {"model": m}})
        b.register_scenarios(scenario_manager="sm", scenarios={"base": {}})
        df = b.run_scenarios(scenario_managers=["sm"], scenarios=["base"], equations=["s", "tm"])
        idx = [float(x) for x in df.index]
        if idx != g:
            return "run_scenarios index %r, expected %r" % (idx[:12], g[:12])
        vals = [float(x) for x in df["tm"]]
        if vals != g:
            return "time converter column %r differs from the index %r" % (vals[:12], g[:12])
        # the same model under a scenario that overrides the run specs with a finer / differently scaled grid
        start2, dt2 = start + 0.5, dt / 2 if dt / 2 in (0.5, 0.25, 0.125, 0.05, 0.025, 0.1, 0.15, 0.35, 0.005, 0.0625) else dt
        g2 = [float(Decimal(str(start2)) + i * Decimal(str(dt2))) for i in range(n + 1)]
        b.register_scenarios(scenario_manager="sm", scenarios={"fine": {"runspecs": {"starttime": start2, "stoptime": g2[-1], "dt": dt2}}})
        df2 = b.run_scenarios(scenario_managers=["sm"], scenarios=["fine"], equations=["tm"])
        idx2 = [float(x) for x in df2.index]
        if idx2 and idx2[0] == start2:      # (a start time override that is ignored is C07's business, not C05's)
            if idx2 != g2:
                return "scenario with run specs (%r,%r,%r): index %r, expected %r" % (start2, g2[-1], dt2, idx2[:12], g2[:12])
            if [float(x) for x in df2[df2.columns[0]]] != g2:
                return "scenario with run specs (%r,%r,%r): time converter reports %r at labels %r" % (start2, g2[-1], dt2, [float(x) for x in df2[df2.columns[0]]][:8], g2[:8])
        b.begin_session(scenarios=["base"], scenario_managers=["sm"], equations=["s"], starttime=start, dt=dt)
        for k in range(n + 3):
            res = b.run_step()
            if k <= n:
                # every step reports exactly one entry, labelled with its own grid value
                tt = [float(x) for x in res["sm"]["base"]["s"].keys()]
                if tt != [g[k]]:
                    return "session step %d reports the times %r, expected [%r]" % (k, tt, g[k])
        keys = [float(k) for k in b.session_results().keys()]
        if keys != g:
            return "session labels %r, expected %r" % (keys[:12], g[:12])
    finally:
        b.destroy()
    return None
'''
exec(PRELUDE)


def main():
    hint = load_hint()
    rnd = random.Random(hint.get('seed', 0))
    t_end = time.time() + hint.get('budget_s', 20)
    n = 0
    failures = []
    cases = [(0.0, 0.1, 12), (1.0, 0.1, 10), (0.0, 0.05, 9), (0.0, 0.2, 7), (0.0, 0.25, 6), (0.3, 0.1, 8), (2.0, 0.5, 5), (0.0, 1.0, 4),
             (0.0, 0.3, 7), (1.5, 0.01, 12), (0.0, 0.125, 9), (10.0, 0.1, 11),
             # grids that cross zero, whole-numbered dt on a fractional start, starts with three decimals
             (-0.3, 0.1, 8), (-1.7, 1.0, 4), (-2.0, 0.5, 8), (-1.0, 0.25, 8), (-2.6, 1.0, 5), (0.001, 1.0, 4), (0.7, 2.0, 4), (-3.0, 1.0, 6)]
    label_cases = [(st, dt, k) for st in (0.0, 0.5, 1.0, 10.0, 100.0, 1000.0, 2.5) for dt in (0.1, 0.01, 0.001, 0.0001, 0.00001, 0.25, 0.125, 0.3, 0.7, 0.05, 0.2)
                   for k in (1, 2, 3, 5, 8, 10, 16, 33, 100, 1000)] + [(0.0, 0.001, 16391), (0.0, 0.1, 20000)] + \
                  [(st, dt, k) for st in (-1.7, -2.6, -0.3, -1.0, -0.5, -10.0, 0.001, 0.125, 0.7, 1.2, 0.1, 0.35)
                   for dt in (1.0, 2.0, 5.0, 0.1, 0.25, 0.01, 0.2) for k in (1, 2, 3, 4, 5, 7, 12, 23, 100)]
    for lc in label_cases:
        n += 1
        try:
            bad = run_labels(lc)
        except Exception as e:
            bad = 'raised %s: %s' % (type(e).__name__, e)
        if bad:
            body = PRELUDE + '\ncase = %r\nbad = run_labels(case)\nprint("case (start, dt, steps):", case)\nprint("FAIL: " + bad if bad else "PASS")\nsys.stdout.flush()\nos._exit(1 if bad else 0)\n' % (lc,)
            failures.append(dict(what='%s  (start, dt, steps = %r)' % (bad, lc), script=write_replay('C05', 'labels', body), known=None))
            break
    while time.time() < t_end and not failures:
        if cases:
            case = cases.pop(0)
        else:
            case = (rnd.choice([0.0, 1.0, 0.3, 2.5, 10.0, -0.3, -1.7, -2.0, -0.5, 0.001]), rnd.choice([0.1, 0.2, 0.05, 0.25, 0.5, 0.3, 0.01, 0.125, 1.0, 0.7, 2.0]), rnd.randint(1, 15))
        n += 1
        try:
            bad = run(case)
        except Exception as e:
            bad = 'raised %s: %s' % (type(e).__name__, e)
        if bad:
            body = PRELUDE + '\ncase = %r\nbad = run(case)\nprint("case (start, dt, steps):", case)\nprint("FAIL: " + bad if bad else "PASS")\nsys.stdout.flush()\nos._exit(1 if bad else 0)\n' % (case,)
            p = write_replay('C05', 'grid', body)
            failures.append(dict(what='%s  (start, dt, steps = %r)' % (bad, case), script=p, known=None))
            break
    finish(n, failures)


main()
