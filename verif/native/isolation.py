"""source text of the fork isolation shared by the harnesses that compare two executions (C16, C20)"""
ISOLATED = '''
import os, sys, time

def isolated(fn, *args, **kw):
    """run fn in a forked child and return its (pickled) result: process-wide state a run leaves behind (class
    attributes, module globals) must not leak from the interleaved run into the solo runs it is compared with"""
    import pickle, select, signal
    r, w = os.pipe()
    sys.stdout.flush()
    pid = os.fork()
    if pid == 0:
        try:
            os.close(r)
            try:
                res = ("ok", fn(*args, **kw))
            except BaseException as e:
                res = ("err", "%s: %s" % (type(e).__name__, e))
            with os.fdopen(w, "wb") as f:
                pickle.dump(res, f)
        finally:
            os._exit(0)
    os.close(w)
    data = b""
    deadline = time.time() + 300
    with os.fdopen(r, "rb") as f:
        while True:
            left = deadline - time.time()
            if left <= 0 or not select.select([f], [], [], left)[0]:
                os.kill(pid, signal.SIGKILL)
                os.waitpid(pid, 0)
                raise RuntimeError("isolated run did not finish in 300 s")
            chunk = os.read(f.fileno(), 1 << 16)
            if not chunk:
                break
            data += chunk
    os.waitpid(pid, 0)
    kind, val = pickle.loads(data)
    if kind == "err":
        raise RuntimeError(val)
    return val

'''
