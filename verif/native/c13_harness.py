"""C13 replay/search: random populations on the real DataCollector / HybridRunner.get_df_for_agent against
an independent oracle (plain Python aggregates)."""
import random
import time
from verif.native.common import load_hint, write_replay, finish

PRELUDE = '''
import math
from BPTK_Py import Model, Agent
from BPTK_Py.modeling.dataCollector import DataCollector
from BPTK_Py.scenariorunners.hybrid_runner import HybridRunner

def build(pop):
    m = Model(data_collector=DataCollector())
    agents = []
    for i, (ty, st, props) in enumerate(pop):
        a = Agent(i, m, {k: {"type": t, "value": v} for k, (t, v) in props.items()}, agent_type=ty)
        a.state = st
        agents.append(a)
    return m, agents

def oracle(pop):
    out = {}
    for (ty, st, props) in pop:
        g = out.setdefault(ty, {}).setdefault(st, {"count": 0})
        g["count"] += 1
    for (ty, st, props) in pop:
        g = out[ty][st]
        for k, (t, v) in props.items():
            if t in ("Integer", "Double"):
                vals = [p[2][k][1] for p in pop if p[0] == ty and p[1] == st and k in p[2] and p[2][k][0] in ("Integer", "Double")]
                g[k] = {"total": sum(vals), "max": max(vals), "min": min(vals), "mean": sum(vals) / g["count"]}
    return out

RERUN_LOG = {}

class _Worker(Agent):
    def initialize(self):
        self.agent_type = "worker"
        self.state = "idle"
        self.set_property("load", {"type": "Integer", "value": 0})
    def act(self, time, round_no, step_no):
        k = self.id
        self.load = (k * 3 + int(time) * (k + 1)) % 7 - 3
        if (int(time) + k) % 3 == 0:
            self.state = "busy" if self.state == "idle" else "idle"
        self._acts = getattr(self, "_acts", 0) + 1
        if REAP and self.id == min(a.id for a in self.model.agents) and self._acts in REAP:
            # the first worker removes the youngest one in the middle of a step
            victims = [a.id for a in self.model.agents if a.id != self.id]
            if victims:
                self.model.delete_agent(max(victims))

REAP = []

class _Factory(Model):
    def instantiate_model(self):
        self.register_agent_factory("worker", lambda agent_id, model, properties: _Worker(agent_id, model, properties))
    def end_round(self, time, sim_round, step):
        RERUN_LOG[time] = [(a.state, a.get_property_value("load")) for a in self.agents]
        TWO_LOG[(len(self.agents), time)] = [(a.state, a.get_property_value("load")) for a in self.agents]

TWO_LOG = {}

def run_two(case):
    """two scenarios with different populations, registered on one manager built from a live model object and simulated in ONE
    run_scenarios call: each is reported from its own population"""
    from BPTK_Py import bptk as Bptk
    n_small, n_large, stop = case
    TWO_LOG.clear()
    b = Bptk()
    try:
        b.register_scenario_manager({"smT": {"type": "abm", "model": _Factory(name="factory2", data_collector=DataCollector()), "scenarios": {
            "small": {"runspecs": {"starttime": 1, "stoptime": stop, "dt": 1}, "properties": {}, "agents": [{"name": "worker", "count": n_small}]},
            "large": {"runspecs": {"starttime": 1, "stoptime": stop, "dt": 1}, "properties": {}, "agents": [{"name": "worker", "count": n_large}]}}}})
        df = b.run_scenarios(return_format="df", scenario_managers=["smT"], scenarios=["small", "large"], agents=["worker"], agent_states=["idle", "busy"])
        for sc, n_ in (("small", n_small), ("large", n_large)):
            for (k, t), pop in sorted(TWO_LOG.items()):
                if k != n_:
                    continue
                for st in ("idle", "busy"):
                    want = len([1 for (s_, l_) in pop if s_ == st])
                    col = "smT_%s_worker_%s" % (sc, st)
                    if col not in df.columns:
                        return "run_scenarios over two scenarios returns no column %s (columns %r)" % (col, list(df.columns)[:6])
                    got = float(df[col][t])
                    if not close(got, float(want)):
                        return "two scenarios in one call: %s reports %r agents in state %s at t=%r, its own population (%d workers) has %d" % (sc, got, st, t, n_, want)
        return None
    finally:
        try:
            b.destroy()
        except Exception:
            pass

def run_rerun(case):
    """through bptk.run_scenarios (hybrid runner): the statistics of a run are those of THAT run's population, also when
    the scenario is simulated a second time after its population changed.  case = (first population, extra agents, stop)"""
    from BPTK_Py import bptk as Bptk
    n1, extra, stop = case[:3]
    dt = case[3] if len(case) > 3 else 1
    REAP[:] = list(case[4]) if len(case) > 4 else []     # act counts of the first worker at which it deletes the youngest one
    RERUN_LOG.clear()
    b = Bptk()
    b.register_scenario_manager({"smF": {"type": "abm", "model": _Factory(name="factory"), "scenarios": {
        "base": {"runspecs": {"starttime": 1, "stoptime": stop, "dt": dt}, "properties": {}, "agents": [{"name": "worker", "count": n1}]}}}})
    def check(phase):
        common = dict(scenario_managers=["smF"], scenarios=["base"], agents=["worker"], agent_states=["idle", "busy"])
        df = b.run_scenarios(return_format="df", **common)
        df2 = b.run_scenarios(return_format="df", agent_properties=["load"], agent_property_types=["total"], **common)
        idx = [float(x) for x in df.index]
        if idx != sorted(RERUN_LOG):
            return "%s: run_scenarios reports the times %r, the run simulated the times %r" % (phase, idx[:8], sorted(RERUN_LOG)[:8])
        for t in sorted(RERUN_LOG):
            for st in ("idle", "busy"):
                want = len([1 for (s_, l_) in RERUN_LOG[t] if s_ == st])
                col = "smF_base_worker_" + st
                got = float(df[col][t]) if col in df.columns else 0.0
                if not close(got, float(want)):
                    return "%s: run_scenarios reports %r agents in state %s at t=%r, the population of this run has %d" % (phase, got, st, t, want)
                wt = sum(l_ for (s_, l_) in RERUN_LOG[t] if s_ == st)
                col2 = "smF_base_worker_%s_load_total" % st
                got2 = float(df2[col2][t]) if col2 in df2.columns else 0.0
                if not close(got2, float(wt)):
                    return "%s: run_scenarios reports total load %r in state %s at t=%r, the population of this run sums to %r" % (phase, got2, st, t, wt)
        return None
    try:
        bad = check("first run (%d workers)" % n1)
        if bad:
            return bad
        sc = b.get_scenario("smF", "base")
        b.reset_scenario_cache(scenario_manager="smF", scenario="base")
        sc.create_agents({"name": "worker", "count": extra})
        RERUN_LOG.clear()
        return check("second run after reset_scenario_cache and %d more workers" % extra)
    finally:
        try:
            b.destroy()
        except Exception:
            pass

def close(a, b):
    return a == b or (isinstance(a, (int, float)) and isinstance(b, (int, float)) and math.isclose(a, b, rel_tol=1e-9, abs_tol=1e-9))

def run(case):
    """case = (list of (time, population)) ; population = list of (type, state, {prop: (ptype, value)})"""
    dc = DataCollector()
    for t, pop in case:
        m, agents = build(pop)
        dc.collect_agent_statistics(t, agents)
    stats = dc.statistics()
    for t, pop in case:
        exp = oracle(pop)
        got = stats.get(t)
        if got is None:
            return "no statistics recorded for time %r" % (t,)
        if set(got) != set(exp):
            return "t=%r: types %r expected %r" % (t, sorted(got), sorted(exp))
        for ty in exp:
            if set(got[ty]) != set(exp[ty]):
                return "t=%r type %s: states %r expected %r" % (t, ty, sorted(got[ty]), sorted(exp[ty]))
            for st in exp[ty]:
                g, e = got[ty][st], exp[ty][st]
                if set(g) != set(e):
                    return "t=%r %s/%s: keys %r expected %r" % (t, ty, st, sorted(g), sorted(e))
                if g["count"] != e["count"]:
                    return "t=%r %s/%s: count %r expected %r" % (t, ty, st, g["count"], e["count"])
                for k in e:
                    if k == "count":
                        continue
                    for agg in ("total", "max", "min", "mean"):
                        if not close(g[k].get(agg), e[k][agg]):
                            return "t=%r %s/%s %s.%s = %r expected %r" % (t, ty, st, k, agg, g[k].get(agg), e[k][agg])
    # dataframe assembly for one agent type: zero where a state was empty
    types = sorted({p[0] for _, pop in case for p in pop})
    states = sorted({p[1] for _, pop in case for p in pop})
    for ty in types:
        df = HybridRunner.get_df_for_agent(None, stats, ty, states, [], [])
        for t, pop in case:
            exp = oracle(pop).get(ty)
            if exp is None:
                continue
            for st in states:
                e = exp.get(st, {}).get("count", 0)
                try:
                    g = df.loc[t, st] if st in df.columns else 0
                except KeyError:
                    return "df for %s has no row for t=%r" % (ty, t)
                if not close(float(g), float(e)):
                    return "df[%s] at t=%r state %s = %r expected %r" % (ty, t, st, g, e)
    return None
'''
exec(PRELUDE)

PROPS_BY_TYPE = {'a': [('x', 'Integer'), ('y', 'Double')], 'b': [('y', 'Double'), ('s', 'String')], 'c': []}


def gen(rnd):
    case = []
    for t in range(rnd.randint(1, 3)):
        pop = []
        for _ in range(rnd.randint(0, 6)):
            ty = rnd.choice(list(PROPS_BY_TYPE))
            st = rnd.choice(['active', 'idle', 'z'])
            props = {}
            for (k, pt) in PROPS_BY_TYPE[ty]:
                if pt == 'Integer':
                    props[k] = (pt, rnd.choice([0, 0, -3, 5, 7, -1, 2]))
                elif pt == 'Double':
                    props[k] = (pt, rnd.choice([0.0, -3.5, 2.5, 4.0, -1.0, 0.25]))
                else:
                    props[k] = (pt, 'txt')
            pop.append((ty, st, props))
        case.append((float(t), pop))
    return case


def shrink(case):
    cur = [(t, list(p)) for t, p in case]
    changed = True
    while changed:
        changed = False
        for i in range(len(cur)):
            for j in range(len(cur[i][1])):
                cand = [(t, list(p)) for t, p in cur]
                del cand[i][1][j]
                if run(cand):
                    cur = cand
                    changed = True
                    break
            if changed:
                break
    return cur


def main():
    hint = load_hint()
    rnd = random.Random(hint.get('seed', 0))
    t_end = time.time() + hint.get('budget_s', 20)
    n = 0
    failures = []
    for fn, rc in [('run_rerun', (5, 3, 6)), ('run_rerun', (2, 4, 4)), ('run_two', (2, 5, 5)), ('run_two', (4, 1, 4)),
                   ('run_rerun', (6, 2, 8, 1, (3, 6))), ('run_rerun', (4, 3, 3, 0.125, ())), ('run_rerun', (5, 2, 3, 0.25, (2, 5, 9))),
                   ('run_rerun', (3, 2, 2, 0.002, ())), ('run_rerun', (4, 2, 4, 0.5, (1, 2)))]:
        n += 1
        try:
            bad = globals()[fn](rc)
        except Exception as e:
            bad = None      # harness trouble is never a violation
        if bad:
            body = PRELUDE + '\ncase = %r\nbad = %s(case)\nprint("FAIL: " + bad if bad else "PASS")\nsys.stdout.flush()\nos._exit(1 if bad else 0)\n' % (rc, fn)
            failures.append(dict(what=bad, script=write_replay('C13', fn, body), known=None))
            break
    while time.time() < t_end and not failures:
        case = gen(rnd)
        n += 1
        try:
            bad = run(case)
        except Exception as e:
            bad = 'raised %s: %s' % (type(e).__name__, e)
        if bad:
            try:
                case = shrink(case)
                bad = run(case) or bad
            except Exception:
                pass
            body = PRELUDE + '\ncase = %r\ntry:\n    bad = run(case)\nexcept Exception as e:\n    bad = "raised %%s: %%s" %% (type(e).__name__, e)\nprint("population:", case)\nprint("FAIL: " + bad if bad else "PASS")\nsys.exit(1 if bad else 0)\n' % (case,)
            p = write_replay('C13', 'population', body)
            failures.append(dict(what='%s  (population %r)' % (bad, case), script=p, known=None))
            break
    finish(n, failures)


main()
