"""C11 replay/search: send scripts on the real scheduler (histories with deletions, delays, several senders)
against an exact oracle (fractions; dt = 1/n with n a power of two so that float countdown is exact)."""
import random
import time
from verif.native.common import load_hint, write_replay, finish

PRELUDE = '''
import math
from fractions import Fraction
from BPTK_Py import Model, Agent, Event, DelayedEvent
from BPTK_Py.modeling.simultaneousScheduler import SimultaneousScheduler
from BPTK_Py.modeling.dataCollector import DataCollector

LOG = []

class TA(Agent):
    def initialize(self):
        self.agent_type = "a"
        self.register_event_handler(["active", "other"], "msg", self.on_msg)
        self.register_event_handler(["active", "other"], "note", self.on_msg)
    def on_msg(self, e):
        LOG.append((e.data, self.id, self.model.scheduler.current_round, self.model.scheduler.current_step))
    def act(self, time, sim_round, step):
        # scripted deletions from INSIDE a step: {global step: [(acting agent, agent it deletes)]}
        for (actor, victim) in INSTEP.get((sim_round, step), []):
            if actor == self.id:
                self.model.delete_agent(victim)

class TN(TA):
    """an agent whose initialize() creates another agent: the child is appended to the model before its parent"""
    def initialize(self):
        TA.initialize(self)
        self.model.create_agent("a", None)

INSTEP = {}

def run(case):
    """case: dict(n=steps per round, rounds, agents, ops=[(global_step, op...)])
    ops: ('send', tag, receiver_id, delay_in_steps_or_None) | ('delete', id) | ('create',) | ('state', id, s)"""
    del LOG[:]
    n = case["n"]; dt = 1.0 / n
    m = Model(scheduler=SimultaneousScheduler(), data_collector=DataCollector())
    m.run_specs(0, case["rounds"], dt)
    m.register_agent_factory("a", lambda i, mod, p: TA(i, mod, p))
    m.register_agent_factory("n", lambda i, mod, p: TN(i, mod, p))
    INSTEP.clear()
    for o in case["ops"]:
        if o[1] == "indelete":
            INSTEP.setdefault((o[0] // n, o[0] % n), []).append((o[2], o[3]))
    for _ in range(case["agents"]):
        m.create_agent("a", None)
    live = set(range(case["agents"])); nxt = case["agents"]
    expected = []   # (tag, receiver, global step at which it must be handled)
    total = (case["rounds"] + 1) * n
    for g in range(total):
        for op in [o for o in case["ops"] if o[0] == g]:
            k = op[1]
            if k == "send":
                _, _, tag, rid, d = op[:5]
                name = op[5] if len(op) > 5 else "msg"
                sender = op[6] if len(op) > 6 else 0
                if d is None:
                    ev = Event(name, sender, rid, data=tag); extra = 0
                else:
                    ev = DelayedEvent(name, sender, rid, delay=d * dt, data=tag); extra = int(math.ceil(d))   # ceil((d*dt)/dt)
                m.enqueue_event(ev)
                expected.append([tag, rid, g + extra])
            elif k == "delete":
                m.delete_agent(op[2]); live.discard(op[2])
            elif k == "create":
                m.create_agent("a", None); live.add(nxt); nxt += 1
            elif k == "createn":
                # the parent takes the id nxt, the child it creates in initialize() the id nxt + 1
                m.create_agent("n", None); live.add(nxt); live.add(nxt + 1); nxt += 2
            elif k == "reconf":
                # reconfiguration: all agents are replaced by op[2] new ones (ids are never reused)
                m.configure_agents([{"name": "a", "count": op[2]}])
                live = set(range(nxt, nxt + op[2])); nxt += op[2]
            elif k == "state":
                a = m.agent(op[2])
                if a is not None:
                    a.state = op[3]
        try:
            m.scheduler.run_step(m, g // n, g % n, None, True)
        except Exception as e:
            return "step %d raised %s: %s" % (g, type(e).__name__, e)
        # agents deleted from inside this step (by an agent that was itself still there): whether THEY still handled what was
        # due now is left open, everybody else is held to the property
        gone = set()
        for (actor, victim) in INSTEP.get((g // n, g % n), []):
            if actor in live and actor not in gone and victim in live:
                gone.add(victim)
        live -= gone
        # events due now must have been handled in this very step, by the addressed agent, if it is live
        for x in expected:
            if x[2] == g:
                hits = [l for l in LOG if l[0] == x[0]]
                if x[1] in gone:
                    if hits and (len(hits) != 1 or hits[0][1] != x[1]):
                        return "event %r for agent %d (deleted during step %d) was handled %r" % (x[0], x[1], g, hits)
                elif x[1] in live:
                    if len(hits) != 1:
                        return "event %r for agent %d due in step %d handled %d times: %r" % (x[0], x[1], g, len(hits), hits)
                    if hits[0][1] != x[1] or hits[0][2] * n + hits[0][3] != g:
                        return "event %r for agent %d due in step %d was handled by agent %d in step %d" % (x[0], x[1], g, hits[0][1], hits[0][2] * n + hits[0][3])
                elif hits:
                    return "event %r addressed to deleted id %d was handled by agent %d" % (x[0], x[1], hits[0][1])
        # order: undelayed events sent in the same step to the same agent are handled in the order sent
        same = {}
        for l in LOG:
            same.setdefault((l[1], l[2] * n + l[3]), []).append(l[0])
        for (aid, gs), tags in same.items():
            plain = [t for t in tags if t[0] == "p"]
            if plain != sorted(plain, key=lambda t: int(t[1:])):
                return "agent %d handled same-step events in order %r" % (aid, plain)
    return None
'''
exec(PRELUDE)


def gen(rnd):
    n = rnd.choice([1, 2, 4])
    rounds = rnd.randint(1, 3)
    agents = rnd.randint(1, 4)
    total = (rounds + 1) * n
    ops = []
    tag = 0
    nxt = agents
    for g in range(total):
        for _ in range(rnd.randint(0, 3)):
            r = rnd.random()
            if r < 0.6:
                d = None if rnd.random() < 0.5 else rnd.choice([0, 1, 2, 3, 0.5, 1.5, 2.25])
                ops.append((g, 'send', ('p' if d is None else 'd') + str(tag), rnd.randint(0, nxt), d, rnd.choice(['msg', 'note']), rnd.randint(0, nxt)))
                tag += 1
                if rnd.random() < 0.3:
                    # a burst to one agent with interleaved event names
                    rid = rnd.randint(0, nxt)
                    for nm in rnd.choice([('msg', 'note', 'msg'), ('note', 'msg', 'note', 'msg'), ('msg', 'msg', 'note')]):
                        ops.append((g, 'send', 'p' + str(tag), rid, None, nm))
                        tag += 1
            elif r < 0.66 and nxt < 14:
                k = rnd.randint(1, 3)
                ops.append((g, 'reconf', k))
                nxt += k
            elif r < 0.72:
                ops.append((g, 'delete', rnd.randint(0, nxt)))
            elif r < 0.77:
                # at most one deletion from inside a step (who still acts after being deleted in the same step is left open)
                if not any(o[0] == g and o[1] == 'indelete' for o in ops):
                    a_ = rnd.randint(0, nxt)
                    ops.append((g, 'indelete', a_, rnd.choice([a_, rnd.randint(0, a_), rnd.randint(0, nxt)])))
            elif r < 0.83:
                ops.append((g, 'create'))
                nxt += 1
            elif r < 0.87 and nxt < 14:
                ops.append((g, 'createn'))
                nxt += 2
            else:
                ops.append((g, 'state', rnd.randint(0, nxt), rnd.choice(['active', 'other'])))
    return dict(n=n, rounds=rounds, agents=agents, ops=ops)


def shrink(case):
    cur = dict(case)
    changed = True
    while changed:
        changed = False
        for i in range(len(cur['ops'])):
            cand = dict(cur, ops=cur['ops'][:i] + cur['ops'][i + 1:])
            if run(cand):
                cur = cand
                changed = True
                break
    return cur


def scripted_cases():
    """fixed histories run before the random ones: every agent has an event due in the step in which one agent deletes itself /
    an earlier one / a later one from inside act(); and events addressed to agents that created others in initialize()"""
    out = []
    for n in (1, 2):
        for actor, victim in ((1, 1), (2, 0), (0, 2), (3, 3), (1, 0)):
            ops = [(g, 'send', 'p%d' % (10 * g + r), r, None, 'msg', 0) for g in (0, 1, 2) for r in range(4)]
            ops += [(0, 'send', 'd%d' % (100 + r), r, 1, 'note', 1) for r in range(4)]
            ops.append((1, 'indelete', actor, victim))
            out.append(dict(n=n, rounds=2, agents=4, ops=sorted(ops, key=lambda o: o[0])))
        ops = [(0, 'createn'), (0, 'createn'), (1, 'createn')]
        ops += [(g, 'send', 'p%d' % (10 * g + r), r, None, 'msg', 0) for g in (1, 2) for r in range(2, 8)]
        ops += [(1, 'send', 'd%d' % (100 + r), r, 1.5, 'note', 3) for r in range(2, 8)]
        out.append(dict(n=n, rounds=2, agents=2, ops=sorted(ops, key=lambda o: o[0])))
    return out


SCRIPTED = scripted_cases()


def main():
    hint = load_hint()
    rnd = random.Random(hint.get('seed', 0))
    t_end = time.time() + hint.get('budget_s', 20)
    n = 0
    failures = []
    scripted = list(SCRIPTED)
    while scripted or time.time() < t_end:
        case = scripted.pop(0) if scripted else gen(rnd)
        n += 1
        bad = run(case)
        if bad:
            case = shrink(case)
            bad = run(case) or bad
            body = PRELUDE + '\ncase = %r\nbad = run(case)\nprint("script:", case)\nprint("FAIL: " + bad if bad else "PASS")\nsys.exit(1 if bad else 0)\n' % (case,)
            p = write_replay('C11', 'script', body)
            failures.append(dict(what='%s  (script %r)' % (bad, case), script=p, known=None))
            break
    finish(n, failures)


main()
