"""C10 replay/search (native, bounded): re-runs the cases the symbolic engine reported on the real classes and compares
the VALUES of every result element with numpy; plus a numeric cross-check of a random sample of all cases (validates
the symbolic engine against CPython/numpy)."""
import json
import os
import random
import sys
import time
import numpy as np
from verif.native.common import load_hint, write_replay, finish, ROOT
from verif.native import c10_extract as X

NPB = {'add': np.add, 'sub': np.subtract, 'mul': np.multiply, 'div': np.divide}


def vals(desc):
    if desc['kind'] == 'num':
        return desc['value']
    if desc['kind'] == 'scalar':
        return desc['values']['']
    if desc['kind'] == 'derived':
        return np_apply(desc['op'], [vals(b) for b in desc['bases']])
    a = np.empty(tuple(desc['shape']), dtype=float)
    for idx in np.ndindex(*a.shape):
        a[idx] = desc['values'][','.join(str(i) for i in idx)]
    return a


def np_apply(form, args):
    if form in NPB:
        x, y = args
        if np.shape(x) and np.shape(y) and np.shape(x) != np.shape(y):
            raise ValueError('shapes differ')
        return NPB[form](x, y)
    if form == 'dot':
        return np.dot(args[0], args[1])
    a, b, c = (list(args) + [None] * 3)[:3]
    N = X.NUM
    return {'(a+b)*N': lambda: np_apply('mul', [np_apply('add', [a, b]), N]), 'N*(a-b)': lambda: np_apply('mul', [N, np_apply('sub', [a, b])]),
            '(a*b)+c': lambda: np_apply('add', [np_apply('mul', [a, b]), c]), 'a-(b/c)': lambda: np_apply('sub', [a, np_apply('div', [b, c])]),
            '(a+b).dot(c)': lambda: np.dot(np_apply('add', [a, b]), c), 'a.dot(b)+c': lambda: np_apply('add', [np.dot(a, b), c]),
            'a.dot(b).dot(c)': lambda: np.dot(np.dot(a, b), c), 'a.dot(b+c)': lambda: np.dot(a, np_apply('add', [b, c])),
            'c+a.dot(b)': lambda: np_apply('add', [c, np.dot(a, b)]), 'c*a.dot(b)': lambda: np_apply('mul', [c, np.dot(a, b)]),
            'a.dot(b)-c': lambda: np_apply('sub', [np.dot(a, b), c]), 'a.dot(b)/c': lambda: np_apply('div', [np.dot(a, b), c]),
            'sum': lambda: np.sum(a), 'prod': lambda: np.prod(a), 'mean': lambda: np.mean(a), 'median': lambda: np.median(a),
            'stddev': lambda: np.std(a), 'size': lambda: float(np.shape(a)[0]),
            'rank1': lambda: rank(a, 1), 'rank2': lambda: rank(a, 2), 'rank9': lambda: rank(a, 9), 'rankneg': lambda: rank(a, -1)}[form]()


def rank(a, r):
    s = sorted(np.ravel(a), reverse=True)
    return s[len(s) - 1 if (r < 0 or r > len(s)) else r - 1]


def judge(rec):
    """-> None | text: what the real code computes versus numpy for this case"""
    args = [vals(d) for d in rec['operands']]
    try:
        want = np_apply(rec['form'], args)
        ok = True
    except (ValueError, TypeError):
        ok, want = False, None
    if not rec['accepted']:
        return None
    res = rec['result']
    if any(d.get('names_variant') for d in rec['operands']):
        y = [(k, v[1]) for k, v in res.items() if isinstance(v[1], float)]
        return ('the index names of the operands do not match, yet the equation is accepted and element [%s] evaluates to %r' % (y[0][0], y[0][1])) if y else None
    if not ok:
        y = [(k, v[1]) for k, v in res.items() if isinstance(v[1], float)]
        return ('operand shapes %s do not match, yet the equation is accepted and element [%s] evaluates to %r' % (rec['kinds'], y[0][0], y[0][1])) if y else None
    if list(np.shape(want)) != (rec['dims'] or []):
        return 'result has shape %s, numpy gives %s' % (rec['dims'] or [], list(np.shape(want)))
    for k, (fs, v) in sorted(res.items()):
        idx = tuple(int(i) for i in k.split(',')) if k else ()
        w = float(want[idx] if idx else want)
        if not isinstance(v, float) or abs(v - w) > 1e-9 * max(1.0, abs(w)):
            return 'element [%s] evaluates to %r, numpy gives %r (generated: %s)' % (k, v, w, fs[17:140])
    return None


def kind_str(k):
    if isinstance(k, list) and k and isinstance(k[0], str):
        return k[0] + '(' + ','.join(kind_str(x) for x in k[1:]) + ')'
    return 'x'.join(str(i) for i in k) if isinstance(k, list) else str(k)


def case_id(rec):
    return '%s[%s]%s' % (rec['form'], ';'.join(kind_str(k) for k in rec['kinds']), '.named' if rec['named'] else '')


def main():
    hint = load_hint()
    rnd = random.Random(hint.get('seed', 0))
    t_end = time.time() + hint.get('budget_s', 20)
    failing = []
    try:
        with open(os.path.join(ROOT, 'replays', 'C10.failing.json')) as f:
            failing = json.load(f)
    except (OSError, ValueError):
        pass
    n = 0
    failures = []
    known = hint.get('known', [])
    todo = [(f['form'], tuple(X.kind_from_json(k) for k in f['kinds']), f['named']) for f in failing]
    # a few shapes far beyond the enumeration bound (indices with two and three digits)
    todo += [('add', ((12, 11), (12, 11)), False), ('mul', ((11, 12), (11, 12)), False), ('dot', ((12, 11), (11, 12)), False),
             ('dot', ((12, 11), (11,)), False), ('sub', ((101,), (101,)), False), ('div', ((13, 12), 'S'), False),
             ('sub', ((12, 11), (12, 11)), True), ('dot', ((11,), (11, 12)), False)]
    # numeric cross-check of a random sample of the whole enumeration (bound 4)
    thorough = hint.get('tier') == 'thorough'
    shp = X.shapes(6 if thorough else 4)
    while len(todo) < (30000 if thorough else 4000):
        form = rnd.choice(list(X.BINOPS) + list(X.AGGS) + list(X.COMPOSITE))
        if form in X.BINOPS:
            kinds = (rnd.choice(shp + ['S', 'N']), rnd.choice(shp))
            if rnd.random() < 0.5:
                kinds = kinds[::-1]
        elif form in X.AGGS:
            sh = rnd.choice(X.shapes(3))
            kinds = (rnd.choice([rnd.choice(shp), ('D', rnd.choice(['add', 'sub', 'mul', 'div']), sh, rnd.choice([sh, 'S'])),
                                 rnd.choice([('R',) + r for r in X.reshapes(3)])]),)
        elif form in X.MIXED:
            m_, n_ = rnd.randint(1, 3), rnd.randint(1, 3)
            kinds = rnd.choice([((m_, n_), (n_,), rnd.choice(X.shapes(3))), ((m_,), (m_, n_), rnd.choice(X.shapes(3)))])
        else:
            s = rnd.choice(shp)
            kinds = (s, s, s)
        todo.append((form, kinds, rnd.random() < 0.2 and form != 'dot' and 'dot' not in form))
    seen = set()
    for (form, kinds, named) in todo:
        if time.time() > t_end and n >= len(failing):
            break
        rec = X.run_case(form, kinds, named)
        n += 1
        bad = judge(rec)
        if bad:
            cid = case_id(rec)
            fam = '%s:%s' % (form, 'x'.join((k[0] if isinstance(k[0], str) else 'A%d' % len(k)) if isinstance(k, tuple) else k for k in kinds))
            if fam in seen:
                continue
            seen.add(fam)
            kid = None
            for k in known:
                if any(p in cid for p in k.get('cases', [])):
                    kid = k.get('id')
            body = ('sys.path.insert(0, %r)\nfrom verif.native import c10_extract as X\nfrom verif.native.c10_harness import judge\n'
                    'rec = X.run_case(%r, %r, %r)\nbad = judge(rec)\nprint("case:", %r)\nprint("FAIL: " + bad if bad else "PASS")\nsys.stdout.flush()\nos._exit(1 if bad else 0)\n'
                    % (ROOT, form, kinds, named, cid))
            p = write_replay('C10', ''.join(ch if ch.isalnum() else '_' for ch in cid), body)
            failures.append(dict(what='%s: %s' % (cid, bad), script=p, known=kid))
            if len([f for f in failures if not f['known']]) >= 3:
                break
    finish(n, failures)


if __name__ == '__main__':
    main()
