"""C03 extraction (runs under the repo's interpreter): push XMILE equation sources through the REAL front end
(parsimonious grammar -> SMILEVisitor -> makeExpressionAbsolute -> py.parseExpression) and dump the generated python
text or the error; also dump what the real operator / built-in tables emit for opaque placeholder operands.

usage: c03_extract.py <sources.json> <out.json>"""
import json
import logging
import os
import sys

sys.path.insert(0, os.environ.get('VERIF_REPO', '/repo'))
logging.disable(logging.CRITICAL)
from BPTK_Py.sdcompiler.parsers.smile.grammar import grammar, SMILEVisitor   # noqa
from BPTK_Py.sdcompiler.generator.py import py as gen                         # noqa
from BPTK_Py.sdcompiler.plugins.makeAbsolute import makeExpressionAbsolute    # noqa
from BPTK_Py.sdcompiler.plugins import sanitizeName                            # noqa


class _Warned(logging.Handler):
    def __init__(self):
        super().__init__()
        self.msgs = []

    def emit(self, record):
        self.msgs.append(record.getMessage())


def front_end(src):
    v = SMILEVisitor()
    logging.disable(logging.NOTSET)
    h = _Warned()
    root = logging.getLogger()
    root.addHandler(h)
    old = root.level
    root.setLevel(logging.WARNING)
    try:
        ir = makeExpressionAbsolute('', v.visit(grammar.parse(src)), connects={}, entity=None, dimensions={})
        text = gen.parseExpression(ir)
        return dict(ok=True, text=str(text), warnings=h.msgs[:3])
    except BaseException as e:   # noqa
        return dict(ok=False, error='%s: %s' % (type(e).__name__, str(e)[:120].replace('\n', ' ')))
    finally:
        root.removeHandler(h)
        root.setLevel(old)
        logging.disable(logging.CRITICAL)


def tables():
    """the real emit tables applied to opaque operands (strings pass through parseExpression unchanged)"""
    out = dict(operators={}, builtins=sorted(gen.builtins.keys()))
    for name, fn in gen.operators.items():
        try:
            import inspect
            n = len(inspect.signature(fn).parameters)
            out['operators'][name] = fn(*['<<L>>', '<<R>>'][:n])
        except BaseException as e:   # noqa
            out['operators'][name] = 'ERR %s' % e
    out['builtins_emit'] = {}
    for name, arity in [('abs', 1), ('int', 1), ('sin', 1), ('cos', 1), ('tan', 1), ('round', 1), ('arccos', 1), ('arcsin', 1), ('arctan', 1),
                        ('sqrt', 1), ('log10', 1), ('ln', 1), ('exp', 1), ('percent', 1), ('safediv', 2), ('safediv', 3), ('step', 2), ('rootn', 2),
                        ('min', 2), ('max', 2), ('min', 3), ('max', 3), ('sinwave', 2), ('coswave', 2), ('pulse', 1), ('pulse', 2), ('pulse', 3)]:
        try:
            macro = gen.builtins[name]
            args = ['<<A%d>>' % i for i in range(arity)]
            out['builtins_emit']['%s/%d' % (name, arity)] = str(macro(args if name != 'exp' else args[0]))
        except BaseException as e:   # noqa
            out['builtins_emit']['%s/%d' % (name, arity)] = 'ERR %s: %s' % (type(e).__name__, e)
    try:
        out['if'] = gen.if_(['<<C>>', '<<T>>', '<<E>>'])
    except BaseException as e:       # noqa
        out['if'] = 'ERR %s' % e
    return out


def main():
    with open(sys.argv[1]) as f:
        req = json.load(f)
    res = dict(tables=tables(), results=[front_end(s) for s in req['sources']],
               names={n: sanitizeName(n.lower()) for n in req.get('names', [])})
    with open(sys.argv[2], 'w') as f:
        json.dump(res, f)
    print(json.dumps(dict(sources=len(req['sources']))))
    sys.stdout.flush()
    os._exit(0)


if __name__ == '__main__':
    main()
