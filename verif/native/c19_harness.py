"""C19 / C20 replay/search on the live server with a FileAdapter: save / evict / restore and crash points."""
import random
import sys
import time
from verif.native.common import load_hint, write_replay, finish
from verif.native.server_prelude import PRELUDE
from verif.native.isolation import ISOLATED

BODY = PRELUDE + ISOLATED + '''
import os, shutil, tempfile, copy
from BPTK_Py.externalstateadapter import FileAdapter

def norm(x):
    """JSON-ish normal form: dict keys as strings of floats where they are numbers"""
    if isinstance(x, dict):
        out = {}
        for k, v in x.items():
            try:
                k2 = "%.6f" % float(k)
            except (TypeError, ValueError):
                k2 = str(k)
            out[k2] = norm(v)
        return out
    if isinstance(x, (list, tuple)):
        return [norm(v) for v in x]
    if isinstance(x, float):
        return round(x, 9)
    return x

def step_req(client, u, kind):
    """kind: 'set' (settings with a constant), 'empty' (settings {}), 'none' (no body)"""
    if kind == "none":
        return client.post("/%s/run-step" % u)
    if kind == "empty":
        return client.post("/%s/run-step" % u, json={"settings": {}})
    if kind.startswith("multi"):
        # one request that advances two steps with the same settings object
        return client.post("/%s/run-steps" % u, json={"numberSteps": 2, "settings": {SM[0]: {"base": {"constants": {"c": float(kind[5:])}}}}})
    return client.post("/%s/run-step" % u, json={"settings": {SM[0]: {"base": {"constants": {"c": float(kind)}}}}})

def snapshot(app, client, u):
    ss = app._instance_manager._instances[u]["instance"].session_state
    keep_clock = ss.get("step")
    r1 = client.get("/%s/session-results" % u)
    r2 = client.get("/%s/flat-session-results" % u)
    keep = {k: ss[k] for k in ss if k != "lock"}
    def body(r):
        try:
            return json.loads(r.data) if r.status_code == 200 else {"HTTP status": r.status_code}
        except ValueError:
            return {"HTTP status": r.status_code, "body": "not JSON"}
    return norm(dict(state=keep, results=body(r1), flat=body(r2)))

def run_c19(case):
    """case: dict(compress, kinds=[...per step...], mode='evict'|'server', manager='sm'|'2024', runspec=[start, stop, dt])"""
    d = tempfile.mkdtemp()
    SM[0] = case.get("manager", "sm")
    RUNSPEC[:] = case.get("runspec", [1.0, 10.0, 1.0])
    try:
        app = make_app(fake_clock=True, adapter=FileAdapter(case["compress"], d))
        client = app.test_client()
        u = start(client, timeout={"seconds": 100}); begin(client, u)
        if case.get("resession"):
            # an earlier session of the same instance that was saved at the same clock positions
            for kind in case["resession"]:
                step_req(client, u, kind)
            client.post("/%s/begin-session" % u, json={"scenario_managers": [SM[0]], "scenarios": ["base"], "equations": ["s"]})
        for kind in case["kinds"]:
            r = step_req(client, u, kind)
            if r.status_code != 200:
                return "run-step (%s settings) answered %d with the %scompressing adapter" % (kind, r.status_code, "" if case["compress"] else "non-")
        before = snapshot(app, client, u)
        if case["mode"] == "evict":
            FakeClock.advance(1000)
            client.get("/full-metrics")
            if u in app._instance_manager._instances:
                return "instance not evicted"
            r = client.get("/%s/session-results" % u)         # transparent restore
            if r.status_code != 200:
                return "restore after eviction failed with %d" % r.status_code
            after = snapshot(app, client, u)
        else:
            r = client.get("/save-state")
            if r.status_code != 200:
                return "/save-state answered %d" % r.status_code
            app2 = make_app(fake_clock=True, adapter=FileAdapter(case["compress"], d))
            if u not in app2._instance_manager._instances:
                return "instance missing after a whole-server restore"
            after = snapshot(app2, app2.test_client(), u)
        if before != after:
            for k in before:
                if before[k] != after[k]:
                    sub = [kk for kk in before[k] if isinstance(before[k], dict) and before[k].get(kk) != (after[k].get(kk) if isinstance(after[k], dict) else None)] if isinstance(before[k], dict) else []
                    return "restored session differs in %s %s: before %s after %s" % (k, sub[:4], str({s: before[k][s] for s in sub[:2]})[:200], str({s: after[k].get(s) for s in sub[:2]})[:200])
        return None
    finally:
        shutil.rmtree(d, ignore_errors=True)

def _c20_begin2():
    return {"scenario_managers": ["sm"] + (["sm2"] if TWO[0] else []), "scenarios": ["base"], "equations": ["s"]}

def _c20_prehistory(case, cl, uu):
    # an earlier session of the same instance with other equations, m steps long, saved at the same clock positions
    if case.get("resession"):
        for _ in range(int(case["resession"])):
            step_req(cl, uu, "1.0" if case["compress"] else "none")
        cl.post("/%s/begin-session" % uu, json=_c20_begin2())

def _c20_setup(case):
    SM[0] = "sm"
    TWO[0] = bool(case.get("two"))
    RUNSPEC[:] = case.get("runspec", [1.0, 10.0, 1.0])

def _c20_reference(case, d_ref):
    """the uninterrupted session: every request answered by one server process"""
    _c20_setup(case)
    ref = make_app(fake_clock=True, adapter=FileAdapter(case["compress"], d_ref))
    rc = ref.test_client()
    ur = start(rc, timeout={"hours": 5}); begin(rc, ur)
    _c20_prehistory(case, rc, ur)
    ref_out = []
    for kind in case["kinds"]:
        r = step_req(rc, ur, kind); ref_out.append((r.status_code, norm(json.loads(r.data))))
    return ref_out

def _c20_before_crash(case, d):
    """the server process that is lost after request crash_at; only the external state in d survives it"""
    _c20_setup(case)
    app = make_app(fake_clock=True, adapter=FileAdapter(case["compress"], d))
    c = app.test_client()
    u = start(c, timeout={"hours": 5}); begin(c, u)
    others = []
    for _ in range(case.get("neighbours", 0)):
        o = start(c, timeout={"hours": 5}); begin(c, o); step_req(c, o, "none" if not case["compress"] else "1.0"); others.append(o)
    _c20_prehistory(case, c, u)
    for kind in case["kinds"][:case["crash_at"]]:
        step_req(c, u, kind)
    return u, others

def _c20_after_crash(case, d, u, others, ref_out):
    """a new server process on the same external state"""
    _c20_setup(case)
    k = case["crash_at"]
    try:
        app2 = make_app(fake_clock=True, adapter=FileAdapter(case["compress"], d))
    except Exception as e:
        return "a new server on the same external state does not start: %s: %s" % (type(e).__name__, e)
    c2 = app2.test_client()
    for o in others:
        r = c2.get("/%s/session-results" % o)
        if r.status_code != 200:
            return "a neighbouring instance was not restored (%d)" % r.status_code
    if case.get("torn") is not None:
        return None                                # a damaged file may cost that one instance
    if k == 0:
        return None                                # nothing had been externalised yet
    out = []
    for kind in case["kinds"][k:]:
        r = step_req(c2, u, kind)
        try:
            out.append((r.status_code, norm(json.loads(r.data))))
        except Exception:
            out.append((r.status_code, None))
    if out != ref_out[k:]:
        for i, (a, b) in enumerate(zip(out, ref_out[k:])):
            if a != b:
                return "after a crash behind request %d, request %d answers %s, an uninterrupted session answers %s" % (k, k + i + 1, str(a)[:160], str(b)[:160])
    return None

def run_c20(case):
    """case: dict(compress, kinds=[...], crash_at=k, torn=None|fraction, neighbours=0|1).  The three server processes of a
    case (reference, before the crash, after the crash) are forked children of the harness: whatever the first keeps in
    process memory (module globals, class attributes) is really gone when the third one starts."""
    d = tempfile.mkdtemp()
    d_ref = tempfile.mkdtemp()
    try:
        ref_out = isolated(_c20_reference, case, d_ref)
        u, others = isolated(_c20_before_crash, case, d)
        path = os.path.join(d, u + ".json")
        if case.get("torn") is not None and os.path.exists(path):
            data = open(path).read()
            open(path, "w").write(data[: int(len(data) * case["torn"])])
        return isolated(_c20_after_crash, case, d, u, others, ref_out)
    finally:
        shutil.rmtree(d, ignore_errors=True); shutil.rmtree(d_ref, ignore_errors=True)
'''
exec(BODY)

PROP = 'C19'


def core(kinds, compress):
    """inside the positive core of the compressed format: every step carries settings of one non-empty structure"""
    return (not compress) or all(k not in ('none', 'empty') for k in kinds)


def gen19(rnd):
    compress = rnd.random() < 0.5
    n = rnd.choice([1, 2, 3, 4, 5, 10, 10])
    if compress:
        kinds = [rnd.choice(['1.0', '2.0', '3.0', 'multi2.0']) for _ in range(n)]
    else:
        kinds = [rnd.choice(['1.0', '2.0', 'none', 'empty', 'multi1.0', 'multi3.0']) for _ in range(n)]
    kinds = kinds[:4] if any(k.startswith('multi') for k in kinds) else kinds
    case = dict(compress=compress, kinds=kinds, mode=rnd.choice(['evict', 'server']))
    if rnd.random() < 0.25:
        case['manager'] = '2024'          # a scenario manager whose name looks like a number
    if not compress and rnd.random() < 0.3:
        # (the compressed format is known to be lossy for start times / dt other than 1: uncompressed mode only)
        case['runspec'] = rnd.choice([[0.5, 9.5, 1.0], [0.25, 4.75, 0.5], [0.0, 4.0, 0.25]])
        case['kinds'] = case['kinds'][:6]
    if rnd.random() < 0.35 and len(kinds) <= 5:
        # the same instance had an earlier session with the same number of steps / requests (other settings, other equations)
        case['resession'] = [('multi7.0' if k.startswith('multi') else '7.0') for k in kinds]
    return case


def gen20(rnd):
    compress = rnd.random() < 0.5
    n = rnd.randint(1, 5)
    c0 = rnd.choice(['1.0', '2.0'])
    # (settings that change in mid-session are a known finding: they are not replayed after a restore)
    kinds = [c0 for _ in range(n)] if compress else [rnd.choice([c0, c0]) for _ in range(n)]
    case = dict(compress=compress, kinds=kinds, crash_at=rnd.randint(0, n), torn=rnd.choice([None, None, 0.0, 0.3, 0.9]),
                neighbours=rnd.choice([0, 1]), resession=rnd.choice([0, 0, 1, 2, 6, n]))
    if not compress and rnd.random() < 0.35:
        # other run specs (uncompressed mode only: the compressed format is known to renumber steps)
        case['runspec'] = rnd.choice([[0.0, 2.0, 0.125], [0.5, 9.5, 1.0], [0.25, 4.75, 0.5], [1.0, 1.06, 0.005]])
    if rnd.random() < 0.3:
        case['two'] = True        # the session spans two scenario managers
    return case


SCRIPTED20 = [dict(compress=False, kinds=['1.0'] * 4, crash_at=2, torn=None, neighbours=0, resession=0, two=True),
              dict(compress=True, kinds=['2.0'] * 4, crash_at=1, torn=None, neighbours=1, resession=0, two=True),
              dict(compress=False, kinds=['1.0'] * 5, crash_at=3, torn=None, neighbours=0, resession=2, two=True)] + \
             [dict(compress=False, kinds=['1.0'] * 4, crash_at=k, torn=None, neighbours=0, resession=0, runspec=rs)
              for rs in ([0.25, 4.75, 0.5], [0.5, 9.5, 1.0], [0.0, 2.0, 0.125], [1.0, 1.06, 0.005]) for k in (1, 3)] + \
             [dict(compress=False, kinds=['2.0'] * 3, crash_at=2, torn=None, neighbours=1, resession=1),
              dict(compress=True, kinds=['1.0'] * 3, crash_at=2, torn=None, neighbours=0, resession=2)]


def known_probes(prop):
    out = []
    if prop == 'C19':
        for kid, case, why in (
                ('C19-none-settings', dict(compress=True, kinds=['none'], mode='server'), 'a step taken with no settings cannot be saved by the compressing adapter'),
                ('C19-empty-settings', dict(compress=True, kinds=['empty', '2.0'], mode='server'), 'a step with empty settings is dropped by the compressed format and later steps shift'),):
            try:
                bad = run_c19(case)
            except Exception as e:
                bad = 'raised %s: %s' % (type(e).__name__, e)
            if bad:
                body = BODY + '\ncase = %r\nbad = run_c19(case)\nprint("FAIL: " + bad if bad else "PASS")\nsys.stdout.flush()\nos._exit(1 if bad else 0)\n' % (case,)
                out.append(dict(what='%s: %s' % (why, bad), script=write_replay('C19', kid, body), known=kid))
    else:
        case = dict(compress=False, kinds=['1.0', '5.0', '5.0', '5.0'], crash_at=3, torn=None, neighbours=0)
        try:
            bad = run_c20(case)
        except Exception as e:
            bad = 'raised %s: %s' % (type(e).__name__, e)
        if bad:
            body = BODY + '\ncase = %r\nbad = run_c20(case)\nprint("FAIL: " + bad if bad else "PASS")\nsys.stdout.flush()\nos._exit(1 if bad else 0)\n' % (case,)
            out.append(dict(what='settings applied in an earlier step are not replayed after a restore: %s' % bad,
                            script=write_replay('C20', 'C20-settings-not-replayed', body), known='C20-settings-not-replayed'))
    return out


def main():
    hint = load_hint()
    prop = 'C20' if 'C20' in (hint.get('prop') or '') or any('C20' in (k.get('id') or '') or k.get('property') == 'C20' for k in hint.get('known', [])) or 'c20' in ' '.join(sys.argv).lower() else 'C19'
    if len(sys.argv) > 2:
        prop = sys.argv[2]
    rnd = random.Random(hint.get('seed', 0))
    t_end = time.time() + hint.get('budget_s', 20)
    n = 0
    failures = known_probes(prop)
    while time.time() < t_end:
        n += 1
        if prop == 'C19':
            case = gen19(rnd)
            fn, tag = 'run_c19', 'history'
        else:
            case = SCRIPTED20.pop(0) if SCRIPTED20 else gen20(rnd)
            fn, tag = 'run_c20', 'crash'
        try:
            bad = globals()[fn](case)
        except Exception as e:
            bad = 'harness raised %s: %s' % (type(e).__name__, e)
        if bad:
            body = BODY + '\ncase = %r\nbad = %s(case)\nprint("case:", case)\nprint("FAIL: " + bad if bad else "PASS")\nsys.stdout.flush()\nos._exit(1 if bad else 0)\n' % (case, fn)
            failures.append(dict(what='%s  (case %r)' % (bad, case), script=write_replay(prop, tag, body), known=None))
            break
    finish(n, failures)


main()
