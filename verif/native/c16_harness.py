"""C16 replay/search: k instances on one live app, request scripts per instance, random interleavings at request
granularity; every instance's responses are compared with a SOLO replay of its own requests on a fresh app (the
requests to the other instances never made).  Clock events (advance + metrics sweep) belong to the environment and are
kept in every solo replay.  Bounded search, never counted as proof."""
import random
import time
from verif.native.common import load_hint, write_replay, finish
from verif.native.server_prelude import PRELUDE
from verif.native.isolation import ISOLATED

BODY = PRELUDE + ISOLATED + '''
import os, sys, time, re, tempfile, shutil

def make_bptk2():
    m = Model(starttime=1.0, stoptime=12.0, dt=1.0, name="m")
    s = m.stock("s"); f = m.flow("f"); c = m.constant("c"); g = m.constant("g")
    s.initial_value = 0.0; c.equation = 1.0; g.equation = 2.0; f.equation = c * g; s.equation = f
    b = bptk()
    b.register_model(m)
    b.register_scenario_manager({"sm": {"model": m}})
    # "plain" is registered WITHOUT constants / points (the default a user gets from register_model)
    b.register_scenarios(scenario_manager="sm", scenarios={"base": {"constants": {"c": 1.0}}, "alt": {"constants": {"c": 3.0, "g": 0.5}}, "plain": {}})
    return b

def norm(data, ids):
    s = data.decode() if isinstance(data, bytes) else str(data)
    for u in ids:
        s = s.replace(u, "ID")
    # the order of the keys of a JSON object carries no meaning (the per-equation worker threads fill the frame in any order)
    try:
        if s.lstrip().startswith(("{", "[")):
            return json.dumps(json.loads(s), sort_keys=True)
    except ValueError:
        pass
    return s

def settings_of(v):
    if v is None:
        return None
    scen, const, val = v
    return {"sm": {scen: {"constants": {const: val}}}}

def perform(client, u, op):
    k = op[0]
    if k == "begin":
        body = {"scenario_managers": ["sm"], "scenarios": list(op[1]), "equations": list(op[2])}
        if op[3] is not None:
            body["settings"] = settings_of(op[3])
        return client.post("/%s/begin-session" % u, json=body)
    if k == "step":
        s = settings_of(op[1])
        return client.post("/%s/run-step" % u, json=({"settings": s} if s is not None else None))
    if k == "steps":
        body = {"numberSteps": op[1]}
        if op[2] is not None:
            body["settings"] = settings_of(op[2])
        return client.post("/%s/run-steps" % u, json=body)
    if k == "stream":
        return client.post("/%s/stream-steps" % u, json={"settings": settings_of(op[1])} if op[1] is not None else None)
    if k == "results":
        return client.get("/%s/%s" % (u, "flat-session-results" if op[1] else "session-results"))
    if k == "end":
        return client.post("/%s/end-session" % u)
    if k == "keep":
        return client.post("/%s/keep-alive" % u)
    if k == "stop":
        return client.post("/%s/stop-instance" % u)
    raise ValueError(k)

def execute(cfg, timeouts, schedule, only=None):
    """schedule: list of (instance index | None, op); only: run the requests of that instance alone.
    -> per instance the list of (position in the schedule, status, normalised body)"""
    d = tempfile.mkdtemp(prefix="c16_") if cfg["adapter"] else None
    try:
        adapter = None
        if d:
            from BPTK_Py.externalstateadapter import FileAdapter
            adapter = FileAdapter(cfg["compress"], d)
        FakeClock.now_value = _real_datetime.datetime(2030, 1, 1, 0, 0, 0)
        srvmod.datetime = FakeClock
        app = BptkServer(__name__, make_bptk2, external_state_adapter=adapter)
        client = app.test_client()
        idx = list(range(len(timeouts))) if only is None else [only]
        ids = {}
        if cfg["batch"]:
            # one request creates all instances of this run (they share the timeout of instance 0 ... so only when equal)
            r = client.post("/start-instances", json={"instances": len(idx), "timeout": timeouts[idx[0]]})
            us = json.loads(r.data)["instance_uuids"]
            for i, u in zip(idx, us):
                ids[i] = u
        else:
            for i in idx:
                r = client.post("/start-instance", json={"timeout": timeouts[i]})
                ids[i] = json.loads(r.data)["instance_uuid"]
        out = {i: [] for i in idx}
        for pos, (i, op) in enumerate(schedule):
            if i is None:
                # environment: the clock moves and somebody looks at the metrics (sweeps everything that has expired)
                FakeClock.advance(op[1])
                if op[0] == "tick":
                    continue          # the clock moves, nobody looks
                client.get("/full-metrics")
                continue
            if i not in ids:
                continue
            r = perform(client, ids[i], op)
            out[i].append((pos, r.status_code, norm(r.data, ids.values())))
        return out
    finally:
        if d:
            shutil.rmtree(d, ignore_errors=True)

def run(case):
    cfg, timeouts, schedule = case
    joint = isolated(execute, cfg, timeouts, schedule)
    for i in range(len(timeouts)):
        solo = isolated(execute, cfg, timeouts, schedule, only=i)[i]
        if solo != joint[i]:
            for a, b in zip(joint[i], solo):
                if a != b:
                    return ("instance %d, request #%d %r: with the other instances' requests interleaved it answers %d %s, alone it answers %d %s"
                            % (i, a[0], schedule[a[0]][1], a[1], a[2][:300], b[1], b[2][:300]))
            return "instance %d: %d responses interleaved, %d alone" % (i, len(joint[i]), len(solo))
    return None
'''
exec(BODY)

SETTINGS = [None, None, ('base', 'c', 5.0), ('base', 'c', 0.25), ('base', 'g', 7.0), ('alt', 'c', 11.0), ('alt', 'g', 4.0), ('plain', 'c', 9.0), ('plain', 'g', 6.0)]


def gen_script(rnd):
    """request script of one instance"""
    ops = [('begin', rnd.choice([('base',), ('base', 'alt'), ('alt',), ('plain',), ('plain', 'base'), ('plain',)]), rnd.choice([('s',), ('s', 'c'), ('s', 'f', 'g')]),
            rnd.choice(SETTINGS))]
    for _ in range(rnd.randint(2, 7)):
        r = rnd.random()
        if r < 0.45:
            ops.append(('step', rnd.choice(SETTINGS)))
        elif r < 0.6:
            ops.append(('steps', rnd.randint(1, 3), rnd.choice(SETTINGS)))
        elif r < 0.68:
            ops.append(('stream', rnd.choice(SETTINGS)))
        elif r < 0.8:
            ops.append(('results', rnd.random() < 0.4))
        elif r < 0.86:
            ops.append(('keep',))
        elif r < 0.92:
            ops.append(('end',))
            ops.append(ops[0][:3] + (rnd.choice(SETTINGS),))
        else:
            ops.append(('stop',))
    if rnd.random() < 0.7:
        ops.append(('results', False))
    return ops


def gen(rnd):
    k = rnd.choice([2, 2, 2, 3])
    cfg = dict(adapter=rnd.random() < 0.5, compress=False, batch=rnd.random() < 0.35)
    if cfg['batch']:
        t = rnd.choice([{'minutes': 5}, {'seconds': 30}])
        timeouts = [t] * k
    else:
        timeouts = [rnd.choice([{'minutes': 5}, {'seconds': 30}, {'hours': 1}, {'seconds': 2}]) for _ in range(k)]
    scripts = [gen_script(rnd) for _ in range(k)]
    # an interleaving at request granularity; with some probability one long run of a single instance in the middle
    pos = [0] * k
    schedule = []
    while any(pos[i] < len(scripts[i]) for i in range(k)):
        live = [i for i in range(k) if pos[i] < len(scripts[i])]
        i = rnd.choice(live)
        burst = 1 if rnd.random() < 0.7 else rnd.randint(2, 4)
        for _ in range(burst):
            if pos[i] < len(scripts[i]):
                schedule.append((i, scripts[i][pos[i]]))
                pos[i] += 1
        if rnd.random() < (0.22 if cfg['adapter'] else 0.1):
            schedule.append((None, ('advance', rnd.choice([1, 3, 31, 301, 4000]) if not cfg['adapter'] else rnd.choice([31, 301, 4000, 400000]))))
    if cfg['adapter'] and rnd.random() < 0.6:
        # everything times out at the end and is restored from the external state on the next request
        schedule.append((None, ('advance', 400000)))
        for i in range(k):
            schedule.append((i, ('results', False)))
            schedule.append((i, ('step', None)))
    return (cfg, timeouts, schedule)


def scripted_cases():
    """fixed histories run before the random ones: instance 1 begins a session over a scenario, instance 0 begins a session
    over the scenario of the same name WITH session settings, then both step -- in every order of the two begin requests,
    for a scenario registered with and without constants"""
    out = []
    for scen in ('plain', 'base', 'alt'):
        for setting in ((scen, 'c', 9.0), (scen, 'g', 6.0)):
            for order in ((1, 0), (0, 1)):
                for adapter in (False, True):
                    begin = {0: ('begin', (scen,), ('s', 'f', 'g'), setting), 1: ('begin', (scen,), ('s', 'f', 'g'), None)}
                    schedule = [(order[0], begin[order[0]]), (order[1], begin[order[1]])]
                    for _ in range(3):
                        schedule += [(1, ('step', None)), (0, ('step', None))]
                    schedule += [(1, ('results', False)), (0, ('results', False)), (1, ('end',)), (1, begin[1]), (1, ('step', None)),
                                 (1, ('results', False))]
                    out.append((dict(adapter=adapter, compress=False, batch=False), [{'minutes': 5}, {'minutes': 5}], schedule))
    # instance 0 (timeout 2 s) is used continuously for longer than its timeout, every gap being shorter than the timeout; then
    # instance 1 is touched; instance 0 goes on.  The clock moves without anybody sweeping in between.
    for adapter in (False, True):
        b0 = ('begin', ('base',), ('s', 'f', 'g'), None)
        schedule = [(1, b0), (0, b0)]
        for _ in range(4):
            schedule += [(0, ('step', None)), (None, ('tick', 1))]
        schedule += [(1, ('keep',)), (0, ('step', None)), (0, ('results', False)), (1, ('step', None)), (0, ('step', ('base', 'c', 5.0))), (1, ('step', None)),
                     (0, ('results', True)), (1, ('results', False))]
        out.append((dict(adapter=adapter, compress=False, batch=False), [{'seconds': 2}, {'minutes': 5}], schedule))
    return out


SCRIPTED = scripted_cases()


def main():
    hint = load_hint()
    rnd = random.Random(hint.get('seed', 0))
    t_end = time.time() + hint.get('budget_s', 20)
    n = 0
    failures = []
    scripted = list(SCRIPTED)
    while scripted or time.time() < t_end:
        case = scripted.pop(0) if scripted else gen(rnd)
        n += 1
        try:
            bad = run(case)
        except Exception as e:
            bad = 'harness raised %s: %s' % (type(e).__name__, e)
        if bad:
            body = BODY + ('\ncase = %r\nbad = run(case)\nprint("configuration:", case[0], "timeouts:", case[1])\n'
                           'for p, s in enumerate(case[2]):\n    print(p, s)\nprint("FAIL: " + bad if bad else "PASS")\nsys.stdout.flush()\nos._exit(1 if bad else 0)\n' % (case,))
            p = write_replay('C16', 'interleaving', body)
            failures.append(dict(what=bad, script=p, known=None))
            break
    finish(n, failures)


main()
