"""helpers shared by the native replay/search harnesses (run under /venv/bin/python against /repo's tree)"""
import json
import os
import sys
import time

ROOT = os.path.dirname(os.path.dirname(os.path.dirname(os.path.abspath(__file__))))


def load_hint():
    if len(sys.argv) > 1 and os.path.exists(sys.argv[1]):
        with open(sys.argv[1]) as f:
            return json.load(f)
    return dict(functions=[], models=[], seed=0, budget_s=20, known=[])


def write_replay(prop, tag, body):
    """self-contained script: exits 1 and prints what failed when the defect is present"""
    d = os.path.join(ROOT, 'replays')
    os.makedirs(d, exist_ok=True)
    p = os.path.join(d, '%s.%s.replay.py' % (prop, tag))
    with open(p, 'w') as f:
        f.write('import os, sys\nsys.path.insert(0, os.environ.get("VERIF_REPO", "/repo"))\n' + body)
    return p


def finish(evaluations, failures):
    print(json.dumps(dict(evaluations=evaluations, failures=failures)))
    sys.stdout.flush()
    os._exit(0)
