"""setup_cmd: engine self-test on built-in toy functions with known verdicts (incl. deliberately broken bodies)."""
import os
import sys

ROOT = os.path.dirname(os.path.dirname(os.path.abspath(__file__)))
sys.path.insert(0, ROOT)


def main():
    import z3
    from verif.pyvc.spec import (declare_class, contract, CONTRACTS, INT, STR, TList, TRef, NULL, FA, RecFun, RefS, StrS,
                                 l_at)
    from verif.pyvc.stmts import verify_function
    from verif.pyvc.solve import discharge
    from verif.pyvc import binder
    And, Not, Implies = z3.And, z3.Not, z3.Implies
    declare_class('ToyAgent', id=INT, state=STR, agent_type=STR)
    declare_class('ToyModel', agents=TList(TRef('ToyAgent')), n=INT)
    f = 'verif/toys/toy1.py'

    def nonnull(m):
        return FA('idx', lambda i: Implies(And(0 <= i, i < m.agents.len), m.agents[i] != NULL))

    def find_post(C):
        m, r = C.self, C.result
        return And(Implies(r.is_null, FA('idx', lambda i: Implies(And(0 <= i, i < m.agents.len), m.agents[i].id != C.agent_id))),
                   Implies(Not(r.is_null), And(r.id == C.agent_id, m.agents.contains(r))))

    def find_inv(C):
        return FA('idx', lambda i: Implies(And(0 <= i, i < C.k), C.self.agents[i].id != C.agent_id))
    for q in ('Model.find', 'Model.find_bad'):
        contract('Toy' + q, file=f, src_name=q, params=dict(self=TRef('ToyModel'), agent_id=INT), returns=TRef('ToyAgent'),
                 requires=lambda C: nonnull(C.self), ensures=find_post, loops={0: find_inv})
    cnt = RecFun('toy_cnt', [z3.ArraySort(z3.IntSort(), RefS), z3.ArraySort(RefS, StrS), StrS], z3.IntSort(),
                 base=lambda at, st, s: z3.IntVal(0), step=lambda at, st, s, k, prev: prev + z3.If(st[at[k]] == s, 1, 0))
    contract('ToyModel.count_state', file=f, src_name='Model.count_state', params=dict(self=TRef('ToyModel'), state=STR), returns=INT,
             requires=lambda C: nonnull(C.self),
             ensures=lambda C: C.result == cnt(l_at(C.self.agents.t, C.self.agents.z), C.st.heap_arr_cf('ToyAgent', 'state'), C.state, C.self.agents.len),
             loops={0: lambda C: C.v.c == cnt(l_at(C.self.agents.t, C.self.agents.z), C.st.heap_arr_cf('ToyAgent', 'state'), C.state, C.k)})
    contract('ToyModel.bad_index', file=f, src_name='Model.bad_index', params=dict(self=TRef('ToyModel'), i=INT), returns=INT,
             requires=lambda C: nonnull(C.self))
    # a contradictory precondition: everything would verify vacuously -- the canary must fire
    contract('ToyModel.vacuous', file=f, src_name='Model.bad_index', params=dict(self=TRef('ToyModel'), i=INT), returns=INT,
             requires=lambda C: And(nonnull(C.self), C.i > 0, C.i < 0))
    expect = {'ToyModel.find': set(), 'ToyModel.find_bad': {'post'}, 'ToyModel.count_state': set(),
              'ToyModel.bad_index': {'noexc.IndexError'}, 'ToyModel.vacuous': {'CANARY'}}
    ok = True
    n = 0
    for q, bad_expected in expect.items():
        c = CONTRACTS[q]
        fn = binder.find_function(c.file, c.src_name, repo=ROOT)
        ex = verify_function(c, fn, 'T/' + q)
        bad = set()
        for ob in ex.obligations:
            n += 1
            v = discharge(ob, 20)
            if ob.meta.get('canary'):
                if v.status == 'discharged':
                    bad.add('CANARY')
                continue
            if v.status != 'discharged':
                bad.add(ob.name.split('/')[-1].split('@')[0].split('#')[0].split('.c')[0])
        if bad != bad_expected:
            ok = False
            print('SELFTEST FAIL %s: non-discharged %s, expected %s' % (q, sorted(bad), sorted(bad_expected)))
    for rf in list(RecFun.registry.values()):
        from verif.pyvc.formula import ground
        for (nm, h, g) in rf.lemma_obligations():
            s = z3.Solver()
            s.set('timeout', 20000)
            s.add(*ground(h, g))
            n += 1
            if s.check() != z3.unsat:
                ok = False
                print('SELFTEST FAIL lemma', nm)
    print('selftest: %d obligations, %s' % (n, 'ok' if ok else 'FAILED'))
    return 0 if ok else 1


if __name__ == '__main__':
    sys.exit(main())
