class Agent:
    def __init__(self):
        self.id = 0
        self.state = "active"
        self.agent_type = "a"

class Model:
    def __init__(self):
        self.agents = []
        self.n = 0

    def find(self, agent_id):
        for agent in self.agents:
            if agent.id == agent_id:
                return agent
        return None

    def find_bad(self, agent_id):
        for agent in self.agents:
            if agent.id >= agent_id:
                return agent
        return None

    def count_state(self, state):
        c = 0
        for a in self.agents:
            if a.state == state:
                c += 1
        return c

    def bad_index(self, i):
        return self.agents[i].id
