"""XMILE expression trees for C03: generator, printer (XMILE source in several spellings) and the REFERENCE semantics
(XMILE v1.0, section 3.3: precedence  ^  >  unary - , NOT  >  * / MOD  >  + -  >  < <= > >=  >  = <>  >  AND  >  OR;
all binary operators left-to-right except ^ which is right-to-left).  Pure stdlib: imported by the z3 engine
(python3-vt) and by the native harness (/venv).

tree ::= ['num', float] | ['var', name] | ['bin', op, l, r]   op in + - * / ^ MOD
       | ['neg', x] | ['cmp', op, l, r]   op in < <= > >= = <>
       | ['and', l, r] | ['or', l, r] | ['not', x] | ['if', c, t, e] | ['call', NAME, [args]] | ['time'] | ['dt'] | ['start']
"""
import math
import random

BIN = ['+', '-', '*', '/', '^', 'MOD']
CMP = ['<', '<=', '>', '>=', '=', '<>']
PREC = {'or': 1, 'and': 2, '=': 3, '<>': 3, '<': 4, '<=': 4, '>': 4, '>=': 4, '+': 5, '-': 5, '*': 6, '/': 6, 'MOD': 6, 'neg': 7, 'not': 7, '^': 8}
VARS = ['alpha', 'beta', 'gamma', 'delta']
CALLS = {'MIN': 2, 'MAX': 2, 'ABS': 1, 'SQRT': 1, 'EXP': 1, 'LN': 1, 'LOG10': 1, 'SIN': 1, 'COS': 1, 'TAN': 1, 'INT': 1, 'ROUND': 1, 'SAFEDIV': 2}
# python implementation each built-in must denote (name of the library function, or a formula)
PYCALL = {'ABS': 'abs', 'EXP': 'np.exp', 'LN': 'np.log', 'LOG10': 'np.log10', 'SIN': 'math.sin', 'COS': 'math.cos', 'TAN': 'math.tan',
          'INT': 'math.floor', 'ROUND': 'round'}


def prec(t):
    k = t[0]
    if k in ('bin', 'cmp'):
        return PREC[t[1]]
    if k in ('and', 'or', 'neg', 'not'):
        return PREC[k]
    if k == 'if':
        return 0
    if k == 'num' and t[1] < 0:
        return 7
    return 9


def show(t, style=None, rnd=None):
    """XMILE source with the parentheses the XMILE precedence requires; style: dict(space, case, redundant)"""
    style = style or {}
    sp = style.get('space', ' ')
    kw = (lambda s: s.lower()) if style.get('case') == 'lower' else ((lambda s: s.title()) if style.get('case') == 'title' else (lambda s: s))
    red = style.get('redundant', 0.0)

    def wrap(s):
        return '(' + s + ')'

    def ident(n):
        f = style.get('ident')
        return f(n) if f else n

    def go(t, parent_prec, side, rightmost=True):
        k = t[0]
        p = prec(t)
        need = p < parent_prec or (p == parent_prec and side == 'r' and k in ('bin', 'cmp', 'and', 'or', 'neg')) or (k == 'if' and parent_prec > 0)
        if k == 'num' and t[1] < 0 and parent_prec >= 7:
            need = True
        if k == 'if' and parent_prec > 0 and rightmost and style.get('bare_if') and side == 'r' and parent_prec in (5, 6):
            need = False      # a + IF c THEN x ELSE y : the conditional extends to the end of the sentence
        if not need and rnd is not None and red and rnd.random() < red and k != 'not' and k != 'call':
            need = True
        rm = True if need else rightmost
        if k == 'num':
            v = t[1]
            s = repr(v)
            if s.endswith('.0') and style.get('intnum'):
                s = s[:-2]
            r = s
        elif k == 'var':
            r = ident(t[1])
        elif k == 'time':
            r = kw('TIME')
        elif k == 'dt':
            r = kw('DT')
        elif k == 'start':
            r = kw('STARTTIME')
        elif k == 'bin':
            right_assoc = t[1] == '^'
            l = go(t[2], p, 'r' if right_assoc else 'l', False)
            r_ = go(t[3], p, 'l' if right_assoc else 'r', rm)
            op = kw(t[1]) if t[1] == 'MOD' else t[1]
            s_ = sp if t[1] != 'MOD' else ' '
            r = l + s_ + op + s_ + r_
        elif k == 'cmp':
            r = go(t[2], p, 'l', False) + sp + t[1] + sp + go(t[3], p, 'r', False)
        elif k in ('and', 'or'):
            r = go(t[1], p, 'l', False) + ' ' + kw(k.upper()) + ' ' + go(t[2], p, 'r', False)
        elif k == 'neg':
            r = '-' + go(t[1], PREC['neg'], 'r', False)
        elif k == 'not':
            return kw('NOT') + '(' + go(t[1], 0, 'l', True) + ')'
        elif k == 'if':
            r = kw('IF') + ' ' + go(t[1], 0, 'l', False) + ' ' + kw('THEN') + ' ' + go(t[2], 0, 'l', False) + ' ' + kw('ELSE') + ' ' + go(t[3], 0, 'l', rm)
        elif k == 'call':
            return kw(t[1]) + '(' + (',' + sp).join(go(a, 0, 'l', True) for a in t[2]) + ')'
        else:
            raise ValueError(k)
        return wrap(r) if need else r
    return go(t, 0, 'l')


# ---------------------------------------------------------------------------------------------------------------------
# reference semantics
# ---------------------------------------------------------------------------------------------------------------------

def eval_num(t, env):
    """floats; booleans are 1.0 / 0.0; raises ZeroDivisionError / ValueError / OverflowError like python would"""
    k = t[0]
    if k == 'num':
        return float(t[1])
    if k == 'var':
        return float(env[t[1]])
    if k == 'time':
        return float(env['TIME'])
    if k == 'dt':
        return float(env['DT'])
    if k == 'start':
        return float(env['STARTTIME'])
    if k == 'bin':
        a, b = eval_num(t[2], env), eval_num(t[3], env)
        r = {'+': lambda: a + b, '-': lambda: a - b, '*': lambda: a * b, '/': lambda: a / b, '^': lambda: a ** b, 'MOD': lambda: a % b}[t[1]]()
        if isinstance(r, complex):
            raise ValueError('negative base with a fractional exponent: undefined (python would continue with a complex number, numpy with nan)')
        return r
    if k == 'neg':
        return -eval_num(t[1], env)
    if k == 'cmp':
        a, b = eval_num(t[2], env), eval_num(t[3], env)
        return 1.0 if {'<': a < b, '<=': a <= b, '>': a > b, '>=': a >= b, '=': a == b, '<>': a != b}[t[1]] else 0.0
    if k == 'and':
        return 1.0 if (eval_num(t[1], env) != 0 and eval_num(t[2], env) != 0) else 0.0
    if k == 'or':
        return 1.0 if (eval_num(t[1], env) != 0 or eval_num(t[2], env) != 0) else 0.0
    if k == 'not':
        return 0.0 if eval_num(t[1], env) != 0 else 1.0
    if k == 'if':
        return eval_num(t[2], env) if eval_num(t[1], env) != 0 else eval_num(t[3], env)
    if k == 'call':
        a = [eval_num(x, env) for x in t[2]]
        f = t[1]
        if f == 'MIN':
            return min(a)
        if f == 'MAX':
            return max(a)
        if f == 'ABS':
            return abs(a[0])
        if f == 'SQRT':
            if a[0] < 0:
                raise ValueError('square root of a negative number')
            return a[0] ** 0.5
        if f == 'EXP':
            return math.exp(a[0])
        if f == 'LN':
            return math.log(a[0])
        if f == 'LOG10':
            return math.log10(a[0])
        if f in ('SIN', 'COS', 'TAN'):
            return getattr(math, f.lower())(a[0])
        if f == 'INT':
            return float(math.floor(a[0]))
        if f == 'ROUND':
            return float(round(a[0]))
        if f == 'SAFEDIV':
            return 0.0 if a[1] == 0 else a[0] / a[1]
    raise ValueError(k)


def to_z3(t, z3, var, uf):
    """reference semantics as a z3 real term; var(name) -> z3 real; uf(name, n) -> uninterpreted function"""
    k = t[0]
    R = z3.RealVal
    b2r = lambda c: z3.If(c, R(1), R(0))
    if k == 'num':
        return R(repr(float(t[1])))
    if k == 'var':
        return var(t[1])
    if k == 'time':
        return var('TIME')
    if k == 'dt':
        return var('DT')
    if k == 'start':
        return var('STARTTIME')
    if k == 'bin':
        a, b = to_z3(t[2], z3, var, uf), to_z3(t[3], z3, var, uf)
        return {'+': lambda: a + b, '-': lambda: a - b, '*': lambda: a * b, '/': lambda: a / b, '^': lambda: uf('pow', 2)(a, b), 'MOD': lambda: uf('mod', 2)(a, b)}[t[1]]()
    if k == 'neg':
        return -to_z3(t[1], z3, var, uf)
    if k == 'cmp':
        a, b = to_z3(t[2], z3, var, uf), to_z3(t[3], z3, var, uf)
        return b2r({'<': a < b, '<=': a <= b, '>': a > b, '>=': a >= b, '=': a == b, '<>': a != b}[t[1]])
    if k == 'and':
        return b2r(z3.And(to_z3(t[1], z3, var, uf) != 0, to_z3(t[2], z3, var, uf) != 0))
    if k == 'or':
        return b2r(z3.Or(to_z3(t[1], z3, var, uf) != 0, to_z3(t[2], z3, var, uf) != 0))
    if k == 'not':
        return b2r(to_z3(t[1], z3, var, uf) == 0)
    if k == 'if':
        return z3.If(to_z3(t[1], z3, var, uf) != 0, to_z3(t[2], z3, var, uf), to_z3(t[3], z3, var, uf))
    if k == 'call':
        a = [to_z3(x, z3, var, uf) for x in t[2]]
        f = t[1]
        if f == 'MIN':
            acc = a[0]
            for v in a[1:]:
                acc = z3.If(v < acc, v, acc)
            return acc
        if f == 'MAX':
            acc = a[0]
            for v in a[1:]:
                acc = z3.If(v > acc, v, acc)
            return acc
        if f == 'ABS':
            return z3.If(a[0] < 0, -a[0], a[0])
        if f == 'SQRT':
            return uf('pow', 2)(a[0], R('0.5'))
        if f == 'SAFEDIV':
            return z3.If(a[1] == 0, R(0), a[0] / a[1])
        return uf(PYCALL[f], len(a))(*a)
    raise ValueError(k)


# ---------------------------------------------------------------------------------------------------------------------
# generators
# ---------------------------------------------------------------------------------------------------------------------

def atoms():
    return [['var', 'alpha'], ['var', 'beta'], ['num', 3.0], ['num', 0.5], ['num', -2.0], ['time']]


def arith_depth(d, leaves=None):
    """all arithmetic trees of depth <= d over a small leaf set (exhaustive)"""
    leaves = leaves or [['var', 'alpha'], ['var', 'beta'], ['var', 'gamma'], ['num', 2.0]]
    if d == 0:
        return list(leaves)
    sub = arith_depth(d - 1, leaves)
    out = list(sub)
    for op in BIN:
        for l in sub:
            for r in sub:
                out.append(['bin', op, l, r])
    for x in sub:
        out.append(['neg', x])
    return out


def random_tree(rnd, depth, boolean=False):
    if boolean:
        r = rnd.random()
        if depth <= 0 or r < 0.55:
            return ['cmp', rnd.choice(CMP), random_tree(rnd, depth - 1), random_tree(rnd, depth - 1)]
        if r < 0.75:
            return ['and', random_tree(rnd, depth - 1, True), random_tree(rnd, depth - 1, True)]
        if r < 0.92:
            return ['or', random_tree(rnd, depth - 1, True), random_tree(rnd, depth - 1, True)]
        c = random_tree(rnd, 0, True)
        return ['not', c]
    if depth <= 0:
        r = rnd.random()
        if r < 0.55:
            return ['var', rnd.choice(VARS)]
        if r < 0.85:
            return ['num', rnd.choice([0.5, 2.0, 3.0, 10.0, 1.5, -2.0, 7.0, 0.25])]
        return rnd.choice([['time'], ['dt'], ['start']])
    r = rnd.random()
    if r < 0.6:
        return ['bin', rnd.choice(BIN), random_tree(rnd, depth - 1), random_tree(rnd, depth - 1)]
    if r < 0.68:
        return ['neg', random_tree(rnd, depth - 1)]
    if r < 0.8:
        return ['if', random_tree(rnd, depth - 1, True), random_tree(rnd, depth - 1), random_tree(rnd, depth - 1)]
    if r < 0.93:
        f = rnd.choice(sorted(CALLS))
        return ['call', f, [random_tree(rnd, depth - 1) for _ in range(CALLS[f])]]
    return random_tree(rnd, depth - 1)


IDENT_STYLES = {
    'plain': lambda n: n,
    'upper': lambda n: n.upper(),
    'title': lambda n: n.title(),
    'under': lambda n: n[:2] + '_' + n[2:],        # al_pha   (definition: "al pha" / "Al Pha")
}


def spellings(t, rnd, n=3):
    """several XMILE spellings of the same tree"""
    out = [show(t)]
    for _ in range(n):
        st = dict(space=rnd.choice(['', ' ', '  ']), case=rnd.choice([None, 'lower', 'title']), redundant=rnd.choice([0.0, 0.3]),
                  intnum=rnd.random() < 0.5, ident=IDENT_STYLES[rnd.choice(['plain', 'upper', 'title'])], bare_if=rnd.random() < 0.5)
        out.append(show(t, st, rnd))
    return out
