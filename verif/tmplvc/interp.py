"""K2 (tmplvc) -- symbolic execution of the REAL bodies of text-emitting functions over templates.

A tiny interpreter for the Python subset used by the generators in BPTK_Py/sddsl (term(), __init__,
build_function_string, extractTerm, operator overloads).  Control flow is concrete; operands are symbolic
leaves (`Sym`) of a stated kind; strings are `Tmpl` values = literal pieces + holes.  A hole stands for
"the text returned by <operand>.term(<time>)" (or str(<operand>)) and remembers the time text it was asked for.
Anything outside the subset raises Unsupported => the function is UNBOUND (never a violation)."""
import ast
import warnings


class Unsupported(Exception):
    pass


class Raised(Exception):
    """the interpreted code raised an exception"""

    def __init__(self, cls, msg=''):
        Exception.__init__(self, '%s: %s' % (cls, msg))
        self.cls = cls


class Hole:
    """text of operand `name` rendered at time text `time`; kind: 'Element' | 'Operator' | 'num' | 'negnum'"""

    def __init__(self, name, time, kind, via):
        self.name, self.time, self.kind, self.via = name, time, kind, via

    def __repr__(self):
        return '<%s@%s>' % (self.name, self.time)


class TimeVar:
    """the requested time expression (parameter `time` of term())"""

    def __repr__(self):
        return 'TIME'


TIME = TimeVar()


class Tmpl:
    def __init__(self, parts):
        self.parts = []
        for p in parts:
            if isinstance(p, Tmpl):
                self.parts.extend(p.parts)
            elif isinstance(p, str):
                if p:
                    self.parts.append(p)
            else:
                self.parts.append(p)

    def __add__(self, o):
        return Tmpl([self, o if isinstance(o, (Tmpl, str)) else to_tmpl(o)])

    def __radd__(self, o):
        return Tmpl([o if isinstance(o, (Tmpl, str)) else to_tmpl(o), self])

    def render(self, hole=lambda h: repr(h), time='TIME'):
        out = []
        for p in self.parts:
            if isinstance(p, str):
                out.append(p)
            elif isinstance(p, TimeVar):
                out.append(time)
            else:
                out.append(hole(p))
        return ''.join(out)

    def time_text(self):
        """render a template used as a time expression"""
        return self.render(hole=lambda h: '<%s@%s>' % (h.name, h.time))

    def holes(self):
        return [p for p in self.parts if isinstance(p, Hole)]

    def __repr__(self):
        return 'Tmpl(%s)' % self.render()


class Sym:
    """a symbolic operand"""

    def __init__(self, kind, name):
        self.kind, self.name = kind, name

    def __repr__(self):
        return 'Sym(%s,%s)' % (self.kind, self.name)


class Obj:
    """an instance of an interpreted class"""

    def __init__(self, cls):
        self.cls = cls
        self.fields = {}

    def __repr__(self):
        return '<%s %s>' % (self.cls, self.fields)


def to_tmpl(v):
    if isinstance(v, Tmpl):
        return v
    if isinstance(v, str):
        return Tmpl([v])
    if isinstance(v, (TimeVar, Hole)):
        return Tmpl([v])
    if isinstance(v, (int, float)) and not isinstance(v, bool):
        return Tmpl([str(v)])
    raise Unsupported('cannot turn %r into text' % (v,))


class ElementsStub:
    """_elements of a non-arrayed Element"""

    def __init__(self):
        self.equations = []


class Interp:
    def __init__(self, tree, module_globals=None, extra_trees=()):
        self.tree = tree
        self.classes = {}
        self.funcs = {}
        for t in list(extra_trees) + [tree]:
            self.classes.update({n.name: n for n in t.body if isinstance(n, ast.ClassDef)})
            self.funcs.update({n.name: n for n in t.body if isinstance(n, ast.FunctionDef)})
        self.globals = module_globals or {}
        self.depth = 0
        self.choices = []      # decisions for tests the operand kinds leave open (explored exhaustively by the driver)
        self.taken = []

    def decide(self, what):
        """a test whose outcome the symbolic operand does not determine: both outcomes are explored"""
        i = len(self.taken)
        v = self.choices[i] if i < len(self.choices) else True
        self.taken.append((what, v))
        return v

    # ---- classes ---------------------------------------------------------------------------------
    def bases(self, cls):
        c = self.classes.get(cls)
        if c is None:
            return []
        return [b.id for b in c.bases if isinstance(b, ast.Name)]

    def mro(self, cls):
        out = [cls]
        for b in self.bases(cls):
            for x in self.mro(b):
                if x not in out:
                    out.append(x)
        return out

    def find_method(self, cls, name, after=None):
        m = self.mro(cls)
        if after is not None:
            m = m[m.index(after) + 1:]
        for c in m:
            cd = self.classes.get(c)
            if cd is None:
                continue
            for n in cd.body:
                if isinstance(n, ast.FunctionDef) and n.name == name:
                    return c, n
        return None, None

    def is_subclass(self, cls, base):
        return base in self.mro(cls)

    def construct(self, cls, args, kwargs=None):
        o = Obj(cls)
        owner, init = self.find_method(cls, '__init__')
        if init is not None:
            self.call_function(init, [o] + list(args), kwargs or {}, owner)
        return o

    # ---- functions -------------------------------------------------------------------------------
    def call_function(self, fn, args, kwargs, owner=None):
        self.depth += 1
        if self.depth > 40:
            raise Unsupported('recursion too deep')
        try:
            env = {}
            params = [a.arg for a in fn.args.args]
            defaults = fn.args.defaults
            nd = len(defaults)
            for i, p in enumerate(params):
                if i < len(args):
                    env[p] = args[i]
                elif p in kwargs:
                    env[p] = kwargs[p]
                elif i >= len(params) - nd:
                    env[p] = self.ev(defaults[i - (len(params) - nd)], {})
                else:
                    raise Unsupported('missing argument %s of %s' % (p, fn.name))
            if fn.args.vararg is not None:
                env[fn.args.vararg.arg] = tuple(args[len(params):])
            env['__owner__'] = owner
            try:
                self.block(fn.body, env)
            except _Return as r:
                return r.value
            return None
        finally:
            self.depth -= 1

    def call_method(self, obj, name, args, kwargs=None):
        owner, fn = self.find_method(obj.cls, name)
        if fn is None:
            raise Unsupported('no method %s on %s' % (name, obj.cls))
        return self.call_function(fn, [obj] + list(args), kwargs or {}, owner)

    # ---- statements --------------------------------------------------------------------------------
    def block(self, stmts, env):
        for s in stmts:
            self.stmt(s, env)

    def stmt(self, s, env):
        if isinstance(s, ast.Expr):
            if isinstance(s.value, ast.Constant):
                return
            self.ev(s.value, env)
        elif isinstance(s, ast.Return):
            raise _Return(self.ev(s.value, env) if s.value is not None else None)
        elif isinstance(s, ast.Assign):
            v = self.ev(s.value, env)
            for t in s.targets:
                self.assign(t, v, env)
        elif isinstance(s, ast.AugAssign):
            cur = self.ev(self._load(s.target), env)
            v = self.binop(s.op, cur, self.ev(s.value, env))
            self.assign(s.target, v, env)
        elif isinstance(s, ast.If):
            if self.truth(self.ev(s.test, env)):
                self.block(s.body, env)
            else:
                self.block(s.orelse, env)
        elif isinstance(s, ast.For):
            it = self.ev(s.iter, env)
            if not isinstance(it, (list, tuple, range)):
                raise Unsupported('for over %r' % (it,))
            for x in it:
                self.assign(s.target, x, env)
                try:
                    self.block(s.body, env)
                except _Break:
                    break
        elif isinstance(s, ast.Break):
            raise _Break()
        elif isinstance(s, ast.Pass):
            return
        elif isinstance(s, ast.Raise):
            name = 'Exception'
            if isinstance(s.exc, ast.Call) and isinstance(s.exc.func, ast.Name):
                name = s.exc.func.id
            elif isinstance(s.exc, ast.Name):
                name = s.exc.id
            raise Raised(name, ast.unparse(s.exc) if s.exc else '')
        elif isinstance(s, (ast.Import, ast.ImportFrom)):
            return
        else:
            raise Unsupported('statement %s (line %s)' % (type(s).__name__, s.lineno))

    def _load(self, t):
        return ast.parse(ast.unparse(t), mode='eval').body

    def assign(self, t, v, env):
        if isinstance(t, ast.Name):
            env[t.id] = v
        elif isinstance(t, ast.Attribute):
            o = self.ev(t.value, env)
            if isinstance(o, Obj):
                o.fields[t.attr] = v
            else:
                raise Unsupported('attribute store on %r' % (o,))
        else:
            raise Unsupported('assignment target %s' % type(t).__name__)

    # ---- expressions ---------------------------------------------------------------------------------
    def truth(self, v):
        if isinstance(v, (Tmpl, Sym, Obj)):
            if isinstance(v, Tmpl):
                return bool(v.parts)
            return True
        return bool(v)

    def ev(self, e, env):
        m = getattr(self, 'e_' + type(e).__name__, None)
        if m is None:
            raise Unsupported('expression %s (line %s)' % (type(e).__name__, getattr(e, 'lineno', '?')))
        return m(e, env)

    def e_Constant(self, e, env):
        return e.value

    def e_Name(self, e, env):
        if e.id in env:
            return env[e.id]
        if e.id in self.classes:
            return ('class', e.id)
        if e.id in self.funcs:
            return ('func', e.id)
        if e.id in ('float', 'int', 'str', 'bool', 'list', 'tuple', 'dict'):
            return ('type', e.id)
        if e.id in ('True', 'False', 'None'):
            return {'True': True, 'False': False, 'None': None}[e.id]
        if e.id in self.globals:
            return self.globals[e.id]
        if e.id in ('isinstance', 'issubclass', 'type', 'str', 'len', 'super', 'range', 'repr', 'float', 'int', 'max', 'min', 'abs'):
            return ('builtin', e.id)
        raise Unsupported('name %s (line %s)' % (e.id, e.lineno))

    def e_Attribute(self, e, env):
        # dotted class references such as BPTK_Py.sddsl.element.Element
        d = _dotted(e)
        if d and d.endswith('.Element') and d.split('.')[0] not in env:
            return ('class', 'Element')
        o = self.ev(e.value, env)
        a = e.attr
        if isinstance(o, Obj):
            if a in o.fields:
                return o.fields[a]
            owner, fn = self.find_method(o.cls, a)
            if fn is not None:
                if any(isinstance(d, ast.Name) and d.id == 'property' for d in fn.decorator_list):
                    return self.call_function(fn, [o], {}, owner)
                return ('bound', o, a)
            raise Raised('AttributeError', '%s has no attribute %s' % (o.cls, a))
        if isinstance(o, Sym):
            if o.kind in ('Element',):
                if a == '_elements':
                    return ElementsStub()
                if a in ('named_arrayed', 'arrayed'):
                    return False
                if a == 'name':
                    return o.name
                if a == 'term':
                    return ('symterm', o)
            if o.kind == 'Operator':
                if a == 'term':
                    return ('symterm', o)
                if a == 'arrayed':
                    return False
                if a == 'index':
                    return None
                if a in ('is_any_subelement_arrayed',):
                    return ('const', False)
                if a == 'resolve_dimensions':
                    return ('const', -1)
            raise Unsupported('attribute %s of symbolic %s' % (a, o.kind))
        if isinstance(o, ElementsStub):
            if a == 'vector_size':
                return ('const', 0)
            if a == 'equations':
                return []
        if isinstance(o, Tmpl) or isinstance(o, str):
            if a == 'format':
                return ('format', o)
        if isinstance(o, ModelStub):
            return o.get(a)
        if isinstance(o, tuple) and o and o[0] == 'super':
            return ('superbound', o[1], o[2], a)
        raise Unsupported('attribute %s of %r (line %s)' % (a, o, e.lineno))

    def e_Call(self, e, env):
        f = self.ev(e.func, env)
        args = [self.ev(a, env) for a in e.args if not isinstance(a, ast.Starred)]
        for a in e.args:
            if isinstance(a, ast.Starred):
                args.extend(self.ev(a.value, env))
        kwargs = {k.arg: self.ev(k.value, env) for k in e.keywords}
        if not isinstance(f, tuple):
            raise Unsupported('call of %r (line %s)' % (f, e.lineno))
        tag = f[0]
        if tag == 'class':
            if f[1] == 'Element':
                raise Unsupported('constructing Element')
            return self.construct(f[1], args, kwargs)
        if tag == 'func':
            return self.call_function(self.funcs[f[1]], args, kwargs)
        if tag == 'bound':
            return self.call_method(f[1], f[2], args, kwargs)
        if tag == 'superbound':
            cls, obj, name = f[1], f[2], f[3]
            owner, fn = self.find_method(obj.cls, name, after=cls)
            if fn is None:
                if name == '__init__':
                    return None
                raise Unsupported('super().%s' % name)
            return self.call_function(fn, [obj] + args, kwargs, owner)
        if tag == 'symterm':
            o = f[1]
            time = args[0] if args else kwargs.get('time', 't')
            return Tmpl([Hole(o.name, to_tmpl(time).time_text(), o.kind, 'term')])
        if tag == 'const':
            return f[1]
        if tag == 'format':
            return self.format(f[1], args, kwargs)
        if tag == 'builtin' or (tag == 'type' and f[1] in ('str',)):
            return self.builtin(f[1], args, env, e)
        raise Unsupported('call of %r' % (f,))

    def format(self, fmt, args, kwargs):
        if isinstance(fmt, Tmpl):
            if len(fmt.parts) != 1 or not isinstance(fmt.parts[0], str):
                raise Unsupported('format on a template with holes')
            fmt = fmt.parts[0]
        import string
        out = []
        auto = 0
        for lit, field, spec, conv in string.Formatter().parse(fmt):
            out.append(lit)
            if field is None:
                continue
            if spec or conv:
                raise Unsupported('format spec')
            if field == '':
                v = args[auto]
                auto += 1
            elif field.isdigit():
                v = args[int(field)]
            else:
                v = kwargs[field]
            out.append(self.to_str(v))
        return Tmpl(out)

    def to_str(self, v):
        """str(v) for the value kinds that occur"""
        if isinstance(v, Sym):
            if v.kind in ('num', 'negnum', 'int'):
                return Tmpl([Hole(v.name, '-', v.kind, 'str')])
            # Element.__str__ / Operator.__str__ call term() with the DEFAULT time "t"
            return Tmpl([Hole(v.name, 't', v.kind, 'str')])
        if isinstance(v, Obj):
            owner, fn = self.find_method(v.cls, '__str__')
            if fn is not None:
                return to_tmpl(self.call_function(fn, [v], {}, owner))
            raise Unsupported('str of %s' % v.cls)
        if v is None:
            return Tmpl(['None'])
        return to_tmpl(v)

    def builtin(self, name, args, env, node):
        if name == 'isinstance':
            return self.isinst(args[0], args[1])
        if name == 'issubclass':
            t, c = args
            return self.isinst(t, c)
        if name == 'type':
            return ('typeof', args[0])
        if name == 'str':
            return self.to_str(args[0])
        if name == 'len':
            return len(args[0])
        if name == 'range':
            return range(*args)
        if name == 'super':
            if args:
                return ('super', args[0][1], args[1])
            return ('super', env.get('__owner__'), env.get('self'))
        raise Unsupported('builtin %s' % name)

    def kind_of(self, v):
        if isinstance(v, tuple) and v and v[0] == 'typeof':
            v = v[1]
        if isinstance(v, Sym):
            return v.kind
        if isinstance(v, Obj):
            return ('obj', v.cls)
        if isinstance(v, bool):
            return 'bool'
        if isinstance(v, int):
            return 'int'
        if isinstance(v, float):
            return 'float'
        if isinstance(v, (str, Tmpl)):
            return 'str'
        if v is None:
            return 'None'
        return 'other'

    def isinst(self, v, c):
        if isinstance(c, tuple) and c and c[0] in ('class', 'type'):
            cs = [c]
        else:
            cs = list(c)
        k = self.kind_of(v)
        for cc in cs:
            nm = cc[1]
            if cc[0] == 'type':
                if nm == 'float' and k in ('num', 'negnum', 'float'):
                    return True
                if nm == 'int' and k in ('int', 'bool'):
                    return True
                if nm == 'str' and k == 'str':
                    return True
            else:
                if nm == 'Element' and k == 'Element':
                    return True
                if nm == 'Operator' and k == 'Operator':
                    return True
                if k == 'Operator' and nm in self.classes and self.is_subclass(nm, 'Operator'):
                    # an arbitrary operator may or may not be an instance of this particular operator class
                    sym = v[1] if (isinstance(v, tuple) and v and v[0] == 'typeof') else v
                    known = getattr(sym, 'known_cls', None)
                    if known is not None:
                        if self.is_subclass(known, nm):
                            return True
                        continue
                    excluded = getattr(sym, 'not_cls', set())
                    if nm in excluded:
                        continue
                    if self.decide('isinstance(%s, %s)' % (sym.name, nm)):
                        sym.known_cls = nm
                        return True
                    sym.not_cls = set(excluded) | {nm}
                if isinstance(k, tuple) and self.is_subclass(k[1], nm):
                    return True
                if nm in ('Constant', 'Converter') and k == 'Element':
                    return False
        return False

    def e_BinOp(self, e, env):
        return self.binop(e.op, self.ev(e.left, env), self.ev(e.right, env))

    def binop(self, op, a, b):
        if isinstance(op, ast.Add):
            if isinstance(a, (str, Tmpl)) or isinstance(b, (str, Tmpl)):
                if not isinstance(a, (str, Tmpl)) or not isinstance(b, (str, Tmpl)):
                    raise Raised('TypeError', 'str + non-str')
                return Tmpl([a, b])
            if isinstance(a, (int, float)) and isinstance(b, (int, float)):
                return a + b
        if isinstance(op, ast.Sub) and isinstance(a, (int, float)) and isinstance(b, (int, float)):
            return a - b
        raise Unsupported('binary op %s on %r, %r' % (type(op).__name__, a, b))

    def e_Compare(self, e, env):
        if len(e.ops) != 1:
            raise Unsupported('chained comparison')
        a, b = self.ev(e.left, env), self.ev(e.comparators[0], env)
        op = e.ops[0]
        if isinstance(op, (ast.Is, ast.Eq)):
            return self.same(a, b)
        if isinstance(op, (ast.IsNot, ast.NotEq)):
            return not self.same(a, b)
        if isinstance(a, (int, float)) and isinstance(b, (int, float)):
            return {ast.Lt: a < b, ast.LtE: a <= b, ast.Gt: a > b, ast.GtE: a >= b}[type(op)]
        if isinstance(op, (ast.In, ast.NotIn)):
            r = any(self.same(a, x) for x in b)
            return r if isinstance(op, ast.In) else not r
        raise Unsupported('comparison on %r, %r' % (a, b))

    def same(self, a, b):
        if a is None or b is None:
            return a is None and b is None
        if isinstance(a, Sym) or isinstance(b, Sym):
            if isinstance(a, Sym) and isinstance(b, Sym):
                return a is b
            # a symbolic number compared with a literal: decided by the case (attribute `value` if given)
            s, o = (a, b) if isinstance(a, Sym) else (b, a)
            if s.kind in ('num', 'negnum', 'int') and isinstance(o, (int, float)):
                return getattr(s, 'value', None) == o
            return False
        if isinstance(a, tuple) and isinstance(b, tuple):
            if a[0] == 'typeof' and b[0] == 'typeof':
                x, y = a[1], b[1]
                if isinstance(x, Obj) and isinstance(y, Obj):
                    return x.cls == y.cls
                if isinstance(y, Sym):
                    x, y = y, x
                if isinstance(x, Sym) and isinstance(y, Obj):
                    if x.kind != 'Operator' or not self.is_subclass(y.cls, 'Operator'):
                        return False
                    known = getattr(x, 'known_cls', None)
                    if known is not None:
                        return known == y.cls
                    if y.cls in getattr(x, 'not_cls', set()):
                        return False
                    if self.decide('type(%s) is %s' % (x.name, y.cls)):
                        x.known_cls = y.cls
                        return True
                    x.not_cls = set(getattr(x, 'not_cls', set())) | {y.cls}
                    return False
                if isinstance(x, Sym) and isinstance(y, Sym):
                    return x is y or (x.kind == y.kind and x.kind != 'Operator')
            if a[0] == 'typeof' and b[0] == 'type':
                return self.isinst(a[1], b)
            if b[0] == 'typeof' and a[0] == 'type':
                return self.isinst(b[1], a)
            return a == b
        if isinstance(a, (int, float, str, bool)) and isinstance(b, (int, float, str, bool)):
            return a == b
        return a is b

    def e_BoolOp(self, e, env):
        if isinstance(e.op, ast.And):
            v = True
            for x in e.values:
                v = self.ev(x, env)
                if not self.truth(v):
                    return v
            return v
        v = False
        for x in e.values:
            v = self.ev(x, env)
            if self.truth(v):
                return v
        return v

    def e_UnaryOp(self, e, env):
        v = self.ev(e.operand, env)
        if isinstance(e.op, ast.Not):
            return not self.truth(v)
        if isinstance(e.op, ast.USub) and isinstance(v, (int, float)):
            return -v
        raise Unsupported('unary op')

    def e_IfExp(self, e, env):
        return self.ev(e.body, env) if self.truth(self.ev(e.test, env)) else self.ev(e.orelse, env)

    def e_Tuple(self, e, env):
        return tuple(self.ev(x, env) for x in e.elts)

    def e_List(self, e, env):
        return [self.ev(x, env) for x in e.elts]

    def e_JoinedStr(self, e, env):
        out = []
        for v in e.values:
            if isinstance(v, ast.Constant):
                out.append(v.value)
            else:
                out.append(self.to_str(self.ev(v.value, env)))
        return Tmpl(out)


class ModelStub:
    """`self.model` of generators that read run specs at build time (DT, Pulse, Delay, Starttime, ...)"""

    def __init__(self):
        self.reads = []

    def get(self, a):
        self.reads.append(a)
        return Tmpl([Hole('model.' + a, 'build', 'modelattr', 'attr')])


class _Return(Exception):
    def __init__(self, value):
        self.value = value


class _Break(Exception):
    pass


def _dotted(e):
    if isinstance(e, ast.Name):
        return e.id
    if isinstance(e, ast.Attribute):
        b = _dotted(e.value)
        return None if b is None else b + '.' + e.attr
    return None


def load(path):
    with open(path, encoding='utf-8') as f:
        src = f.read()
    with warnings.catch_warnings():
        warnings.simplefilter('ignore')
        return ast.parse(src, filename=path)
