"""K2 -- expression shapes, unit preservation and semantic equivalence of emitted text (CPython's parser is the oracle)."""
import ast
import itertools
import z3

SHAPES = ['ternary', 'or', 'and', 'not', 'cmp', '+', '-', '*', '/', '%', 'neg', 'negnum', '**', 'atom']
REP = {'ternary': 'q1 if q2 else q3', 'or': 'q1 or q2', 'and': 'q1 and q2', 'not': 'not q1', 'cmp': 'q1<q2', '+': 'q1+q2',
       '-': 'q1-q2', '*': 'q1*q2', '/': 'q1/q2', '%': 'q1%q2', 'neg': '-q1', 'negnum': '-2.0', '**': 'q1**q2', 'atom': 'q1'}


def enclosed(text):
    """is the whole text one parenthesised group / call / name / literal?"""
    t = text.strip()
    if not t:
        return False
    try:
        node = ast.parse(t, mode='eval').body
    except SyntaxError:
        return False
    if isinstance(node, (ast.Name, ast.Call, ast.Attribute, ast.Subscript)):
        return True
    if isinstance(node, ast.Constant):
        return not (isinstance(node.value, (int, float)) and str(t).startswith('-'))
    if t[0] == '(':
        depth = 0
        for i, ch in enumerate(t):
            if ch == '(':
                depth += 1
            elif ch == ')':
                depth -= 1
                if depth == 0:
                    return i == len(t) - 1
    return False


def shape_of(text):
    """shape class of a Python expression text as it behaves when pasted into a larger expression"""
    if enclosed(text):
        return 'atom'
    try:
        node = ast.parse(text.strip(), mode='eval').body
    except SyntaxError:
        return None
    if isinstance(node, ast.IfExp):
        return 'ternary'
    if isinstance(node, ast.BoolOp):
        return 'or' if isinstance(node.op, ast.Or) else 'and'
    if isinstance(node, ast.UnaryOp):
        if isinstance(node.op, ast.Not):
            return 'not'
        if isinstance(node.op, ast.USub):
            return 'negnum' if isinstance(node.operand, ast.Constant) else 'neg'
        return 'neg'
    if isinstance(node, ast.Compare):
        return 'cmp'
    if isinstance(node, ast.BinOp):
        return {ast.Add: '+', ast.Sub: '-', ast.Mult: '*', ast.Div: '/', ast.Mod: '%', ast.Pow: '**'}.get(type(node.op), '*')
    if isinstance(node, ast.Lambda):
        return 'ternary'
    return 'atom'


# ---- AST -> z3 (reals; comparisons / boolean operators follow Python's value semantics) ------------------------
class Untranslatable(Exception):
    pass


_UF = {}


def _uf(name, n):
    key = (name, n)
    if key not in _UF:
        _UF[key] = z3.Function('py_' + name.replace('.', '_'), *([z3.RealSort()] * n), z3.RealSort())
    return _UF[key]


def truthy(x):
    return x != 0


def to_z3(node, env):
    if isinstance(node, ast.Expression):
        return to_z3(node.body, env)
    if isinstance(node, ast.Constant):
        if isinstance(node.value, bool):
            return z3.RealVal(1 if node.value else 0)
        if isinstance(node.value, (int, float)):
            return z3.RealVal(repr(node.value))
        if isinstance(node.value, str):
            return env.setdefault('str:' + node.value, z3.Real('str_%d' % len(env)))
        raise Untranslatable('constant')
    if isinstance(node, ast.Name):
        return env.setdefault(node.id, z3.Real(node.id))
    if isinstance(node, ast.Attribute):
        return env.setdefault(ast.unparse(node), z3.Real(ast.unparse(node).replace('.', '_')))
    if isinstance(node, ast.BinOp):
        a, b = to_z3(node.left, env), to_z3(node.right, env)
        if isinstance(node.op, ast.Add):
            return a + b
        if isinstance(node.op, ast.Sub):
            return a - b
        if isinstance(node.op, ast.Mult):
            return a * b
        if isinstance(node.op, ast.Div):
            return a / b
        if isinstance(node.op, ast.Mod):
            return _uf('mod', 2)(a, b)
        if isinstance(node.op, ast.Pow):
            return _uf('pow', 2)(a, b)
        raise Untranslatable('binop')
    if isinstance(node, ast.UnaryOp):
        a = to_z3(node.operand, env)
        if isinstance(node.op, ast.USub):
            return -a
        if isinstance(node.op, ast.UAdd):
            return a
        if isinstance(node.op, ast.Not):
            return z3.If(truthy(a), z3.RealVal(0), z3.RealVal(1))
    if isinstance(node, ast.BoolOp):
        vals = [to_z3(v, env) for v in node.values]
        acc = vals[-1]
        for v in reversed(vals[:-1]):
            acc = z3.If(truthy(v), acc, v) if isinstance(node.op, ast.And) else z3.If(truthy(v), v, acc)
        return acc
    if isinstance(node, ast.Compare):
        left = to_z3(node.left, env)
        conds = []
        for op, c in zip(node.ops, node.comparators):
            r = to_z3(c, env)
            conds.append({ast.Lt: left < r, ast.LtE: left <= r, ast.Gt: left > r, ast.GtE: left >= r,
                          ast.Eq: left == r, ast.NotEq: left != r}.get(type(op)))
            if conds[-1] is None:
                raise Untranslatable('comparison op')
            left = r
        return z3.If(z3.And(*conds), z3.RealVal(1), z3.RealVal(0))
    if isinstance(node, ast.IfExp):
        return z3.If(truthy(to_z3(node.test, env)), to_z3(node.body, env), to_z3(node.orelse, env))
    if isinstance(node, ast.Call):
        fname = ast.unparse(node.func)
        args = [to_z3(a, env) for a in node.args]
        if fname == 'max' and len(args) == 2:
            return z3.If(args[1] > args[0], args[1], args[0])
        if fname == 'min' and len(args) == 2:
            return z3.If(args[1] < args[0], args[1], args[0])
        if fname == 'abs' and len(args) == 1:
            return z3.If(args[0] < 0, -args[0], args[0])
        return _uf(fname, len(args))(*args)
    if isinstance(node, ast.Subscript):
        return env.setdefault(ast.unparse(node), z3.Real('sub_%d' % len(env)))
    if isinstance(node, ast.Lambda):
        return to_z3(node.body, env)
    raise Untranslatable(type(node).__name__)


def equivalent(text1, text2, timeout_ms=3000):
    """-> ('equal'|'different'|'unknown'|'syntax', detail)"""
    try:
        a1 = ast.parse(text1.strip(), mode='eval')
    except SyntaxError as e:
        return 'syntax', 'first: %s' % e
    try:
        a2 = ast.parse(text2.strip(), mode='eval')
    except SyntaxError as e:
        return 'syntax', 'second: %s' % e
    if ast.dump(a1) == ast.dump(a2):
        return 'equal', 'same AST'
    env = {}
    try:
        z1, z2 = to_z3(a1, env), to_z3(a2, env)
    except Untranslatable as e:
        return 'unknown', 'untranslatable: %s' % e
    s = z3.Solver()
    s.set('timeout', timeout_ms)
    s.add(z1 != z2)
    r = s.check()
    if r == z3.unsat:
        return 'equal', 'z3: valid over the reals'
    if r == z3.sat:
        m = s.model()
        return 'different', {str(d): str(m[d]) for d in m.decls() if d.arity() == 0}
    return 'unknown', 'z3: %s' % s.reason_unknown()
