"""Parallel discharge of K1 obligations: one task per obligation; every worker re-derives the obligations of
a function from the real source (deterministic), so nothing z3 crosses a process boundary."""
import importlib
import multiprocessing as mp
import os
import time
import traceback

_MODS = []
_CACHE = {}


def _init(mods, repo):
    global _MODS
    _MODS = mods
    if repo:
        os.environ['VERIF_REPO'] = repo
    for m in mods:
        importlib.import_module(m)


def _obligations(qualname, prop):
    from verif.pyvc.spec import CONTRACTS
    from verif.pyvc.stmts import verify_function
    from verif.pyvc.state import Unbound
    from verif.pyvc import binder
    key = (qualname, prop)
    if key in _CACHE:
        return _CACHE[key]
    c = CONTRACTS[qualname]
    info = dict(qualname=qualname, file=c.file, line=None, digest=None, unbound=None, assumptions=[], n=0)
    obs = []
    try:
        fn = binder.find_function(c.file, c.src_name)
        info['line'] = fn.lineno
        info['digest'] = binder.source_digest(fn)
        prefix = '%s/%s::%s' % (prop, c.file.split('/')[-1], c.qualname)
        ex = verify_function(c, fn, prefix, ghost_decl=getattr(c, 'ghost', None))
        obs = ex.obligations
        info['assumptions'] = sorted(ex.assumptions)
        info['n'] = len(obs)
    except (KeyError, FileNotFoundError, SyntaxError) as e:
        info['unbound'] = 'binder: %s' % e
    except Unbound as e:
        info['unbound'] = str(e)
    _CACHE[key] = (info, obs)
    return _CACHE[key]


def _count(args):
    qualname, prop = args
    try:
        info, obs = _obligations(qualname, prop)
        return info, [o.name for o in obs]
    except Exception:
        return dict(qualname=qualname, unbound=None, crash=traceback.format_exc(), n=0, assumptions=[], line=None,
                    digest=None, file=None), []


def _one(args):
    qualname, prop, idx, timeout_s, second, fallback = args
    from verif.pyvc.solve import discharge
    try:
        info, obs = _obligations(qualname, prop)
        ob = obs[idx]
        canary = bool(ob.meta.get('canary'))
        v = discharge(ob, min(timeout_s, 5) if canary else timeout_s, second_solver=second and not canary, pool_fallback=fallback and not canary)
        d = v.as_dict()
        if ob.meta.get('canary'):
            # inverted: proving False from the precondition means the contract is vacuous
            if d['status'] == 'discharged':
                d['status'], d['reason'] = 'crash', 'the precondition of the contract is contradictory: every obligation of %s would hold vacuously' % qualname
            else:
                d['status'], d['solver'] = 'discharged', d.get('solver', 'z3') + ' (canary: precondition satisfiable / not refuted)'
                d.pop('reason', None)
            d['qualname'] = qualname
            return d
        d['qualname'] = qualname
        d['path'] = ob.meta.get('path')
        d['exception'] = ob.meta.get('exception')
        d['callee'] = ob.meta.get('callee')
        d['instances'] = v.stats.get('instances')
        if v.model:
            d['model'] = v.model
        return d
    except Exception:
        return dict(qualname=qualname, name='%s#%d' % (qualname, idx), status='crash', solver='none', secs=0.0,
                    reason=traceback.format_exc())


def run(mods, prop, qualnames, timeout_s=60, second=False, fallback=False, procs=None, repo=None):
    """-> (infos: {qualname: info}, verdicts: [dict])"""
    procs = procs or min(16, os.cpu_count() or 4)
    ctx = mp.get_context('fork')
    with ctx.Pool(procs, initializer=_init, initargs=(mods, repo)) as pool:
        infos = {}
        tasks = []
        for info, names in pool.imap(_count, [(q, prop) for q in qualnames]):
            infos[info['qualname']] = info
            for i, _n in enumerate(names):
                tasks.append((info['qualname'], prop, i, timeout_s, second, fallback))
        verdicts = list(pool.imap_unordered(_one, tasks, chunksize=1))
    verdicts.sort(key=lambda d: d['name'])
    return infos, verdicts
