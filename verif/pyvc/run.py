"""K1 driver: bind contracts, generate obligations from the real source, discharge them."""
import time
import traceback
from .spec import CONTRACTS
from .state import Unbound
from .stmts import verify_function
from .solve import discharge, Verdict
from . import binder


class FnReport:
    def __init__(self, qualname, file):
        self.qualname, self.file = qualname, file
        self.line = None
        self.verdicts = []
        self.unbound = None
        self.assumptions = []
        self.secs = 0.0
        self.digest = None
        self.obligations = []


def verify_contract(c, prop, repo=None, timeout_s=10, ghost=None, second_solver=False, only=None):
    rep = FnReport(c.qualname, c.file)
    t0 = time.time()
    try:
        fn = binder.find_function(c.file, c.src_name, repo)
    except (KeyError, FileNotFoundError, SyntaxError) as e:
        rep.unbound = 'binder: %s' % e
        return rep
    rep.line = fn.lineno
    rep.digest = binder.source_digest(fn)
    prefix = '%s/%s::%s' % (prop, c.file.split('/')[-1], c.qualname)
    try:
        ex = verify_function(c, fn, prefix, ghost_decl=ghost if ghost is not None else getattr(c, 'ghost', None))
    except Unbound as e:
        rep.unbound = str(e)
        return rep
    rep.assumptions = sorted(ex.assumptions)
    rep.obligations = ex.obligations
    for ob in ex.obligations:
        if only and only not in ob.name:
            continue
        rep.verdicts.append(discharge(ob, timeout_s, second_solver=second_solver))
    rep.secs = time.time() - t0
    return rep
