"""K1 (pyvc) -- calls: builtins, container methods, and calls cut by callee contracts."""
import ast
import z3
from .types import *  # noqa
from .spec import CLASSES, CONTRACTS, Ctx, find_field, subclasses, is_subclass, EXC_BASES
from .state import Unbound
from .formula import FA, EX
from . import exec as X


def dotted(e):
    if isinstance(e, ast.Name):
        return e.id
    if isinstance(e, ast.Attribute):
        b = dotted(e.value)
        return None if b is None else b + '.' + e.attr
    return None


def eval_call(ex, e, st):
    Res, bind = X.Res, X.bind
    fn = e.func
    if any(isinstance(a, ast.Starred) for a in e.args):
        # f(self, *args, **kwargs) on a function VALUE whose contract ignores its arguments (decorators)
        if isinstance(fn, ast.Name) and fn.id in st.loc and isinstance(st.loc[fn.id].t, TFun):
            c = CONTRACTS.get(st.loc[fn.id].t.contract)
            if c is not None and getattr(c, 'star_ok', False):
                return apply_contract(ex, c, {'__callee__': st.loc[fn.id]}, st, e)
        raise Unbound('*args call (line %s)' % e.lineno)
    if any(k.arg is None for k in e.keywords):
        # f(**rec): a record dict is expanded into the keywords it holds (absent key = parameter default)
        return call_star(ex, e, st)

    # ---- plain names -----------------------------------------------------------------------
    if isinstance(fn, ast.Name):
        n = fn.id
        if n in X.SKIP_CALLS:
            return [Res(st, NONE_V)]
        if n in st.loc:
            f = st.loc[n]
            if isinstance(f.t, TGenFun):
                return [Res(st, SV(ANY, fresh('gen', ANY.sort())))]   # creating a generator object runs nothing
            if isinstance(f.t, TFun) and f.t.contract:
                return call_contract(ex, CONTRACTS[f.t.contract], None, e, st)
            raise Unbound('call of local %s' % n)
        if n in BUILTINS:
            return bind(ex.ev_list(e.args, st), lambda vals, s: BUILTINS[n](ex, vals, s, e))
        if n in CONTRACTS:
            return call_contract(ex, CONTRACTS[n], None, e, st)
        if n in CLASSES and (n + '.__init__') in CONTRACTS:
            s = st.copy()
            r = s.new_ref(n)
            rs = call_contract(ex, CONTRACTS[n + '.__init__'], SV(TRef(n), r), e, s)
            return bind(rs, lambda _v, s2: [Res(s2, SV(TRef(n), r))])
        if n in EXC_BASES or n in ex.local_excs:
            # exception object construction: opaque value carrying its class
            return bind(ex.ev_list(e.args, st), lambda vals, s: [Res(s, SV(TExc(n), None))])
        raise Unbound('call of %s (line %s): no contract' % (n, e.lineno))

    # ---- attribute calls -------------------------------------------------------------------
    if isinstance(fn, ast.Attribute):
        d = dotted(fn)
        if d is not None and d in CONTRACTS and not (isinstance(fn.value, ast.Name) and fn.value.id in st.loc):
            return call_contract(ex, CONTRACTS[d], None, e, st)
        if d is not None and d.split('.')[0] in ('str',) and fn.attr == 'format':
            return [Res(st, SV(STR, fresh('fmt', StrS)))]
        if isinstance(fn.value, ast.Constant) and isinstance(fn.value.value, str) and fn.attr == 'format':
            # message formatting: opaque string; arguments still evaluated (they may raise)
            return bind(ex.ev_list(e.args, st), lambda vals, s: [Res(s, SV(STR, fresh('fmt', StrS)))])
        if isinstance(fn.value, ast.Call) and isinstance(fn.value.func, ast.Name) and fn.value.func.id == 'super':
            base = CLASSES[ex.c.qualname.split('.')[0]].bases[0]
            cn = base + '.' + fn.attr
            if cn in CONTRACTS:
                return call_contract(ex, CONTRACTS[cn], st.loc['self'], e, st)
            raise Unbound('super().%s: no contract' % fn.attr)

        def f(o, s):
            return method_call(ex, o, fn, e, s)
        return bind(ex.ev(fn.value, st), f)

    # ---- calling the result of an expression (e.g. self.agent_factories[t](...)) ----------------
    def g(fv, s):
        if isinstance(fv.t, TFun) and fv.t.contract:
            return call_contract(ex, CONTRACTS[fv.t.contract], None, e, s, callee_val=fv)
        raise Unbound('call of a computed value of type %s (line %s)' % (fv.t, e.lineno))
    return bind(ex.ev(fn, st), g)


class TGenFun(Ty):
    name = 'generator-function'


class TExc(Ty):
    def __init__(self, cls):
        self.cls = cls
        self.name = 'exc:' + cls


def method_call(ex, o, fn, e, st):
    Res, bind = X.Res, X.bind
    m = fn.attr
    t = o.t
    if isinstance(t, TRef):
        out = []
        if not (z3.is_const(o.z) and o.z.decl().name() in ex.nonnull):
            out.append(Res(st.copy().assume(o.z == NULL).note('L%s: .%s() on None' % (e.lineno, m)),
                           exc='AttributeError', node=e))
            st = st.copy().assume(o.z != NULL)
        c = find_method_contract(t.cls, m)
        alias = getattr(ex.c, 'callee_alias', {})
        if c is not None and c.qualname in alias:
            c = CONTRACTS[alias[c.qualname]]
        if c is None:
            # a callable stored in a field?
            r = find_field(t.cls, m)
            if r and isinstance(r[1], TFun) and r[1].contract:
                return out + call_contract(ex, CONTRACTS[r[1].contract], None, e, st)
            raise Unbound('method %s.%s (line %s): no contract' % (t.cls, m, e.lineno))
        return out + call_contract(ex, c, o, e, st)
    if isinstance(t, TOpt):
        s_bad = st.copy().assume(t.dt.is_none(o.z)).note('L%s: .%s() on None' % (e.lineno, m))
        s_ok = st.copy().assume(z3.Not(t.dt.is_none(o.z)))
        return [Res(s_bad, exc='AttributeError', node=e)] + method_call(ex, SV(t.t, t.dt.v(o.z)), fn, e, s_ok)
    if t is NONE:
        return [Res(st.copy().note('L%s: .%s() on None' % (e.lineno, m)), exc='AttributeError', node=e)]
    if isinstance(t, TList):
        return bind(ex.ev_list(e.args, st), lambda vals, s: list_method(ex, o, m, vals, fn, e, s))
    if isinstance(t, (TDict, TRec)):
        return bind(ex.ev_list(e.args, st), lambda vals, s: dict_method(ex, o, m, vals, fn, e, s))
    if t is STR:
        cn = 'str.' + m
        if cn in CONTRACTS:
            return call_contract(ex, CONTRACTS[cn], o, e, st)
    raise Unbound('method %s on %s (line %s)' % (m, t, e.lineno))


def find_method_contract(cls, m):
    q = cls + '.' + m
    if q in CONTRACTS:
        return CONTRACTS[q]
    c = CLASSES.get(cls)
    if c:
        for b in c.bases:
            r = find_method_contract(b, m)
            if r:
                return r
    return None


def list_method(ex, o, m, vals, fn, e, s):
    Res, bind = X.Res, X.bind
    t = o.t
    if m == 'append':
        if t.elem is NONE:
            raise Unbound('append to an untyped empty list (declare the local, line %s)' % e.lineno)
        v = ex.coerce(vals[0], t.elem, s)
        new = SV(t, l_append(t, o.z, v.z))
        return bind(ex.assign_container(fn.value, new, s, e), lambda _v, s2: [Res(s2, NONE_V)])
    if m == 'pop' and len(vals) <= 1:
        ln = l_len(t, o.z)
        if vals:
            k = vals[0].z
            idx = z3.If(k < 0, k + ln, k)
            if not (z3.is_int_value(z3.simplify(k)) and z3.simplify(k).as_long() == -1):
                raise Unbound('list.pop(i) other than the last element (line %s)' % e.lineno)
        s_bad = s.copy().assume(ln <= 0).note('L%s: pop from empty list' % e.lineno)
        s_ok = s.copy().assume(ln > 0)
        v = SV(t.elem, z3.Select(l_at(t, o.z), ln - 1))
        s_ok.type_facts(v)
        new = SV(t, t.mk(ln - 1, l_at(t, o.z), l_oid(t, o.z)))
        return [Res(s_bad, exc='IndexError', node=e)] + \
            bind(ex.assign_container(fn.value, new, s_ok, e), lambda _v, s2: [Res(s2, v)])
    if m == 'extend':
        new = ex.list_concat(o, vals[0], s)
        new = SV(t, t.mk(l_len(t, new.z), l_at(t, new.z), l_oid(t, o.z)))
        return bind(ex.assign_container(fn.value, new, s, e), lambda _v, s2: [Res(s2, NONE_V)])
    if m == 'copy':
        return [Res(s, SV(t, t.mk(l_len(t, o.z), l_at(t, o.z), s.new_oid())))]
    raise Unbound('list.%s (line %s)' % (m, e.lineno))


def dict_method(ex, o, m, vals, fn, e, s):
    Res, bind = X.Res, X.bind
    t = o.t
    if m == 'get' and isinstance(t, TDict):
        k = ex.coerce(vals[0], t.key, s)
        has = z3.Select(d_dom(t, o.z), k.z)
        v = SV(t.val, z3.Select(d_val(t, o.z), k.z))
        s1 = s.copy().assume(has)
        s1.type_facts(v)
        s2 = s.copy().assume(z3.Not(has))
        dflt = vals[1] if len(vals) > 1 else NONE_V
        if dflt.t is NONE:
            if isinstance(t.val, TRef):
                return [Res(s1, v), Res(s2, SV(t.val, NULL))]
            ot = TOpt(t.val)
            return [Res(s1, SV(ot, ot.dt.some(v.z))), Res(s2, SV(ot, ot.dt.none))]
        return [Res(s1, v), Res(s2, ex.coerce(dflt, t.val, s2))]
    if m == 'get' and isinstance(t, TRec):
        lit = ex.lit_key(vals[0])
        if lit is not None and lit in t.fields:
            ft = t.fields[lit]
            has = t.has(o.z, lit)
            v = SV(ft, t.get(o.z, lit))
            s1 = s.copy().assume(has)
            s1.type_facts(v)
            s2 = s.copy().assume(z3.Not(has))
            dflt = vals[1] if len(vals) > 1 else NONE_V
            if dflt.t is NONE:
                if isinstance(ft, TRef):
                    return [Res(s1, v), Res(s2, SV(ft, NULL))]
                if isinstance(ft, TOpt):
                    return [Res(s1, v), Res(s2, SV(ft, ft.dt.none))]
                ot = TOpt(ft)
                return [Res(s1, SV(ot, ot.dt.some(v.z))), Res(s2, SV(ot, ot.dt.none))]
            return [Res(s1, v), Res(s2, ex.coerce(dflt, ft, s2))]
        raise Unbound('record.get with computed key')
    if m == 'setdefault' and isinstance(t, TDict) and len(vals) == 2:
        k = ex.coerce(vals[0], t.key, s)
        has = z3.Select(d_dom(t, o.z), k.z)
        s1 = s.copy().assume(has)
        v1 = SV(t.val, z3.simplify(z3.Select(d_val(t, o.z), k.z)))
        s1.type_facts(v1)
        s2 = s.copy().assume(z3.Not(has))
        dv = ex.coerce(vals[1], t.val, s2)
        new = SV(t, d_store(t, o.z, k.z, dv.z))
        return [Res(s1, v1)] + bind(ex.assign_container(fn.value, new, s2, e), lambda _v, s3: [Res(s3, dv)])
    if m == 'keys' and isinstance(t, TRec):
        return [Res(s, o)]     # only used for `key in d.keys()`
    if m == 'keys' and isinstance(t, TDict):
        return [Res(s, SV(TKeys(t), o.z))]
    if m == 'items' and isinstance(t, TDict):
        return [Res(s, SV(TItems(t), o.z))]
    if m == 'values' and isinstance(t, TDict):
        return [Res(s, SV(TValues(t), o.z))]
    raise Unbound('dict.%s on %s (line %s)' % (m, t, e.lineno))


class TKeys(Ty):
    """d.keys(): membership = key test, iteration = insertion order"""

    def __init__(self, d):
        self.d = d
        self.name = 'keys<%s>' % d.name


class TItems(Ty):
    def __init__(self, d):
        self.d = d
        self.name = 'items<%s>' % d.name


class TValues(Ty):
    def __init__(self, d):
        self.d = d
        self.name = 'values<%s>' % d.name


# ----------------------------------------------------------------------------------------------
# builtins
# ----------------------------------------------------------------------------------------------

def b_len(ex, vals, s, e):
    v = vals[0]
    if isinstance(v.t, TList):
        return [X.Res(s, SV(INT, l_len(v.t, v.z)))]
    if isinstance(v.t, TDict):
        return [X.Res(s, SV(INT, l_len(v.t.keys_t, d_keys(v.t, v.z))))]
    if isinstance(v.t, TKeys):
        return [X.Res(s, SV(INT, l_len(v.t.d.keys_t, d_keys(v.t.d, v.z))))]
    if isinstance(v.t, TTuple):
        return [X.Res(s, sv_int(len(v.z)))]
    if isinstance(v.t, TOpt):
        # len(None) / len(-1) raises TypeError; otherwise the length of the value
        bad = s.copy().assume(v.t.dt.is_none(v.z)).note('L%s: len() of a value that is not a collection' % e.lineno)
        ok = s.copy().assume(z3.Not(v.t.dt.is_none(v.z)))
        return [X.Res(bad, exc='TypeError', node=e)] + b_len(ex, [SV(v.t.t, v.t.dt.v(v.z))], ok, e)
    raise Unbound('len of %s' % v.t)


def b_isinstance(ex, vals, s, e):
    v, ty = vals
    names = [ty.t.pyname] if isinstance(ty.t, X.TType) else [x.t.pyname for x in ty.z]
    if isinstance(v.t, TRef):
        conds = [ex.isinst(v.z, n) for n in names if n in CLASSES]
        return [X.Res(s, sv_bool(z3.Or(*conds) if conds else z3.BoolVal(False)))]
    prim = {INT: 'int', REAL: 'float', STR: 'str', BOOL: 'bool'}
    if v.t in prim:
        ok = prim[v.t] in names or (v.t is BOOL and 'int' in names)
        return [X.Res(s, sv_bool(ok))]
    if isinstance(v.t, TList):
        return [X.Res(s, sv_bool('list' in names))]
    if isinstance(v.t, (TDict, TRec)):
        return [X.Res(s, sv_bool('dict' in names))]
    if v.t is NONE:
        return [X.Res(s, sv_bool(False))]
    if isinstance(v.t, TOpt):
        inner = b_isinstance(ex, [SV(v.t.t, v.t.dt.v(v.z)), ty], s, e)[0].val
        return [X.Res(s, sv_bool(z3.And(z3.Not(v.t.dt.is_none(v.z)), inner.z)))]
    raise Unbound('isinstance on %s' % v.t)


def b_type(ex, vals, s, e):
    v = vals[0]
    prim = {INT: 'int', REAL: 'float', STR: 'str', BOOL: 'bool'}
    if v.t in prim:
        return [X.Res(s, SV(X.TType(prim[v.t]), None))]
    if isinstance(v.t, TList):
        return [X.Res(s, SV(X.TType('list'), None))]
    if isinstance(v.t, (TDict, TRec)):
        return [X.Res(s, SV(X.TType('dict'), None))]
    if v.t is ANY:
        return [X.Res(s, SV(X.TDynType(), v.z))]
    raise Unbound('type() of %s' % v.t)


def b_minmax(is_min):
    def f(ex, vals, s, e):
        if len(vals) < 2:
            raise Unbound('min/max of an iterable')
        # an operand that is None makes the comparison raise TypeError
        outs = []
        cur = s
        plain = []
        for v in vals:
            if v.t is NONE:
                return [X.Res(cur.copy().note('L%s: min/max with None' % e.lineno), exc='TypeError', node=e)]
            if isinstance(v.t, TOpt):
                outs.append(X.Res(cur.copy().assume(v.t.dt.is_none(v.z)).note('L%s: min/max with None' % e.lineno),
                                  exc='TypeError', node=e))
                cur = cur.copy().assume(z3.Not(v.t.dt.is_none(v.z)))
                v = SV(v.t.t, v.t.dt.v(v.z))
            plain.append(v)
        acc = plain[0]
        for v in plain[1:]:
            a, b, t = ex.num_join(acc, v)
            # python returns the first on ties; values equal anyway
            acc = SV(t, z3.If((b.z < a.z) if is_min else (b.z > a.z), b.z, a.z))
        return outs + [X.Res(cur, acc)]
    return f


def b_round(ex, vals, s, e):
    v = vals[0]
    if len(vals) == 1:
        if v.t is INT:
            return [X.Res(s, v)]
        r = ROUND(v.z)
        # |x - round(x)| <= 1/2 (ties to even left unspecified: sound over-approximation)
        s.assume(v.z - z3.RealVal('1/2') <= z3.ToReal(r), z3.ToReal(r) <= v.z + z3.RealVal('1/2'))
        ex.assumed('round(x) (one argument) is any integer within 1/2 of x (tie rule not modelled)')
        return [X.Res(s, SV(INT, r))]
    p = ex.coerce(vals[1], INT)
    return [X.Res(s, SV(REAL, RND(ex.coerce(v, REAL).z, p.z)))]


RND = z3.Function('rnd', z3.RealSort(), z3.IntSort(), z3.RealSort())
ROUND = z3.Function('round_int', z3.RealSort(), z3.IntSort())

# assumed library fact (CPython's round is correctly rounded): rounding to p digits is idempotent
from .formula import AXIOM_SCHEMAS
AXIOM_SCHEMAS['rnd'] = lambda app: [RND(app, app.arg(1)) == app]


def b_abs(ex, vals, s, e):
    v = vals[0]
    return [X.Res(s, SV(v.t, z3.If(v.z < 0, -v.z, v.z)))]


def b_int(ex, vals, s, e):
    v = vals[0]
    if v.t is INT:
        return [X.Res(s, v)]
    if v.t is BOOL:
        return [X.Res(s, ex.coerce(v, INT))]
    if v.t is REAL:
        # truncation toward zero
        fl = z3.ToInt(v.z)
        return [X.Res(s, SV(INT, z3.If(v.z >= 0, fl, -z3.ToInt(-v.z))))]
    raise Unbound('int() of %s' % v.t)


def b_float(ex, vals, s, e):
    v = vals[0]
    if v.t in (INT, REAL, BOOL):
        return [X.Res(s, ex.coerce(v, REAL))]
    raise Unbound('float() of %s' % v.t)


def b_str(ex, vals, s, e):
    v = vals[0]
    if v.t is STR:
        return [X.Res(s, v)]
    return [X.Res(s, SV(STR, fresh('str', StrS)))]


def b_range(ex, vals, s, e):
    for v in vals:
        if v.t is not INT:
            s_bad = s.copy().note('L%s: range() of a non-integer' % e.lineno)
            return [X.Res(s_bad, exc='TypeError', node=e)]
    if len(vals) == 1:
        lo, hi = z3.IntVal(0), vals[0].z
    elif len(vals) == 2:
        lo, hi = vals[0].z, vals[1].z
    else:
        raise Unbound('range with step')
    return [X.Res(s, SV(TRange(), (lo, hi)))]


class TRange(Ty):
    name = 'range'


def b_tuple_list(ex, vals, s, e):
    if not vals:
        raise Unbound('empty list()/tuple()')
    v = vals[0]
    if isinstance(v.t, TList):
        return [X.Res(s, SV(v.t, v.t.mk(l_len(v.t, v.z), l_at(v.t, v.z), s.new_oid())))]
    if isinstance(v.t, (TDict, TKeys)):
        d = v.t.d if isinstance(v.t, TKeys) else v.t
        k = d_keys(d, v.z)
        return [X.Res(s, SV(d.keys_t, d.keys_t.mk(l_len(d.keys_t, k), l_at(d.keys_t, k), s.new_oid())))]
    raise Unbound('list()/tuple() of %s' % v.t)


def b_sum(ex, vals, s, e):
    v = vals[0]
    if not isinstance(v.t, TList):
        return [X.Res(s.copy().note('L%s: sum() of a non-iterable' % e.lineno), exc='TypeError', node=e)]
    raise Unbound('sum of a list')


def b_callable(ex, vals, s, e):
    v = vals[0]
    if isinstance(v.t, TFun):
        return [X.Res(s, sv_bool(True))]
    if v.t in (INT, REAL, STR, BOOL) or isinstance(v.t, (TList, TDict, TRec)):
        return [X.Res(s, sv_bool(False))]
    if v.t is ANY:
        return [X.Res(s, sv_bool(IS_CALLABLE(v.z)))]
    raise Unbound('callable() of %s' % v.t)


IS_CALLABLE = z3.Function('is_callable', ANY.sort(), z3.BoolSort())


def b_eval(ex, vals, s, e):
    ex.assumed('eval(text) behaves as CPython: result treated as an opaque value')
    return [X.Res(s, SV(ANY, fresh('evaluated', ANY.sort())))]


def b_dict(ex, vals, s, e):
    if not vals:
        return [X.Res(s, SV(TDict(NONE, NONE), d_empty(TDict(NONE, NONE), s.new_oid())))]
    raise Unbound('dict(...)')


BUILTINS = {
    'len': b_len, 'isinstance': b_isinstance, 'type': b_type, 'min': b_minmax(True), 'max': b_minmax(False),
    'round': b_round, 'abs': b_abs, 'int': b_int, 'float': b_float, 'str': b_str, 'range': b_range,
    'tuple': b_tuple_list, 'list': b_tuple_list, 'dict': b_dict, 'sum': b_sum, 'eval': b_eval, 'callable': b_callable,
}


# ----------------------------------------------------------------------------------------------
# contract calls
# ----------------------------------------------------------------------------------------------

def call_star(ex, e, st):
    Res, bind = X.Res, X.bind
    fn = e.func
    if len(e.keywords) != 1 or e.args:
        raise Unbound('mixed ** call (line %s)' % e.lineno)
    recv = None
    d = dotted(fn)
    if d in CONTRACTS and not (isinstance(fn, ast.Attribute) and isinstance(fn.value, ast.Name) and fn.value.id in st.loc):
        c = CONTRACTS[d]
        recv_rs = [Res(st, None)]
    elif isinstance(fn, ast.Attribute):
        recv_rs = ex.ev(fn.value, st)
        c = None
    else:
        raise Unbound('** call of %s' % ast.unparse(fn))

    def go(rv, s):
        cc = c
        if cc is None:
            if not isinstance(rv.t, TRef):
                raise Unbound('** call on %s' % rv.t)
            cc = find_method_contract(rv.t.cls, fn.attr)
            if cc is None:
                raise Unbound('method %s.%s: no contract' % (rv.t.cls, fn.attr))

        def with_rec(rec, s2):
            if not isinstance(rec.t, TRec):
                raise Unbound('** of %s' % rec.t)
            args = {}
            pn = list(cc.params)
            if pn and pn[0] == 'self':
                args['self'] = ex.coerce(rv, cc.params['self'], s2)
            if len(pn) == (2 if 'self' in args else 1) and isinstance(cc.params[pn[-1]], TRec):
                # the callee itself takes **kw: pass the record through
                args[pn[-1]] = ex.coerce(rec, cc.params[pn[-1]], s2)
                return apply_contract(ex, cc, args, s2, e)
            for p in pn:
                if p == 'self':
                    continue
                dflt = cc.defaults.get(p)
                if p in rec.t.fields:
                    has = rec.t.has(rec.z, p)
                    v = SV(rec.t.fields[p], rec.t.get(rec.z, p))
                    v = ex.coerce(v, cc.params[p], s2)
                    if dflt is None:
                        raise Unbound('** expansion: parameter %s has no default' % p)
                    dv = ex.coerce(dflt, cc.params[p], s2)
                    args[p] = SV(cc.params[p], z3.If(has, v.z, dv.z))
                elif dflt is not None:
                    args[p] = ex.coerce(dflt, cc.params[p], s2)
                else:
                    raise Unbound('** expansion: missing %s' % p)
            return apply_contract(ex, cc, args, s2, e)
        return bind(ex.ev(e.keywords[0].value, s), with_rec)
    return bind(recv_rs, go)


def call_contract(ex, c, recv, e, st, starred=False, callee_val=None):
    """assert pre; havoc modifies; assume post.  Exceptional exits per c.raises."""
    Res, bind = X.Res, X.bind
    pnames = list(c.params)
    has_self = bool(pnames) and pnames[0] == 'self' and recv is not None
    formal = pnames[1:] if has_self else (pnames[1:] if (pnames and pnames[0] == 'self') else pnames)

    def after_args(vals, s):
        args = {}
        if has_self:
            args['self'] = ex.coerce(recv, c.params['self'], s)
        elif pnames and pnames[0] == 'self':
            raise Unbound('method contract %s called without receiver' % c.qualname)
        npos = len(e.args)
        for i, v in enumerate(vals[:npos]):
            if i >= len(formal):
                raise Unbound('too many arguments for %s' % c.qualname)
            args[formal[i]] = ex.coerce(v, c.params[formal[i]], s)
        for kw, v in zip(e.keywords, vals[npos:]):
            if kw.arg not in c.params:
                raise Unbound('unexpected keyword %s for %s' % (kw.arg, c.qualname))
            args[kw.arg] = ex.coerce(v, c.params[kw.arg], s)
        defaults = getattr(c, 'defaults', {})
        for p in formal:
            if p not in args:
                if p in defaults:
                    args[p] = ex.coerce(defaults[p], c.params[p], s)
                else:
                    raise Unbound('missing argument %s for %s (line %s)' % (p, c.qualname, e.lineno))
        if callee_val is not None:
            args['__callee__'] = callee_val
        return apply_contract(ex, c, args, s, e)

    return bind(ex.ev_list(list(e.args) + [k.value for k in e.keywords], st), after_args)


def apply_contract(ex, c, args, s, e):
    Res = X.Res
    pre_st = s
    C0 = Ctx(ex, pre_st, pre_st, args)
    pre = c.requires(C0)
    ex.oblige('call:%s@L%s.pre' % (c.qualname, e.lineno), pre_st, pre, node=e, extra_hyps=C0.side,
              meta={'callee': c.qualname})
    if c.trusted:
        ex.assumed('assumed contract: %s%s' % (c.qualname, (' -- ' + c.note) if c.note else ''))
    out = []
    # exceptional exits
    for exc, cond in c.raises.items():
        sx = pre_st.copy()
        Cx = Ctx(ex, sx, pre_st, args)
        cz = cond(Cx)
        sx.assume(*Cx.side)
        sx.assume(cz)
        havoc(ex, c, sx)
        if exc in c.exc_ensures:
            C2 = Ctx(ex, sx, pre_st, args)
            sx.assume(c.exc_ensures[exc](C2), *C2.side)
        sx.note('L%s: %s raises %s' % (e.lineno, c.qualname, exc))
        out.append(Res(sx, exc=exc, node=e))
    # normal exit
    sn = pre_st.copy()
    sn.assume(pre, *C0.side)   # the precondition is an obligation above; after it, it may be used
    havoc(ex, c, sn)
    result = fresh_sv(c.returns, 'ret_' + c.qualname.split('.')[-1]) if c.returns is not NONE else NONE_V
    if c.returns is not NONE:
        sn.type_facts(result)
    C1 = Ctx(ex, sn, pre_st, args, result=result)
    post = c.ensures(C1)
    sn.assume(*C1.side)
    sn.assume(post)
    if c.ghost_update is not None:
        c.ghost_update(Ctx(ex, sn, pre_st, args, result=result), sn)
    out.append(Res(sn, result))
    return out


def havoc(ex, c, s):
    for m in c.modifies:
        if m.startswith('$'):
            g = s.ghost[m[1:]]
            s.ghost[m[1:]] = fresh_sv(g.t, 'g_' + m[1:])
            s.type_facts(s.ghost[m[1:]])
        else:
            cls, f = m.split('.')
            r = find_field(cls, f)
            if r is None:
                raise Unbound('modifies names undeclared field %s' % m)
            s.heap[(r[0], f)] = fresh('H_%s.%s' % (r[0], f), z3.ArraySort(RefS, r[1].sort()))
            ex.invalidate_aliases(s, r[0], f, None)
    if c.allocates:
        a2 = fresh('alloc', z3.ArraySort(RefS, z3.BoolSort()))
        old = s.alloc
        s.assume(FA('ref', lambda r: z3.Implies(z3.Select(old, r), z3.Select(a2, r))))
        s.alloc = a2
        o2 = fresh('next_oid', z3.IntSort())
        s.assume(o2 >= s.next_oid)
        s.next_oid = o2
