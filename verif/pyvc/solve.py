"""K1 (pyvc) -- discharge obligations: ground to quantifier-free, z3 first, cvc5 / system z3 on `unknown`."""
import os
import subprocess
import tempfile
import time
import z3
from .formula import ground, GroundingError


class Verdict:
    def __init__(self, name, status, solver, secs, model=None, meta=None, stats=None, reason=None):
        self.name, self.status, self.solver, self.secs = name, status, solver, secs
        self.model, self.meta, self.stats, self.reason = model, meta or {}, stats or {}, reason

    def as_dict(self):
        d = dict(name=self.name, status=self.status, solver=self.solver, secs=round(self.secs, 4))
        if self.reason:
            d['reason'] = self.reason
        if self.meta.get('line') is not None:
            d['line'] = self.meta['line']
        return d


def _model_dict(m, limit=400):
    out = {}
    for d in m.decls():
        if len(out) >= limit:
            break
        try:
            out[d.name()] = str(m[d])[:300]
        except Exception:
            pass
    return out


def smt2_of(assertions):
    s = z3.Solver()
    s.add(*assertions)
    return s.to_smt2()


def run_external(cmd, text, timeout):
    with tempfile.NamedTemporaryFile('w', suffix='.smt2', delete=False, dir=os.environ.get('VERIF_SCRATCH', None)) as f:
        f.write(text)
        path = f.name
    try:
        p = subprocess.run(cmd + [path], capture_output=True, text=True, timeout=timeout + 5)
        out = (p.stdout or '').strip().splitlines()
        return out[0].strip() if out else 'unknown'
    except Exception:
        return 'unknown'
    finally:
        try:
            os.unlink(path)
        except OSError:
            pass


def discharge(ob, timeout_s=10, want_model=True, second_solver=False, pool_fallback=False):
    v = _discharge(ob, timeout_s, want_model, second_solver, True)
    if v.status != 'discharged' and pool_fallback:
        # trigger-selected instances were not enough: retry with the full term pools
        v2 = _discharge(ob, timeout_s, want_model, second_solver, False)
        v2.secs += v.secs
        if v2.status == 'discharged' or v.status == 'undecided':
            v2.stats['mode'] = 'pools'
            return v2
        if v2.status == 'counterexample':
            return v2
    return v


def _discharge(ob, timeout_s, want_model, second_solver, triggers):
    t0 = time.time()
    stats = {}
    try:
        qs = ground(ob.hyps, ob.goal, stats=stats, triggers=triggers)
    except GroundingError as e:
        return Verdict(ob.name, 'undecided', 'none', time.time() - t0, meta=ob.meta, reason='grounding: %s' % e)
    s = z3.Solver()
    s.set('timeout', int(timeout_s * 1000))
    s.add(*qs)
    r = s.check()
    solver = 'z3-%s' % z3.get_version_string()
    if r == z3.unsat:
        v = Verdict(ob.name, 'discharged', solver, time.time() - t0, meta=ob.meta, stats=stats)
        if second_solver:
            text = s.to_smt2()
            r2 = run_external(['/usr/bin/cvc5', '--tlimit=%d' % int(timeout_s * 1000)], text, timeout_s)
            v.stats['cvc5'] = r2
            if r2 == 'sat':
                return Verdict(ob.name, 'undecided', 'z3+cvc5 disagree', time.time() - t0, meta=ob.meta,
                               reason='z3 unsat, cvc5 sat')
        return v
    if r == z3.sat:
        return Verdict(ob.name, 'counterexample', solver, time.time() - t0,
                       model=_model_dict(s.model()) if want_model else None, meta=ob.meta, stats=stats)
    # unknown: other solvers on the same text
    text = s.to_smt2()
    for nm, cmd in (('cvc5-1.0', ['/usr/bin/cvc5', '--tlimit=%d' % int(timeout_s * 1000)]),
                    ('z3-4.8.12', ['/usr/bin/z3', '-T:%d' % int(timeout_s)])):
        r2 = run_external(cmd, text, timeout_s)
        if r2 == 'unsat':
            return Verdict(ob.name, 'discharged', nm, time.time() - t0, meta=ob.meta, stats=stats)
        if r2 == 'sat':
            return Verdict(ob.name, 'counterexample', nm, time.time() - t0, model=None, meta=ob.meta, stats=stats)
    return Verdict(ob.name, 'undecided', solver, time.time() - t0, meta=ob.meta, reason=s.reason_unknown(), stats=stats)


def satisfiable(hyps, timeout_s=5):
    """vacuity guard: are the hypotheses satisfiable (after weakening)?  -> 'sat' | 'unsat' | 'unknown'"""
    try:
        qs = ground(hyps, z3.BoolVal(False))
    except GroundingError:
        return 'unknown'
    s = z3.Solver()
    s.set('timeout', int(timeout_s * 1000))
    s.add(*qs)
    return str(s.check())
