"""K1 (pyvc) -- sidecar contract registry, class table and the view objects contract lambdas see."""
import z3
from .types import *  # noqa
from .formula import FA, EX, RecFun, LAZY_FACTS  # noqa


class _Side(list):
    """side facts of a contract evaluation; also fed to the grounding-time sink"""

    def append(self, x):
        list.append(self, x)
        LAZY_FACTS.append(x)

CLASSES = {}      # name -> ClassDecl
CONTRACTS = {}    # qualname -> Contract   ("Model.delete_agents", "fp.normalize", "fun:agent_factory")
EXC_BASES = {
    'BaseException': None, 'Exception': 'BaseException', 'LookupError': 'Exception', 'KeyError': 'LookupError',
    'IndexError': 'LookupError', 'AttributeError': 'Exception', 'TypeError': 'Exception',
    'ValueError': 'Exception', 'ArithmeticError': 'Exception', 'ZeroDivisionError': 'ArithmeticError',
    'GeneratorExit': 'BaseException', 'StopIteration': 'Exception', 'RuntimeError': 'Exception',
    'NotImplementedError': 'RuntimeError', 'OSError': 'Exception', 'FileNotFoundError': 'OSError',
    'AssertionError': 'Exception', 'NameError': 'Exception',
}


def exc_is(sub, sup):
    while sub is not None:
        if sub == sup:
            return True
        sub = EXC_BASES.get(sub, 'Exception' if sub not in EXC_BASES else None)
    return False


class ClassDecl:
    def __init__(self, name, bases, fields):
        self.name, self.bases, self.fields = name, list(bases), dict(fields)
        self.id = len(CLASSES) + 1


def declare_class(_name, _bases=(), **fields):
    CLASSES[_name] = ClassDecl(_name, _bases, fields)
    return CLASSES[_name]


def declare_exception(name, base='Exception'):
    EXC_BASES[name] = base


def find_field(cls, f):
    """-> (declaring class, Ty) or None, searching base classes"""
    c = CLASSES.get(cls)
    if c is None:
        return None
    if f in c.fields:
        return cls, c.fields[f]
    for b in c.bases:
        r = find_field(b, f)
        if r:
            return r
    return None


def subclasses(cls):
    out = [cls]
    for n, c in CLASSES.items():
        if n != cls and is_subclass(n, cls):
            out.append(n)
    return out


def is_subclass(a, b):
    if a == b:
        return True
    c = CLASSES.get(a)
    return bool(c) and any(is_subclass(x, b) for x in c.bases)


class Contract:
    def __init__(self, qualname, file=None, params=None, returns=NONE, requires=None, ensures=None,
                 modifies=(), raises=None, exc_ensures=None, loops=None, trusted=False, note='',
                 props=(), pure=False, allocates=False, locals=None, src_name=None, ghost_update=None,
                 ghost=None, defaults=None, ghost_mods=()):
        self.qualname, self.file = qualname, file
        self.params = params or {}          # ordered: name -> Ty   (methods: first is self)
        self.returns = returns
        self.requires = requires or (lambda C: z3.BoolVal(True))
        self.ensures = ensures or (lambda C: z3.BoolVal(True))
        self.modifies = list(modifies)      # "Class.field" heap arrays and "$ghost" names
        self.raises = raises or {}          # exc class -> lambda C (pre-state) -> condition under which it MAY be raised
        self.exc_ensures = exc_ensures or {}
        self.loops = loops or {}            # ordinal -> lambda C -> invariant
        self.trusted = trusted              # assumed, body not verified (library / user callback)
        self.note = note
        self.props = list(props)
        self.pure = pure
        self.allocates = allocates
        self.locals = locals or {}          # declared types for locals the executor cannot infer
        self.src_name = src_name or qualname
        self.ghost_update = ghost_update    # history-variable instrumentation applied at call sites only
        self.ghost_mods = list(ghost_mods)  # locations written by ghost_update (havoc'd in loops, not at the call)
        self.ghost = ghost or {}            # ghost variables this function (and its callees) talk about
        self.defaults = defaults or {}      # python-level default arguments (SV values)
        CONTRACTS[qualname] = self


def contract(qualname, **kw):
    return Contract(qualname, **kw)


# ----------------------------------------------------------------------------------------------
# views: what contract lambdas see
# ----------------------------------------------------------------------------------------------

def zof(x):
    """python literal / view / SV -> z3 term"""
    if isinstance(x, View):
        return x.z
    if isinstance(x, SV):
        return x.z
    if isinstance(x, bool):
        return z3.BoolVal(x)
    if isinstance(x, int):
        return z3.IntVal(x)
    if isinstance(x, float):
        return z3.RealVal(repr(x))
    if isinstance(x, str):
        return strlit(x)
    return x


class View:
    def __init__(self, st, t, z, side):
        self.st, self.t, self.z, self.side = st, t, z, side

    def __eq__(self, o):
        return self.z == zof(o)

    def __ne__(self, o):
        return self.z != zof(o)

    __hash__ = None


def wrap(st, sv, side):
    t = sv.t
    if isinstance(t, TRef):
        return RefView(st, t, sv.z, side)
    if isinstance(t, TList):
        side.append(z3.And(l_len(t, sv.z) >= 0, l_oid(t, sv.z) < st.next_oid))
        return ListView(st, t, sv.z, side)
    if isinstance(t, TDict):
        side.append(z3.And(l_len(t.keys_t, d_keys(t, sv.z)) >= 0, d_oid(t, sv.z) < st.next_oid))
        return DictView(st, t, sv.z, side)
    if isinstance(t, TRec):
        return RecView(st, t, sv.z, side)
    if isinstance(t, TOpt):
        return OptView(st, t, sv.z, side)
    if isinstance(t, TTuple):
        return tuple(wrap(st, x, side) for x in sv.z)
    if t is NONE:
        return None
    return sv.z


class RefView(View):
    def __getattr__(self, f):
        if f.startswith('__'):
            raise AttributeError(f)
        r = find_field(self.t.cls, f)
        if r is None:
            # field of a subclass: allowed in specs (caller states the isinstance guard)
            for sc in subclasses(self.t.cls):
                r = find_field(sc, f)
                if r:
                    break
        if r is None:
            raise AttributeError('%s has no declared field %s' % (self.t.cls, f))
        dc, ty = r
        z = z3.simplify(z3.Select(self.st.heap_arr(dc, f, ty), self.z))
        if isinstance(ty, TRef):
            self.side.append(z3.Or(z == NULL, z3.Select(self.st.alloc, z)))
        return wrap(self.st, SV(ty, z), self.side)

    @property
    def is_null(self):
        return self.z == NULL

    def isinstance(self, cls):
        return self.st.ex.isinst(self.z, cls)

    def as_(self, cls):
        return RefView(self.st, TRef(cls), self.z, self.side)


class ListView(View):
    @property
    def len(self):
        return l_len(self.t, self.z)

    @property
    def oid(self):
        return l_oid(self.t, self.z)

    def __getitem__(self, i):
        i = zof(i)
        z = z3.Select(l_at(self.t, self.z), i)
        if isinstance(self.t.elem, TRef):
            # heap closure: list elements are NULL or allocated objects
            self.side.append(z3.Implies(z3.And(0 <= i, i < self.len), z3.Or(z == NULL, z3.Select(self.st.alloc, z))))
        return wrap(self.st, SV(self.t.elem, z), self.side)

    def raw(self, i):
        return z3.Select(l_at(self.t, self.z), zof(i))

    def contains(self, x):
        x = zof(x)
        return EX('idx', lambda i: z3.And(0 <= i, i < self.len, self.raw(i) == x))

    def eq(self, other):
        """extensional equality with another ListView"""
        return z3.And(self.len == other.len,
                      FA('idx', lambda i: z3.Implies(z3.And(0 <= i, i < self.len), self.raw(i) == other.raw(i))))

    def is_append(self, old, x):
        x = zof(x)
        return z3.And(self.len == old.len + 1, l_at(self.t, self.z) == z3.Store(l_at(old.t, old.z), old.len, x),
                      self.raw(old.len) == x,
                      FA('idx', lambda i: z3.Implies(z3.And(0 <= i, i < old.len), self.raw(i) == old.raw(i))))


class DictView(View):
    def has(self, k):
        return z3.Select(d_dom(self.t, self.z), zof(k))

    def __getitem__(self, k):
        k = zof(k)
        z = z3.Select(d_val(self.t, self.z), k)
        if isinstance(self.t.val, TRef):
            # heap closure: dict values are NULL or allocated objects
            self.side.append(z3.Implies(z3.Select(d_dom(self.t, self.z), k), z3.Or(z == NULL, z3.Select(self.st.alloc, z))))
        return wrap(self.st, SV(self.t.val, z), self.side)

    def raw(self, k):
        return z3.Select(d_val(self.t, self.z), zof(k))

    @property
    def keys(self):
        return wrap(self.st, SV(self.t.keys_t, d_keys(self.t, self.z)), self.side)

    @property
    def size(self):
        return l_len(self.t.keys_t, d_keys(self.t, self.z))

    @property
    def oid(self):
        return d_oid(self.t, self.z)

    @property
    def wf(self):
        return d_wf(self.t, self.z, FA)

    @property
    def dom(self):
        return d_dom(self.t, self.z)


class RecView(View):
    def has(self, k):
        return self.t.has(self.z, k)

    def __getitem__(self, k):
        if isinstance(k, str) and k in self.t.fields:
            return wrap(self.st, SV(self.t.fields[k], self.t.get(self.z, k)), self.side)
        return self.rest[k]

    @property
    def rest(self):
        return wrap(self.st, SV(self.t.rest, self.t.restz(self.z)), self.side)


class OptView(View):
    @property
    def is_none(self):
        return self.t.dt.is_none(self.z)

    @property
    def v(self):
        return wrap(self.st, SV(self.t.t, self.t.dt.v(self.z)), self.side)


class _Locals:
    def __init__(self, C):
        self._C = C

    def __getattr__(self, n):
        C = self._C
        if n not in C.st.loc:
            raise AttributeError('no local %s at this point' % n)
        return wrap(C.st, C.st.loc[n], C.side)

    def has(self, n):
        return n in self._C.st.loc


class Ctx:
    """evaluation context handed to requires/ensures/invariant lambdas"""

    def __init__(self, ex, st, old_st, params, result=None, k=None, it=None, side=None, entry=None):
        self.ex, self.st, self.old_st, self.params = ex, st, old_st, params
        stack = getattr(ex, 'loop_stack', None) or []
        self.outer_k = stack[-1] if stack else None
        self._result, self.k, self._it = result, k, it
        self.side = side if side is not None else _Side()
        self.entry_st = entry

    def __getattr__(self, n):
        if n.startswith('__'):
            raise AttributeError(n)
        if n in self.params:
            return wrap(self.st, self.params[n], self.side)
        raise AttributeError('no parameter %s' % n)

    @property
    def callee(self):
        return self.params['__callee__'].z

    @property
    def old(self):
        return Ctx(self.ex, self.old_st, self.old_st, self.params, self._result, self.k, self._it, self.side)

    @property
    def entry(self):
        """function-entry state (loop invariants: old = entry)"""
        return self.old

    @property
    def result(self):
        return wrap(self.st, self._result, self.side)

    @property
    def v(self):
        return _Locals(self)

    @property
    def it(self):
        return wrap(self.st, self._it, self.side) if self._it is not None else None

    def g(self, name):
        return wrap(self.st, self.st.ghost[name], self.side)

    def fresh(self, ref):
        """allocated during this call"""
        return z3.Not(z3.Select(self.old_st.alloc, zof(ref)))

    def fresh_oid(self, oid):
        return oid >= self.old_st.next_oid

    def allocated(self, ref):
        return z3.Select(self.st.alloc, zof(ref))

    def unchanged(self, clsfield):
        """whole heap array unchanged since the old state"""
        cls, f = clsfield.split('.')
        return self.st.heap_arr_cf(cls, f) == self.old_st.heap_arr_cf(cls, f)

    def isinst(self, ref, cls):
        return self.ex.isinst(zof(ref), cls)
