"""K1 (pyvc) -- forward symbolic execution of one real function body (ast) over z3 terms.

Cut at loops by invariants and at calls by callee contracts.  Produces named proof obligations
(name, hyps, goal, meta); `solve.py` grounds and discharges them.
"""
import ast
import z3
from .types import *  # noqa
from .spec import (CLASSES, CONTRACTS, Contract, Ctx, find_field, subclasses, is_subclass, exc_is,
                   EXC_BASES, wrap, zof)
from .state import State, Unbound
from .formula import FA, EX


class Res:
    """result of evaluating an expression on one path"""
    __slots__ = ('st', 'val', 'exc', 'node')

    def __init__(self, st, val=None, exc=None, node=None):
        self.st, self.val, self.exc, self.node = st, val, exc, node


class Out:
    """outcome of executing a statement list on one path"""
    __slots__ = ('kind', 'st', 'val', 'exc', 'node')

    def __init__(self, kind, st, val=None, exc=None, node=None):
        self.kind, self.st, self.val, self.exc, self.node = kind, st, val, exc, node


class Obligation:
    def __init__(self, name, hyps, goal, meta=None):
        self.name, self.hyps, self.goal, self.meta = name, list(hyps), goal, meta or {}


class TDynType(Ty):
    """type(x) of a value whose type is not known statically: compared with a class through the predicate type_is"""
    name = 'dyntype'


TYPE_IS = z3.Function('type_is', ANY.sort(), StrS, z3.BoolSort())


class TType(Ty):
    """static result of type(x) for primitives"""

    def __init__(self, pyname):
        self.name = 'type:' + pyname
        self.pyname = pyname


SKIP_CALLS = {'log', 'print', 'display'}


def bind(rs, fn):
    out = []
    for r in rs:
        if r.exc is not None:
            out.append(r)
        else:
            out.extend(fn(r.val, r.st))
    return out


class Executor:
    def __init__(self, contract, fndef, prefix, module_consts=None):
        self.c = contract
        self.fn = fndef
        self.prefix = prefix           # obligation name prefix  "<prop>/<file>::<qualname>"
        self.obligations = []
        self.assumptions = set()       # human-readable, reported in evidence
        self.typeof = z3.Const('typeof', z3.ArraySort(RefS, z3.IntSort()))
        self._h0 = {}
        self.loop_no = 0
        self.module_consts = module_consts or {}
        self.local_excs = set()
        self.entry = None
        self.params = None
        self.ret_ty = contract.returns

    # ------------------------------------------------------------------------------------------
    def initial_heap(self, cls, f, ty):
        key = (cls, f)
        if key not in self._h0:
            self._h0[key] = z3.Const('H0_%s.%s' % (cls, f), z3.ArraySort(RefS, ty.sort()))
        return self._h0[key]

    def isinst(self, ref_z, cls):
        ids = [CLASSES[c].id for c in subclasses(cls)]
        return z3.And(ref_z != NULL, z3.Or(*[z3.Select(self.typeof, ref_z) == i for i in ids]))

    def oblige(self, kind, st, goal, node=None, extra_hyps=(), meta=None):
        if z3.is_and(goal) and goal.num_args() > 1:
            for i, g in enumerate(goal.children()):
                self.oblige('%s.c%d' % (kind, i), st, g, node, extra_hyps, meta)
            return
        name = '%s/%s' % (self.prefix, kind)
        n = sum(1 for o in self.obligations if o.name == name or o.name.startswith(name + '#'))
        if n:
            name = '%s#%d' % (name, n)
        m = dict(meta or {})
        m.setdefault('line', getattr(node, 'lineno', None))
        m.setdefault('path', list(st.trace))
        m['_st'] = st
        self.obligations.append(Obligation(name, list(st.pc) + list(extra_hyps), goal, m))

    def spec(self, fn, C, what):
        """evaluate a contract lambda; a lambda that no longer fits the code (renamed local, for/while
        changed, ...) makes the function UNBOUND, never a crash or a violation"""
        try:
            return fn(C)
        except Unbound:
            raise
        except Exception as e:
            raise Unbound('%s of %s does not fit the code found: %s: %s' % (what, self.c.qualname, type(e).__name__, e))

    def local_names(self):
        if not hasattr(self, '_locals'):
            self._locals = set()
            for nd in ast.walk(self.fn):
                if isinstance(nd, ast.Name) and isinstance(nd.ctx, ast.Store):
                    self._locals.add(nd.id)
        return self._locals

    def assumed(self, text):
        self.assumptions.add(text)

    # ------------------------------------------------------------------------------------------
    # value helpers
    # ------------------------------------------------------------------------------------------
    def truthy(self, sv):
        t = sv.t
        if t is BOOL:
            return sv.z
        if t is INT:
            return sv.z != 0
        if t is REAL:
            return sv.z != 0
        if t is STR:
            return sv.z != strlit('')
        if t is NONE:
            return z3.BoolVal(False)
        if isinstance(t, TRef):
            return sv.z != NULL
        if isinstance(t, TList):
            return l_len(t, sv.z) > 0
        if isinstance(t, TDict):
            return l_len(t.keys_t, d_keys(t, sv.z)) > 0
        if isinstance(t, TOpt):
            inner = self.truthy(SV(t.t, t.dt.v(sv.z)))
            return z3.And(z3.Not(t.dt.is_none(sv.z)), inner)
        if isinstance(t, TRec):
            raise Unbound('truthiness of record dict')
        if isinstance(t, (TFun, TOpaque, TNum)):
            return z3.BoolVal(True)
        if isinstance(t, TTuple):
            return z3.BoolVal(len(sv.z) > 0)
        raise Unbound('truthiness of %s' % t)

    def coerce(self, sv, ty, st=None):
        """value of type sv.t used where `ty` is declared"""
        if sv.t == ty:
            return sv
        if ty is ANY:
            return SV(ANY, fresh('any', ANY.sort()))
        if sv.t is ANY and not isinstance(ty, TFun):
            # a value of unknown shape used where a type is declared: an arbitrary value of that type
            v = fresh_sv(ty, 'from_any')
            if st is not None:
                st.type_facts(v)
            return v
        if isinstance(ty, TFun) and (isinstance(sv.t, TFun) or sv.t is ANY):
            return SV(ty, fresh('fn', ty.sort()))     # function values are opaque: only their identity matters
        if ty is REAL and sv.t is INT:
            return SV(REAL, z3.ToReal(sv.z))
        if ty is REAL and sv.t is BOOL:
            return SV(REAL, z3.If(sv.z, z3.RealVal(1), z3.RealVal(0)))
        if ty is INT and sv.t is BOOL:
            return SV(INT, z3.If(sv.z, z3.IntVal(1), z3.IntVal(0)))
        if isinstance(ty, TRef) and isinstance(sv.t, TRef):
            if is_subclass(sv.t.cls, ty.cls) or is_subclass(ty.cls, sv.t.cls) or ty.cls == 'object' or sv.t.cls == 'object':
                return SV(ty, sv.z)
        if isinstance(ty, TRef) and sv.t is NONE:
            return SV(ty, NULL)
        if ty is BOOL and sv.t is NONE:
            return SV(BOOL, z3.BoolVal(False))   # a parameter declared BOOL stands for the truthiness of the argument
        if isinstance(ty, TSent) and sv.t is INT:
            lit = z3.simplify(sv.z)
            if z3.is_int_value(lit) and lit.as_long() == ty.sentinel:
                return SV(ty, ty.dt.none)
            raise Unbound('integer other than the sentinel %d used as %s' % (ty.sentinel, ty))
        if isinstance(ty, TSent) and isinstance(sv.t, TSent) and sv.t.name == ty.name:
            return sv
        if isinstance(ty, TOpt):
            if sv.t is NONE:
                return SV(ty, ty.dt.none)
            inner = self.coerce(sv, ty.t, st)
            return SV(ty, ty.dt.some(inner.z))
        if isinstance(ty, TSet) and isinstance(sv.t, TList) and sv.t.elem == ty.elem:
            # abstraction of a list by its membership set: exact for `in`
            ln, at = l_len(sv.t, sv.z), l_at(sv.t, sv.z)
            sl = z3.simplify(ln)
            if z3.is_int_value(sl):
                s = z3.K(ty.elem.sort(), z3.BoolVal(False))
                for i in range(sl.as_long()):
                    s = z3.Store(s, z3.simplify(z3.Select(at, i)), z3.BoolVal(True))
                return SV(ty, s)
            s = fresh('setof', ty.sort())
            if st is not None:
                st.assume(FA(ty.elem, lambda x: z3.Implies(z3.Select(s, x), EX('idx', lambda i: z3.And(0 <= i, i < ln, z3.Select(at, i) == x)))),
                          FA('idx', lambda i: z3.Implies(z3.And(0 <= i, i < ln), z3.Select(s, z3.Select(at, i)))))
            return SV(ty, s)
        if isinstance(ty, TList) and isinstance(sv.t, TList) and sv.t.elem is NONE:
            # the empty display []
            return SV(ty, l_empty(ty, l_oid(sv.t, sv.z)))
        if isinstance(ty, TDict) and isinstance(sv.t, TDict) and sv.t.val is NONE:
            return SV(ty, d_empty(ty, d_oid(sv.t, sv.z)))
        if isinstance(ty, TRec) and isinstance(sv.t, TDict) and sv.t.val is NONE:
            return SV(ty, self.rec_empty(ty, d_oid(sv.t, sv.z)))
        if isinstance(ty, TList) and isinstance(sv.t, TList) and isinstance(ty.elem, TRef) and isinstance(sv.t.elem, TRef):
            if ty.elem.sort() == sv.t.elem.sort():
                return SV(ty, ty.dt.mk(l_len(sv.t, sv.z), l_at(sv.t, sv.z), l_oid(sv.t, sv.z)))
        raise Unbound('cannot use %s where %s is declared' % (sv.t, ty))

    def rec_empty(self, ty, oid):
        kw = {}
        for k in ty.fields:
            kw['has_' + ''.join(c if c.isalnum() else '_' for c in k)] = z3.BoolVal(False)
        z = fresh('rec0', ty.sort())
        if ty.rest is not None:
            kw['rest'] = d_empty(ty.rest, z3.IntVal(-1))
        kw['oid'] = oid
        return ty.update(z, **kw)

    def num_join(self, a, b):
        """arithmetic operands to a common numeric type"""
        if a.t is BOOL:
            a = self.coerce(a, INT)
        if b.t is BOOL:
            b = self.coerce(b, INT)
        if a.t is INT and b.t is INT:
            return a, b, INT
        if a.t in (INT, REAL) and b.t in (INT, REAL):
            return self.coerce(a, REAL), self.coerce(b, REAL), REAL
        raise Unbound('arithmetic on %s and %s' % (a.t, b.t))

    # ------------------------------------------------------------------------------------------
    # expressions
    # ------------------------------------------------------------------------------------------
    def ev(self, e, st):
        m = getattr(self, 'ev_' + type(e).__name__, None)
        if m is None:
            raise Unbound('expression %s (line %s)' % (type(e).__name__, getattr(e, 'lineno', '?')))
        return m(e, st)

    def ev_list(self, es, st):
        """left-to-right evaluation of several expressions -> Res with val = python list of SV"""
        rs = [Res(st, [])]
        for e in es:
            def step(vals, s, e=e):
                return bind(self.ev(e, s), lambda v, s2: [Res(s2, vals + [v])])
            rs = bind(rs, step)
        return rs

    def ev_Constant(self, e, st):
        v = e.value
        if v is None:
            return [Res(st, NONE_V)]
        if isinstance(v, bool):
            return [Res(st, sv_bool(v))]
        if isinstance(v, int):
            return [Res(st, sv_int(v))]
        if isinstance(v, float):
            return [Res(st, sv_real(v))]
        if isinstance(v, str):
            return [Res(st, sv_str(v))]
        raise Unbound('constant %r' % (v,))

    def ev_Name(self, e, st):
        n = e.id
        if n in st.loc:
            if n in st.stale:
                raise Unbound('local %s aliases a container whose path was re-bound to another object' % n)
            org = st.origin.get(n)
            if org is not None and isinstance(st.loc[n].t, (TList, TDict, TRec)):
                # a local bound to a container that lives at an l-value path is a REFERENCE: it sees every
                # in-place mutation made through other paths (callee contracts mutate in place)
                try:
                    cur = self.read_origin(org, st)
                    if cur.t == st.loc[n].t:
                        st.loc[n] = cur
                except (Unbound, IndexError):
                    pass
            return [Res(st, st.loc[n])]
        if n in self.module_consts:
            return [Res(st, self.module_consts[n])]
        if n in ('True', 'False'):
            return [Res(st, sv_bool(n == 'True'))]
        if n in PRIM_TYPES:
            return [Res(st, SV(TType(n), None))]
        if n in CLASSES:
            return [Res(st, SV(TType(n), None))]
        if n in self.local_names():
            # a local that is not bound on this path
            return [Res(st.copy().note('L%s: local %s is not bound' % (e.lineno, n)), exc='NameError', node=e)]
        raise Unbound('name %s (line %s)' % (n, e.lineno))

    def ev_Attribute(self, e, st):
        def f(o, s):
            return self.getattr(o, e.attr, s, e)
        return bind(self.ev(e.value, st), f)

    def getattr(self, o, attr, s, node):
        if isinstance(o.t, TRef):
            r = find_field(o.t.cls, attr)
            out = []
            if r is None:
                # field of a subclass? then reading it requires that dynamic type
                for sc in subclasses(o.t.cls):
                    r2 = find_field(sc, attr)
                    if r2:
                        ok = self.isinst(o.z, r2[0])
                        s_bad = s.copy().assume(z3.Not(ok)).note('L%s: .%s on a non-%s' % (node.lineno, attr, r2[0]))
                        out.append(Res(s_bad, exc='AttributeError', node=node))
                        s = s.copy().assume(ok)
                        return out + [Res(s, s.read(o.z, r2[0], attr))]
                raise Unbound('attribute %s of %s (line %s)' % (attr, o.t.cls, node.lineno))
            if not (z3.is_const(o.z) and o.z.decl().name() in self.nonnull):
                s, s_bad = s.fork(o.z != NULL, 'L%s: .%s on None' % (node.lineno, attr))
                if s_bad is not None:
                    out.append(Res(s_bad, exc='AttributeError', node=node))
                if s is None:
                    return out
            out.append(Res(s, s.read(o.z, o.t.cls, attr)))
            return out
        if o.t is NONE:
            return [Res(s.copy().note('L%s: .%s on None' % (node.lineno, attr)), exc='AttributeError', node=node)]
        if isinstance(o.t, TOpt):
            s_bad = s.copy().assume(o.t.dt.is_none(o.z)).note('L%s: .%s on None' % (node.lineno, attr))
            s_ok = s.copy().assume(z3.Not(o.t.dt.is_none(o.z)))
            return [Res(s_bad, exc='AttributeError', node=node)] + \
                self.getattr(SV(o.t.t, o.t.dt.v(o.z)), attr, s_ok, node)
        raise Unbound('attribute %s of %s (line %s)' % (attr, o.t, node.lineno))

    def ev_Subscript(self, e, st):
        if isinstance(e.slice, ast.Slice):
            raise Unbound('slicing (line %s)' % e.lineno)

        def f(vals, s):
            return self.getitem(vals[0], vals[1], s, e)
        return bind(self.ev_list([e.value, e.slice], st), f)

    def getitem(self, c, k, s, node):
        t = c.t
        if isinstance(t, TList):
            if k.t is not INT:
                raise Unbound('list index of type %s' % k.t)
            ln = l_len(t, c.z)
            idx = z3.If(k.z < 0, k.z + ln, k.z)
            ok = z3.And(idx >= 0, idx < ln)
            s_ok, s_bad = s.fork(ok, 'L%s: list index out of range' % node.lineno)
            out = [Res(s_bad, exc='IndexError', node=node)] if s_bad is not None else []
            if s_ok is not None:
                v = SV(t.elem, z3.Select(l_at(t, c.z), idx))
                s_ok.type_facts(v)
                out.append(Res(s_ok, v))
            return out
        if isinstance(t, TDict):
            k = self.coerce(k, t.key, s)
            ok = z3.Select(d_dom(t, c.z), k.z)
            s_ok, s_bad = s.fork(ok, 'L%s: key not in dict' % node.lineno)
            out = [Res(s_bad, exc='KeyError', node=node)] if s_bad is not None else []
            if s_ok is not None:
                v = SV(t.val, z3.simplify(z3.Select(d_val(t, c.z), k.z)))
                s_ok.type_facts(v)
                out.append(Res(s_ok, v))
            return out
        if isinstance(t, TRec):
            lit = self.lit_key(k)
            if lit is not None and lit in t.fields:
                ok = t.has(c.z, lit)
                s_ok, s_bad = s.fork(ok, 'L%s: key %r not in dict' % (node.lineno, lit))
                out = [Res(s_bad, exc='KeyError', node=node)] if s_bad is not None else []
                if s_ok is not None:
                    v = SV(t.fields[lit], z3.simplify(t.get(c.z, lit)))
                    s_ok.type_facts(v)
                    out.append(Res(s_ok, v))
                return out
            if t.rest is None:
                raise Unbound('computed key on record %s' % t.nm)
            self.assumed('computed keys of record dict %s never equal its literal keys %s' % (t.nm, sorted(t.fields)))
            return self.getitem(SV(t.rest, t.restz(c.z)), k, s, node)
        if isinstance(t, TTuple):
            lit = self.lit_int(k)
            if lit is None:
                raise Unbound('tuple index not constant')
            return [Res(s, c.z[lit])]
        if isinstance(t, TOpt):
            s_bad = s.copy().assume(t.dt.is_none(c.z)).note('L%s: subscript on None' % node.lineno)
            s_ok = s.copy().assume(z3.Not(t.dt.is_none(c.z)))
            return [Res(s_bad, exc='TypeError', node=node)] + self.getitem(SV(t.t, t.dt.v(c.z)), k, s_ok, node)
        if t is NONE:
            return [Res(s.copy().note('L%s: subscript on None' % node.lineno), exc='TypeError', node=node)]
        if t is ANY:
            # a value of unknown shape: the subscript yields some value or raises (TypeError / KeyError / IndexError)
            return [Res(s.copy().note('L%s: subscript on a value of unknown shape raises' % node.lineno), exc='Exception', node=node),
                    Res(s, SV(ANY, fresh('item', ANY.sort())))]
        raise Unbound('subscript on %s (line %s)' % (t, node.lineno))

    def lit_key(self, k):
        if k.t is STR and z3.is_const(k.z):
            nm = k.z.decl().name()
            if nm.startswith('str!'):
                return ast.literal_eval(nm[4:])
        return None

    def lit_int(self, k):
        if k.t is INT and z3.is_int_value(k.z):
            return k.z.as_long()
        return None

    def ev_UnaryOp(self, e, st):
        def f(v, s):
            if isinstance(e.op, ast.Not):
                return [Res(s, sv_bool(z3.Not(self.truthy(v))))]
            if isinstance(e.op, ast.USub):
                if v.t is BOOL:
                    v = self.coerce(v, INT)
                if v.t in (INT, REAL):
                    return [Res(s, SV(v.t, -v.z))]
            if isinstance(e.op, ast.UAdd) and v.t in (INT, REAL):
                return [Res(s, v)]
            raise Unbound('unary %s on %s' % (type(e.op).__name__, v.t))
        return bind(self.ev(e.operand, st), f)

    def ev_BinOp(self, e, st):
        def f(vals, s):
            return self.binop(e.op, vals[0], vals[1], s, e)
        return bind(self.ev_list([e.left, e.right], st), f)

    def binop(self, op, a, b, s, node):
        if isinstance(op, ast.Add) and a.t is STR and b.t is STR:
            return [Res(s, SV(STR, STRCAT(a.z, b.z)))]
        if isinstance(op, ast.Add) and isinstance(a.t, TList) and isinstance(b.t, TList):
            return [Res(s, self.list_concat(a, b, s))]
        if isinstance(a.t, TNum) or isinstance(b.t, TNum):
            names = (getattr(a.t, 'nm', None), getattr(b.t, 'nm', None))
            if isinstance(op, ast.Add) and names in (('datetime', 'timedelta'), ('timedelta', 'datetime')):
                return [Res(s, SV(DATETIME, a.z + b.z))]
            if isinstance(op, ast.Add) and names == ('timedelta', 'timedelta'):
                return [Res(s, SV(TIMEDELTA, a.z + b.z))]
            if isinstance(op, ast.Sub) and names == ('datetime', 'timedelta'):
                return [Res(s, SV(DATETIME, a.z - b.z))]
            if isinstance(op, ast.Sub) and names == ('datetime', 'datetime'):
                return [Res(s, SV(TIMEDELTA, a.z - b.z))]
            raise Unbound('arithmetic on %s and %s' % (a.t, b.t))
        if isinstance(op, (ast.Add, ast.Sub, ast.Mult)):
            a, b, t = self.num_join(a, b)
            z = {ast.Add: a.z + b.z, ast.Sub: a.z - b.z, ast.Mult: a.z * b.z}[type(op)]
            return [Res(s, SV(t, z))]
        if isinstance(op, ast.Div):
            a, b, t = self.num_join(a, b)
            a, b = self.coerce(a, REAL), self.coerce(b, REAL)
            s_bad = s.copy().assume(b.z == 0).note('L%s: division by zero' % node.lineno)
            s_ok = s.copy().assume(b.z != 0)
            return [Res(s_bad, exc='ZeroDivisionError', node=node), Res(s_ok, SV(REAL, self.rdiv(a.z, b.z)))]
        if isinstance(op, (ast.FloorDiv, ast.Mod)) and a.t is INT and b.t is INT:
            s_bad = s.copy().assume(b.z == 0).note('L%s: division by zero' % node.lineno)
            s_ok = s.copy().assume(b.z != 0)
            # python floor semantics: z3 div/mod are euclidean; equal for positive divisor
            fl = z3.If(b.z > 0, a.z / b.z, (-a.z) / (-b.z))
            md = a.z - b.z * fl
            return [Res(s_bad, exc='ZeroDivisionError', node=node),
                    Res(s_ok, SV(INT, fl if isinstance(op, ast.FloorDiv) else md))]
        raise Unbound('binary %s on %s,%s (line %s)' % (type(op).__name__, a.t, b.t, node.lineno))

    def rdiv(self, a, b):
        """real division; subclasses of the executor may keep it uninterpreted (means)"""
        if getattr(self.c, 'uninterpreted_div', False):
            return RDIV(a, b)
        return a / b

    def list_concat(self, a, b, s):
        t = a.t if a.t.elem is not NONE else b.t
        a, b = self.coerce(a, t, s), self.coerce(b, t, s)
        la, lb = l_len(t, a.z), l_len(t, b.z)
        at = fresh('cat', z3.ArraySort(z3.IntSort(), t.elem.sort()))
        aa, ba = l_at(t, a.z), l_at(t, b.z)
        # if b is a display of known length, build by stores (common: x += [e])
        if z3.is_int_value(z3.simplify(lb)):
            n = z3.simplify(lb).as_long()
            arr = aa
            for i in range(n):
                arr = z3.Store(arr, la + i, z3.Select(ba, i))
            return SV(t, t.mk(la + n, arr, s.new_oid()))
        s.assume(FA('idx', lambda i: z3.Implies(z3.And(0 <= i, i < la), z3.Select(at, i) == z3.Select(aa, i))),
                 FA('idx', lambda i: z3.Implies(z3.And(la <= i, i < la + lb), z3.Select(at, i) == z3.Select(ba, i - la))))
        return SV(t, t.mk(la + lb, at, s.new_oid()))

    def ev_BoolOp(self, e, st):
        # short-circuit by forking (operands may raise / have effects)
        def go(i, s):
            def f(v, s2):
                if i == len(e.values) - 1:
                    return [Res(s2, v)]
                tv = self.truthy(v)
                if isinstance(e.op, ast.And):
                    stop, cont = z3.Not(tv), tv
                else:
                    stop, cont = tv, z3.Not(tv)
                out = []
                # a side that is syntactically impossible is not explored (its state would carry `False` as a known fact)
                if not z3.is_false(z3.simplify(stop)):
                    s_stop = s2.copy().assume(stop)
                    out.append(Res(s_stop, v))
                if not z3.is_false(z3.simplify(cont)):
                    out.extend(go(i + 1, s2.copy().assume(cont)))
                return out
            return bind(self.ev(e.values[i], s), f)
        rs = go(0, st)
        # results of different static types are fine for truthiness use; merge pure bool results
        return rs

    def ev_IfExp(self, e, st):
        def f(c, s):
            tv = self.truthy(c)
            r1 = self.ev(e.body, s.copy().assume(tv))
            r2 = self.ev(e.orelse, s.copy().assume(z3.Not(tv)))
            n1 = [r for r in r1 if r.exc is None]
            n2 = [r for r in r2 if r.exc is None]
            # merge the two normal results into one value when both branches are pure (no path explosion)
            if len(n1) == 1 and len(n2) == 1 and self.same_state(n1[0].st, s) and self.same_state(n2[0].st, s):
                a, b = n1[0].val, n2[0].val
                m = None
                if a.t == b.t and not isinstance(a.t, (TTuple,)) and a.t is not NONE and a.z is not None:
                    m = SV(a.t, z3.If(tv, a.z, b.z))
                elif {a.t, b.t} <= {INT, REAL, BOOL} and a.t is not b.t:
                    a2, b2, t = self.num_join(a, b)
                    m = SV(t, z3.If(tv, a2.z, b2.z))
                if m is not None:
                    s2 = s.copy()
                    # facts learned inside the branches hold under the branch condition
                    for x in n1[0].st.pc[len(s.pc) + 1:]:
                        s2.pc.append(z3.Implies(tv, x))
                    for x in n2[0].st.pc[len(s.pc) + 1:]:
                        s2.pc.append(z3.Implies(z3.Not(tv), x))
                    return [r for r in r1 + r2 if r.exc is not None] + [Res(s2, m)]
            return r1 + r2
        return bind(self.ev(e.test, st), f)

    def same_state(self, a, b):
        """no side effect happened between b and a (locals, heap, ghost, allocation identical)"""
        if a.alloc is not b.alloc and not a.alloc.eq(b.alloc):
            return False
        if not a.next_oid.eq(b.next_oid):
            return False
        if set(a.heap) != set(b.heap) or any(not a.heap[k].eq(b.heap[k]) for k in a.heap):
            return False
        if set(a.loc) != set(b.loc) or any(a.loc[k] is not b.loc[k] for k in a.loc):
            return False
        if set(a.ghost) != set(b.ghost) or any(a.ghost[k] is not b.ghost[k] for k in a.ghost):
            return False
        return True

    def ev_Compare(self, e, st):
        if len(e.ops) != 1:
            raise Unbound('chained comparison (line %s)' % e.lineno)

        def f(vals, s):
            return self.compare(e.ops[0], vals[0], vals[1], s, e)
        return bind(self.ev_list([e.left, e.comparators[0]], st), f)

    def compare(self, op, a, b, s, node):
        if isinstance(op, (ast.Eq, ast.NotEq, ast.Is, ast.IsNot)):
            z = self.equal(a, b, isinstance(op, (ast.Is, ast.IsNot)))
            if isinstance(op, (ast.NotEq, ast.IsNot)):
                z = z3.Not(z)
            return [Res(s, sv_bool(z))]
        if isinstance(op, (ast.Lt, ast.LtE, ast.Gt, ast.GtE)):
            if isinstance(a.t, TOpt) or isinstance(b.t, TOpt) or a.t is NONE or b.t is NONE:
                raise Unbound('ordering comparison with optional value (line %s)' % node.lineno)
            if isinstance(a.t, TNum) and a.t == b.t:
                a, b = SV(REAL, a.z), SV(REAL, b.z)
            a, b, _ = self.num_join(a, b)
            z = {ast.Lt: a.z < b.z, ast.LtE: a.z <= b.z, ast.Gt: a.z > b.z, ast.GtE: a.z >= b.z}[type(op)]
            return [Res(s, sv_bool(z))]
        if isinstance(op, (ast.In, ast.NotIn)):
            z = self.contains(b, a, s)
            if isinstance(op, ast.NotIn):
                z = z3.Not(z)
            return [Res(s, sv_bool(z))]
        raise Unbound('comparison %s' % type(op).__name__)

    def equal(self, a, b, identity):
        if a.t is NONE and b.t is NONE:
            return z3.BoolVal(True)
        if a.t is NONE:
            a, b = b, a
        if b.t is NONE:
            if isinstance(a.t, TRef):
                return a.z == NULL
            if isinstance(a.t, TOpt):
                return a.t.dt.is_none(a.z)
            return z3.BoolVal(False)
        if isinstance(a.t, TType) and isinstance(b.t, TType):
            return z3.BoolVal(a.t.pyname == b.t.pyname)
        if isinstance(a.t, TDynType) and isinstance(b.t, TType):
            return TYPE_IS(a.z, strlit(b.t.pyname))
        if isinstance(b.t, TDynType) and isinstance(a.t, TType):
            return TYPE_IS(b.z, strlit(a.t.pyname))
        if isinstance(a.t, TSent) and b.t is INT:
            # `dims == -1`: the sentinel is the only integer such a value can be
            lit = z3.simplify(b.z)
            if z3.is_int_value(lit) and lit.as_long() == a.t.sentinel:
                return a.t.dt.is_none(a.z)
            return z3.And(a.t.dt.is_none(a.z), b.z == a.t.sentinel)
        if isinstance(b.t, TSent) and a.t is INT:
            return self.equal(b, a, identity)
        if isinstance(a.t, TOpt) and isinstance(b.t, TOpt) and a.t.name == b.t.name and not identity:
            inner = self.equal(SV(a.t.t, a.t.dt.v(a.z)), SV(b.t.t, b.t.dt.v(b.z)), False)
            return z3.Or(z3.And(a.t.dt.is_none(a.z), b.t.dt.is_none(b.z)),
                         z3.And(z3.Not(a.t.dt.is_none(a.z)), z3.Not(b.t.dt.is_none(b.z)), inner))
        if isinstance(a.t, TList) and a.t == b.t and not identity and a.t.elem in (INT, REAL, BOOL, STR):
            # value equality of lists of primitives: same length, same entries
            from .formula import FA
            la, lb = l_len(a.t, a.z), l_len(b.t, b.z)
            aa, ab = l_at(a.t, a.z), l_at(b.t, b.z)
            return z3.And(la == lb, FA('idx', lambda i: z3.Implies(z3.And(0 <= i, i < la), z3.Select(aa, i) == z3.Select(ab, i))))
        if isinstance(a.t, TOpt) and not isinstance(b.t, TOpt):
            bb = self.coerce(b, a.t.t)
            return z3.And(z3.Not(a.t.dt.is_none(a.z)), a.t.dt.v(a.z) == bb.z)
        if isinstance(b.t, TOpt) and not isinstance(a.t, TOpt):
            return self.equal(b, a, identity)
        if a.t in (INT, REAL, BOOL) and b.t in (INT, REAL, BOOL):
            if identity and a.t != b.t:
                return z3.BoolVal(False)
            a, b, _ = self.num_join(a, b)
            return a.z == b.z
        if a.t is STR and b.t is STR:
            return a.z == b.z
        if isinstance(a.t, TNum) and a.t == b.t:
            return a.z == b.z
        if isinstance(a.t, TRef) and isinstance(b.t, TRef):
            return a.z == b.z   # == on objects without __eq__ is identity
        if (a.t is STR) != (b.t is STR):
            return z3.BoolVal(False)
        if isinstance(a.t, (TList, TDict)) and a.t == b.t and identity:
            return (l_oid if isinstance(a.t, TList) else d_oid)(a.t, a.z) == \
                   (l_oid if isinstance(a.t, TList) else d_oid)(a.t, b.z)
        raise Unbound('equality of %s and %s' % (a.t, b.t))

    def contains(self, c, x, s):
        t = c.t
        if isinstance(t, TSet):
            x = self.coerce(x, t.elem, s)
            return z3.Select(c.z, x.z)
        from .calls import TKeys
        if isinstance(t, TKeys):
            x = self.coerce(x, t.d.key, s)
            return z3.Select(d_dom(t.d, c.z), x.z)
        if t is STR and x.t is STR:
            return STR_CONTAINS(c.z, x.z)
        if isinstance(t, TDict):
            x = self.coerce(x, t.key, s)
            return z3.Select(d_dom(t, c.z), x.z)
        if isinstance(t, TRec):
            lit = self.lit_key(x)
            if lit is not None and lit in t.fields:
                return t.has(c.z, lit)
            if t.rest is None:
                raise Unbound('computed key test on record')
            self.assumed('computed keys of record dict %s never equal its literal keys %s' % (t.nm, sorted(t.fields)))
            return self.contains(SV(t.rest, t.restz(c.z)), x, s)
        if isinstance(t, TList):
            if isinstance(x.t, TType):
                raise Unbound('type in list of non-types')
            x = self.coerce(x, t.elem, s)
            ln, at = l_len(t, c.z), l_at(t, c.z)
            sl = z3.simplify(ln)
            if z3.is_int_value(sl):
                return z3.Or(*[z3.Select(at, i) == x.z for i in range(sl.as_long())]) if sl.as_long() else z3.BoolVal(False)
            return EX('idx', lambda i: z3.And(0 <= i, i < ln, z3.Select(at, i) == x.z))
        if isinstance(t, TTuple):
            return z3.Or(*[self.equal(x, y, False) for y in c.z]) if c.z else z3.BoolVal(False)
        raise Unbound('`in` on %s' % t)

    def ev_List(self, e, st):
        def f(vals, s):
            if not vals:
                return [Res(s, SV(TList(NONE), l_empty(TList(NONE), s.new_oid())))]
            if all(isinstance(v.t, TType) for v in vals):
                return [Res(s, SV(TTuple([v.t for v in vals]), tuple(vals)))]
            t = vals[0].t
            for v in vals[1:]:
                if v.t != t:
                    if {v.t, t} <= {INT, REAL}:
                        t = REAL
                    else:
                        raise Unbound('heterogeneous list display')
            lt = TList(t)
            z = l_empty(lt, s.new_oid())
            for v in vals:
                z = l_append(lt, z, self.coerce(v, t).z)
            return [Res(s, SV(lt, z))]
        return bind(self.ev_list(e.elts, st), f)

    def ev_Tuple(self, e, st):
        return bind(self.ev_list(e.elts, st), lambda vals, s: [Res(s, SV(TTuple([v.t for v in vals]), tuple(vals)))])

    def ev_Dict(self, e, st):
        if not e.keys:
            return [Res(st, SV(TDict(NONE, NONE), d_empty(TDict(NONE, NONE), st.new_oid())))]

        def f(vals, s):
            n = len(e.keys)
            ks, vs = vals[:n], vals[n:]
            return [Res(s, SV(TDictDisplay(ks, vs), (ks, vs, s.new_oid())))]
        if any(k is None for k in e.keys):
            raise Unbound('dict unpacking display')
        return bind(self.ev_list(list(e.keys) + list(e.values), st), f)

    def ev_Lambda(self, e, st):
        # a lambda is an opaque function value (never called by verified code except through a TFun contract)
        t = TFun('lambda')
        return [Res(st, SV(t, fresh('lambda', t.sort())))]

    def ev_DictComp(self, e, st):
        self.assumed('comprehensions that only build a returned / logged value are treated as opaque pure expressions')
        return [Res(st, SV(ANY, fresh('dictcomp', ANY.sort())))]

    ev_ListComp = ev_DictComp
    ev_GeneratorExp = ev_DictComp

    def ev_JoinedStr(self, e, st):
        # f-strings only feed log/error messages: opaque string
        return [Res(st, SV(STR, fresh('fstr', StrS)))]

    # calls --------------------------------------------------------------------------------
    def ev_Call(self, e, st):
        from .calls import eval_call
        return eval_call(self, e, st)

    # ------------------------------------------------------------------------------------------
    # assignment
    # ------------------------------------------------------------------------------------------
    def assign(self, target, val, st, node):
        """-> list of Res (val unused); may fork on exceptions while evaluating the path"""
        if isinstance(target, ast.Name):
            n = target.id
            declared = self.c.locals.get(n)
            if declared is not None:
                val = self.coerce(val, declared, st)
            elif n in st.loc and st.loc[n].t != val.t:
                try:
                    val = self.coerce(val, st.loc[n].t, st)
                except Unbound:
                    pass
            st.loc[n] = val
            st.origin.pop(n, None)
            st.stale.discard(n)
            return [Res(st)]
        if isinstance(target, ast.Tuple):
            if not isinstance(val.t, TTuple) or len(val.z) != len(target.elts):
                raise Unbound('tuple unpacking of %s' % val.t)
            rs = [Res(st)]
            for tg, v in zip(target.elts, val.z):
                rs = bind(rs, lambda _v, s, tg=tg, v=v: self.assign(tg, v, s, node))
            return rs
        if isinstance(target, ast.Attribute):
            def f(o, s):
                if not isinstance(o.t, TRef):
                    raise Unbound('attribute store on %s' % o.t)
                out = []
                if not (z3.is_const(o.z) and o.z.decl().name() in self.nonnull):
                    s, s_bad = s.fork(o.z != NULL, 'L%s: attribute store on None' % node.lineno)
                    if s_bad is not None:
                        out.append(Res(s_bad, exc='AttributeError', node=node))
                    if s is None:
                        return out
                r = find_field(o.t.cls, target.attr)
                cls = o.t.cls
                if r is None:
                    for sc in subclasses(o.t.cls):
                        if find_field(sc, target.attr):
                            cls = sc
                            break
                    else:
                        raise Unbound('store to undeclared field %s.%s' % (o.t.cls, target.attr))
                s.write(o.z, cls, target.attr, val)
                self.invalidate_aliases(s, find_field(cls, target.attr)[0], target.attr, None, rebind_depth=0)
                return out + [Res(s)]
            return bind(self.ev(target.value, st), f)
        if isinstance(target, ast.Subscript):
            def f(vals, s):
                c, k = vals
                rs = bind(self.setitem(c, k, val, s, node),
                          lambda newc, s2: self.assign_container(target.value, newc, s2, node))
                if isinstance(val.t, (TList, TDict, TRec)):
                    # the element now IS another container object: references to the old one are detached
                    e, depth = target, 0
                    while isinstance(e, ast.Subscript):
                        e, depth = e.value, depth + 1
                    if isinstance(e, ast.Attribute):
                        for r in rs:
                            if r.exc is None:
                                self.invalidate_aliases(r.st, None, e.attr, None, rebind_depth=depth)
                return rs
            return bind(self.ev_list([target.value, target.slice], st), f)
        raise Unbound('assignment target %s' % type(target).__name__)

    def assign_container(self, expr, newval, st, node):
        """write an updated container value back to the l-value path it was read from"""
        if isinstance(expr, ast.Name):
            n = expr.id
            st.loc[n] = self.coerce(newval, st.loc[n].t, st) if n in st.loc else newval
            org = st.origin.get(n)
            if org is not None:
                return self.write_origin(org, st.loc[n], st, node, through=n)
            return [Res(st)]
        if isinstance(expr, ast.Attribute):
            # receiver already evaluated once without exception on this path; re-evaluate purely
            def f(o, s):
                s.write(o.z, o.t.cls if find_field(o.t.cls, expr.attr) else self.subcls_with(o.t.cls, expr.attr), expr.attr, newval)
                self.invalidate_aliases(s, None, expr.attr, None)
                return [Res(s)]
            return bind([r for r in self.ev(expr.value, st) if r.exc is None], f)
        if isinstance(expr, ast.Subscript):
            def f(vals, s):
                c, k = vals
                return bind(self.setitem(c, k, newval, s, node),
                            lambda newc, s2: self.assign_container(expr.value, newc, s2, node))
            return bind([r for r in self.ev_list([expr.value, expr.slice], st) if r.exc is None], f)
        if isinstance(expr, ast.Call):
            raise Unbound('mutation of a call result (line %s)' % node.lineno)
        raise Unbound('container path %s' % type(expr).__name__)

    def subcls_with(self, cls, f):
        for sc in subclasses(cls):
            if find_field(sc, f):
                return sc
        raise Unbound('undeclared field %s.%s' % (cls, f))

    def write_origin(self, org, val, st, node, through):
        kind = org[0]
        if kind == 'attr':
            _, ref_z, cls, f = org
            st.write(ref_z, cls, f, val)
            self.invalidate_aliases(st, cls, f, through)
            return [Res(st)]
        if kind == 'sub':
            _, parent_org, parent_val_fn, key = org
            # re-read the parent container from ITS origin in the current state, update at key
            pv = self.read_origin(parent_org, st)
            return bind(self.setitem(pv, key, val, st, node),
                        lambda newc, s2: self.write_origin(parent_org, newc, s2, node, through))
        raise Unbound('alias origin')

    def read_origin(self, org, st):
        if org[0] == 'attr':
            _, ref_z, cls, f = org
            return st.read(ref_z, cls, f)
        _, parent_org, _fn, key = org
        pv = self.read_origin(parent_org, st)
        rs = [r for r in self.getitem(pv, key, st, ast.Constant(value=0, lineno=0)) if r.exc is None]
        return rs[0].val

    def origin_of(self, expr, st):
        """alias origin of an l-value path expression (evaluated now), or None"""
        if isinstance(expr, ast.Attribute):
            rs = [r for r in self.ev(expr.value, st.copy()) if r.exc is None]
            if len(rs) != 1 or not isinstance(rs[0].val.t, TRef):
                return None
            o = rs[0].val
            r = find_field(o.t.cls, expr.attr)
            cls = o.t.cls if r else None
            if r is None:
                try:
                    cls = self.subcls_with(o.t.cls, expr.attr)
                except Unbound:
                    return None
            return ('attr', o.z, cls, expr.attr)
        if isinstance(expr, ast.Subscript):
            po = self.origin_of(expr.value, st)
            if po is None and isinstance(expr.value, ast.Name):
                po = st.origin.get(expr.value.id)
            if po is None:
                return None
            rs = [r for r in self.ev(expr.slice, st.copy()) if r.exc is None]
            if len(rs) != 1:
                return None
            return ('sub', po, None, rs[0].val)
        if isinstance(expr, ast.Name):
            return st.origin.get(expr.id)
        return None

    def invalidate_aliases(self, st, cls, f, through, rebind_depth=None):
        """rebind_depth: None = in-place mutation only (aliases stay valid, they are re-read lazily);
        k = the path (field f, k subscripts) now holds a different object: aliases at that depth or deeper are detached"""
        if rebind_depth is None:
            return
        for n, org in list(st.origin.items()):
            if n == through:
                continue
            o, depth = org, 0
            while o[0] == 'sub':
                o = o[1]
                depth += 1
            if o[3] == f and depth >= rebind_depth:
                st.stale.add(n)

    def setitem(self, c, k, v, s, node):
        """functional update c[k] = v -> Res(val = new container)"""
        t = c.t
        if isinstance(t, TList):
            ln = l_len(t, c.z)
            idx = z3.If(k.z < 0, k.z + ln, k.z)
            ok = z3.And(idx >= 0, idx < ln)
            s_bad = s.copy().assume(z3.Not(ok)).note('L%s: list assignment index out of range' % node.lineno)
            s_ok = s.copy().assume(ok)
            v = self.coerce(v, t.elem, s_ok)
            return [Res(s_bad, exc='IndexError', node=node),
                    Res(s_ok, SV(t, t.mk(ln, z3.Store(l_at(t, c.z), idx, v.z), l_oid(t, c.z))))]
        if isinstance(t, TDict):
            if t.val is NONE:
                raise Unbound('store into an untyped empty dict literal (declare the local)')
            k = self.coerce(k, t.key, s)
            v = self.coerce(v, t.val, s)
            return [Res(s, SV(t, d_store(t, c.z, k.z, v.z)))]
        if isinstance(t, TRec):
            lit = self.lit_key(k)
            if lit is not None and lit in t.fields:
                v = self.coerce(v, t.fields[lit], s)
                f = ''.join(ch if ch.isalnum() else '_' for ch in lit)
                return [Res(s, SV(t, t.update(c.z, **{'has_' + f: z3.BoolVal(True), 'v_' + f: v.z})))]
            if t.rest is None:
                raise Unbound('computed key store on record %s' % t.nm)
            self.assumed('computed keys of record dict %s never equal its literal keys %s' % (t.nm, sorted(t.fields)))
            return bind(self.setitem(SV(t.rest, t.restz(c.z)), k, v, s, node),
                        lambda nr, s2: [Res(s2, SV(t, t.update(c.z, rest=nr.z)))])
        if isinstance(t, TOpt):
            s_bad = s.copy().assume(t.dt.is_none(c.z)).note('L%s: item assignment on None' % node.lineno)
            s_ok = s.copy().assume(z3.Not(t.dt.is_none(c.z)))
            return [Res(s_bad, exc='TypeError', node=node)] + bind(
                self.setitem(SV(t.t, t.dt.v(c.z)), k, v, s_ok, node),
                lambda nv, s2: [Res(s2, SV(t, t.dt.some(nv.z)))])
        if t is NONE:
            return [Res(s.copy().note('L%s: item assignment on None' % node.lineno), exc='TypeError', node=node)]
        raise Unbound('item store on %s (line %s)' % (t, node.lineno))


PRIM_TYPES = {'int', 'float', 'str', 'bool', 'list', 'dict', 'tuple'}
RDIV = z3.Function('rdiv', z3.RealSort(), z3.RealSort(), z3.RealSort())
STRCAT = z3.Function('strcat', StrS, StrS, StrS)
STR_CONTAINS = z3.Function('str_contains', StrS, StrS, z3.BoolSort())


class TDictDisplay(Ty):
    """a dict display {k: v, ...} before it meets a declared type (coerced on store)"""

    def __init__(self, ks, vs):
        self.ks, self.vs = ks, vs
        self.name = 'dictdisplay'
