"""K1 (pyvc) -- statements, loops (cut by invariants), try/except, and the per-function driver."""
import ast
import z3
from .types import *  # noqa
from .spec import CLASSES, CONTRACTS, Ctx, find_field, exc_is, EXC_BASES, wrap
from .state import State, Unbound
from .formula import FA, EX
from .exec import Executor, Res, Out, bind, TDictDisplay, TType
from .calls import TRange, TItems, TValues, TExc, TKeys, dotted


def outs_from(rs, kind='fall'):
    o = []
    for r in rs:
        if r.exc is not None:
            o.append(Out('raise', r.st, exc=r.exc, node=r.node))
        else:
            o.append(Out(kind, r.st, val=r.val))
    return o


class FnExecutor(Executor):
    def __init__(self, *a, **kw):
        super().__init__(*a, **kw)
        self.nonnull = set()
        self.loop_stack = []

    # ------------------------------------------------------------------------------------------
    def block(self, stmts, st):
        """-> list of Out"""
        live = [st]
        done = []
        for s in stmts:
            nxt = []
            for cur in live:
                for o in self.stmt(s, cur):
                    if o.kind == 'fall':
                        nxt.append(o.st)
                    else:
                        done.append(o)
            live = nxt
            if not live:
                break
        return done + [Out('fall', s) for s in live]

    def stmt(self, s, st):
        m = getattr(self, 'st_' + type(s).__name__, None)
        if m is None:
            raise Unbound('statement %s (line %s)' % (type(s).__name__, s.lineno))
        return m(s, st.copy())

    def st_Pass(self, s, st):
        return [Out('fall', st)]

    def st_Import(self, s, st):
        return [Out('fall', st)]

    st_ImportFrom = st_Import

    def st_FunctionDef(self, s, st):
        """a nested def: only generator functions are supported as values (verified under their own contract)"""
        from .calls import TGenFun
        if any(isinstance(n, (ast.Yield, ast.YieldFrom)) for n in ast.walk(s)):
            st.loc[s.name] = SV(TGenFun(), None)
            return [Out('fall', st)]
        raise Unbound('nested function %s (line %s)' % (s.name, s.lineno))

    def st_ClassDef(self, s, st):
        # local exception classes only
        bases = [b.id for b in s.bases if isinstance(b, ast.Name)]
        if bases and (bases[0] in EXC_BASES):
            EXC_BASES[s.name] = bases[0]
            self.local_excs.add(s.name)
            return [Out('fall', st)]
        raise Unbound('local class %s' % s.name)

    def st_Expr(self, s, st):
        if isinstance(s.value, ast.Constant):
            return [Out('fall', st)]  # docstring
        if isinstance(s.value, (ast.Yield, ast.YieldFrom)):
            return self.do_yield(s.value, st)
        return outs_from(self.ev(s.value, st))

    def st_Assign(self, s, st):
        if len(s.targets) != 1:
            raise Unbound('multiple assignment targets')
        tg = s.targets[0]

        def f(v, s2):
            if isinstance(v.t, TDictDisplay):
                v = self.type_display(v, tg, s2)
            rs = self.assign(tg, v, s2, s)
            # alias bookkeeping: local bound to a container that lives at an l-value path
            if isinstance(tg, ast.Name) and isinstance(v.t, (TList, TDict, TRec)) and \
                    isinstance(s.value, (ast.Attribute, ast.Subscript, ast.Name)):
                for r in rs:
                    if r.exc is None:
                        org = self.origin_of(s.value, r.st)
                        if org is not None:
                            r.st.origin[tg.id] = org
            elif isinstance(tg, ast.Name) and isinstance(v.t, (TList, TDict, TRec)) and isinstance(s.value, ast.Call) and \
                    isinstance(s.value.func, ast.Attribute) and s.value.func.attr in ('setdefault', 'get') and s.value.args:
                # d.setdefault(k, x) / d.get(k) return the element object itself: the local is a reference to d[k]
                for r in rs:
                    if r.exc is None:
                        po = self.origin_of(s.value.func.value, r.st)
                        ks = [x for x in self.ev(s.value.args[0], r.st.copy()) if x.exc is None]
                        if po is not None and len(ks) == 1:
                            r.st.origin[tg.id] = ('sub', po, None, ks[0].val)
            return rs
        return outs_from(bind(self.ev(s.value, st), f))

    def type_display(self, v, tg, st):
        """a dict display gets the declared type of where it is stored"""
        ty = self.target_type(tg, st)
        if ty is None:
            raise Unbound('dict display stored where no type is declared (line %s)' % tg.lineno)
        return self.display_to(v, ty, st)

    def display_to(self, v, ty, st):
        ks, vs, oid = v.z
        if isinstance(ty, TOpt):
            inner = self.display_to(v, ty.t, st)
            return SV(ty, ty.dt.some(inner.z))
        if isinstance(ty, TRec):
            z = self.rec_empty(ty, oid)
            cur = SV(ty, z)
            for k, x in zip(ks, vs):
                if isinstance(x.t, TDictDisplay):
                    lit = self.lit_key(k)
                    sub = ty.fields[lit] if lit in ty.fields else ty.rest.val
                    x = self.display_to(x, sub, st)
                r = [r for r in self.setitem(cur, k, x, st, ast.Constant(value=0, lineno=0)) if r.exc is None]
                cur = r[0].val
            return cur
        if isinstance(ty, TDict):
            cur = SV(ty, d_empty(ty, oid))
            for k, x in zip(ks, vs):
                if isinstance(x.t, TDictDisplay):
                    x = self.display_to(x, ty.val, st)
                cur = SV(ty, d_store(ty, cur.z, self.coerce(k, ty.key, st).z, self.coerce(x, ty.val, st).z))
            return cur
        if ty is ANY:
            # stored where only an opaque value is declared: the content is dropped (sound: ANY says nothing about it)
            return fresh_sv(ANY, 'display')
        raise Unbound('dict display used as %s' % ty)

    def target_type(self, tg, st):
        if isinstance(tg, ast.Name):
            if tg.id in self.c.locals:
                return self.c.locals[tg.id]
            if tg.id in st.loc:
                return st.loc[tg.id].t
            return None
        if isinstance(tg, ast.Attribute):
            rs = [r for r in self.ev(tg.value, st.copy()) if r.exc is None]
            if rs and isinstance(rs[0].val.t, TRef):
                r = find_field(rs[0].val.t.cls, tg.attr)
                return r[1] if r else None
            return None
        if isinstance(tg, ast.Subscript):
            ct = self.target_type(tg.value, st)
            if ct is None:
                rs = [r for r in self.ev(tg.value, st.copy()) if r.exc is None]
                ct = rs[0].val.t if rs else None
            if isinstance(ct, TDict):
                return ct.val
            if isinstance(ct, TList):
                return ct.elem
            if isinstance(ct, TRec):
                k = tg.slice
                if isinstance(k, ast.Constant) and k.value in ct.fields:
                    return ct.fields[k.value]
                return ct.rest.val if ct.rest else None
        return None

    def st_AnnAssign(self, s, st):
        if s.value is None:
            return [Out('fall', st)]
        return self.st_Assign(ast.Assign(targets=[s.target], value=s.value, lineno=s.lineno), st)

    def st_AugAssign(self, s, st):
        # x op= e   ==  x = x op e   (lists: in-place extend keeps identity)
        load = self.as_load(s.target)

        def f(vals, s2):
            cur, rhs = vals
            if isinstance(cur.t, TList) and isinstance(s.op, ast.Add):
                new = self.list_concat(cur, rhs, s2)
                new = SV(new.t, new.t.mk(l_len(new.t, new.z), l_at(new.t, new.z), l_oid(cur.t, cur.z)))
                if isinstance(s.target, ast.Name):
                    return self.assign_container(s.target, new, s2, s)
                return self.assign(s.target, new, s2, s)
            return bind(self.binop(s.op, cur, rhs, s2, s), lambda v, s3: self.assign(s.target, v, s3, s))
        return outs_from(bind(self.ev_list([load, s.value], st), f))

    def as_load(self, t):
        t2 = ast.parse(ast.unparse(t), mode='eval').body
        ast.copy_location(t2, t)
        for n in ast.walk(t2):
            n.lineno = getattr(t, 'lineno', 0)
        return t2

    def st_Delete(self, s, st):
        outs = [Out('fall', st)]
        for tg in s.targets:
            nxt = []
            for o in outs:
                if o.kind != 'fall':
                    nxt.append(o)
                    continue
                nxt.extend(self.delete(tg, o.st, s))
            outs = nxt
        return outs

    def delete(self, tg, st, node):
        if not isinstance(tg, ast.Subscript):
            raise Unbound('del of %s' % type(tg).__name__)

        def f(vals, s):
            c, k = vals
            t = c.t
            if not isinstance(t, TDict):
                raise Unbound('del on %s' % t)
            k = self.coerce(k, t.key, s)
            has = z3.Select(d_dom(t, c.z), k.z)
            s_bad = s.copy().assume(z3.Not(has)).note('L%s: del of a missing key' % node.lineno)
            s_ok = s.copy().assume(has)
            nk = fresh_sv(t.keys_t, 'keys_after_del')
            npos = fresh('pos_after_del', z3.ArraySort(t.key.sort(), z3.IntSort()))
            new = SV(t, t.dt.mk(z3.Store(d_dom(t, c.z), k.z, z3.BoolVal(False)), d_val(t, c.z), nk.z, npos,
                                d_oid(t, c.z)))
            s_ok.assume(l_len(t.keys_t, nk.z) == l_len(t.keys_t, d_keys(t, c.z)) - 1)
            s_ok.assume(d_wf(t, new.z, FA))
            return [Res(s_bad, exc='KeyError', node=node)] + self.assign_container(tg.value, new, s_ok, node)
        return outs_from(bind(self.ev_list([tg.value, tg.slice], st), f))

    def st_Return(self, s, st):
        if s.value is None:
            return [Out('return', st, val=NONE_V)]
        return outs_from(self.ev(s.value, st), 'return')

    def st_Break(self, s, st):
        return [Out('break', st)]

    def st_Continue(self, s, st):
        return [Out('continue', st)]

    def st_Raise(self, s, st):
        if s.exc is None:
            cur = st.loc.get('$exc')
            if cur is None:
                raise Unbound('bare raise outside handler')
            return [Out('raise', st, exc=cur.t.cls, node=s)]

        def f(v, s2):
            if isinstance(v.t, TExc):
                return [Res(s2.note('L%s: raise %s' % (s.lineno, v.t.cls)), exc=v.t.cls, node=s)]
            if isinstance(v.t, TType):
                return [Res(s2.note('L%s: raise %s' % (s.lineno, v.t.pyname)), exc=v.t.pyname, node=s)]
            raise Unbound('raise of %s' % v.t)
        if isinstance(s.exc, ast.Name) and s.exc.id in EXC_BASES and s.exc.id not in st.loc:
            return [Out('raise', st.note('L%s: raise %s' % (s.lineno, s.exc.id)), exc=s.exc.id, node=s)]
        return outs_from(bind(self.ev(s.exc, st), f))

    def st_Assert(self, s, st):
        def f(v, s2):
            tv = self.truthy(v)
            return [Res(s2.copy().assume(z3.Not(tv)), exc='AssertionError', node=s), Res(s2.copy().assume(tv))]
        return outs_from(bind(self.ev(s.test, st), f))

    def st_If(self, s, st):
        outs = []
        for r in self.ev(s.test, st):
            if r.exc is not None:
                outs.append(Out('raise', r.st, exc=r.exc, node=r.node))
                continue
            tv = self.truthy(r.val)
            stv = z3.simplify(tv)
            # branches decided by a literal already assumed on this path (e.g. a precondition `not flag`)
            if z3.Not(tv).get_id() in r.st.known or z3.Not(stv).get_id() in r.st.known:
                stv = z3.BoolVal(False)
            elif tv.get_id() in r.st.known or stv.get_id() in r.st.known:
                stv = z3.BoolVal(True)
            if not z3.is_false(stv) and not z3.is_true(stv) and not s.orelse:
                m = self.merged_if(s, r.st, tv)
                if m is not None:
                    outs.append(Out('fall', m))
                    continue
            if not z3.is_false(stv):
                s1 = r.st.copy().assume(tv).note('L%s: if-true' % s.lineno)
                outs.extend(self.block(s.body, s1))
            if not z3.is_true(stv):
                s2 = r.st.copy().assume(z3.Not(tv)).note('L%s: if-false' % s.lineno)
                outs.extend(self.block(s.orelse, s2) if s.orelse else [Out('fall', s2)])
        return outs

    def merged_if(self, s, st, tv):
        """`if c: x = e; ...` whose body only rebinds locals to values of the type they already have and cannot raise:
        one state with x = ite(c, e, x) instead of two paths (keeps chains of optional-key tests linear)"""
        if not all(isinstance(b, ast.Assign) and len(b.targets) == 1 and isinstance(b.targets[0], ast.Name) for b in s.body):
            return None
        n_ob = len(self.obligations)
        s1 = st.copy().assume(tv)
        try:
            res = self.block(s.body, s1)
        except Unbound:
            del self.obligations[n_ob:]
            return None
        ok = len(res) == 1 and res[0].kind == 'fall'
        if ok:
            e = res[0].st
            ok = (e.alloc is st.alloc and e.next_oid is st.next_oid and set(e.heap) == set(st.heap)
                  and all(e.heap[k] is st.heap[k] for k in st.heap) and set(e.ghost) == set(st.ghost)
                  and all(e.ghost[k] is st.ghost[k] for k in st.ghost) and set(e.loc) == set(st.loc))
        changed = {}
        if ok:
            for n, v in e.loc.items():
                o = st.loc[n]
                if v is o:
                    continue
                if v.t != o.t or v.z is None or o.z is None or not z3.is_expr(v.z) or not z3.is_expr(o.z) or v.z.sort() != o.z.sort():
                    ok = False
                    break
                changed[n] = SV(v.t, z3.If(tv, v.z, o.z))
        if not ok:
            del self.obligations[n_ob:]
            return None
        m = st.copy().note('L%s: if (merged)' % s.lineno)
        for c in e.pc[len(s1.pc):]:
            m.pc.append(z3.Implies(tv, c))
        for n, v in changed.items():
            m.loc[n] = v
            m.origin.pop(n, None)
        return m

    # try ----------------------------------------------------------------------------------
    def st_Try(self, s, st):
        outs = []
        body = self.block(s.body, st)
        pending = []
        for o in body:
            if o.kind == 'raise':
                handled = False
                for h in s.handlers:
                    names = self.handler_names(h)
                    if names is None or any(exc_is(o.exc, n) for n in names):
                        hs = o.st.copy().note('L%s: except %s' % (h.lineno, '/'.join(names or ['*'])))
                        if h.name:
                            hs.loc[h.name] = SV(TExc(o.exc), None)
                        saved = hs.loc.get('$exc')
                        hs.loc['$exc'] = SV(TExc(o.exc), None)
                        for ho in self.block(h.body, hs):
                            if h.name:
                                ho.st.loc.pop(h.name, None)   # python unbinds the name at the end of the clause
                            if saved is None:
                                ho.st.loc.pop('$exc', None)
                            else:
                                ho.st.loc['$exc'] = saved
                            pending.append(ho)
                        handled = True
                        break
                if not handled:
                    pending.append(o)
            elif o.kind == 'fall' and s.orelse:
                pending.extend(self.block(s.orelse, o.st))
            else:
                pending.append(o)
        if not s.finalbody:
            return pending
        for o in pending:
            for fo in self.block(s.finalbody, o.st):
                if fo.kind == 'fall':
                    outs.append(Out(o.kind, fo.st, val=o.val, exc=o.exc, node=o.node))
                else:
                    outs.append(fo)   # finally overrides
        return outs

    def handler_names(self, h):
        if h.type is None:
            return None
        if isinstance(h.type, ast.Name):
            return [h.type.id]
        if isinstance(h.type, ast.Tuple):
            return [x.id for x in h.type.elts]
        if isinstance(h.type, ast.Attribute):
            return [h.type.attr]
        raise Unbound('except clause')

    # loops --------------------------------------------------------------------------------
    def iter_view(self, v, st, node):
        """-> (length z3 Int, elem(i) -> SV, description)"""
        t = v.t
        if isinstance(t, TList):
            return l_len(t, v.z), (lambda i: SV(t.elem, z3.Select(l_at(t, v.z), i)))
        if isinstance(t, TDict):
            k = d_keys(t, v.z)
            st.assume(d_wf(t, v.z, FA))
            return l_len(t.keys_t, k), (lambda i: SV(t.key, z3.Select(l_at(t.keys_t, k), i)))
        if isinstance(t, TKeys):
            d = t.d
            k = d_keys(d, v.z)
            st.assume(d_wf(d, v.z, FA))
            return l_len(d.keys_t, k), (lambda i: SV(d.key, z3.Select(l_at(d.keys_t, k), i)))
        if isinstance(t, TItems):
            d = t.d
            k = d_keys(d, v.z)
            st.assume(d_wf(d, v.z, FA))

            def el(i):
                key = z3.Select(l_at(d.keys_t, k), i)
                return SV(TTuple([d.key, d.val]), (SV(d.key, key), SV(d.val, z3.Select(d_val(d, v.z), key))))
            return l_len(d.keys_t, k), el
        if isinstance(t, TValues):
            d = t.d
            k = d_keys(d, v.z)
            st.assume(d_wf(d, v.z, FA))
            return l_len(d.keys_t, k), (lambda i: SV(d.val, z3.Select(d_val(d, v.z), z3.Select(l_at(d.keys_t, k), i))))
        if isinstance(t, TRange):
            lo, hi = v.z
            return z3.If(hi > lo, hi - lo, 0), (lambda i: SV(INT, lo + i))
        raise Unbound('iteration over %s (line %s)' % (t, node.lineno))

    def assigned_in(self, stmts):
        names, fields, calls = set(), set(), []
        for s in stmts:
            for n in ast.walk(s):
                if isinstance(n, (ast.Assign, ast.AugAssign, ast.AnnAssign, ast.For, ast.Delete)):
                    tgs = n.targets if isinstance(n, (ast.Assign, ast.Delete)) else [n.target]
                    for tg in tgs:
                        self._targets(tg, names, fields)
                elif isinstance(n, ast.Call):
                    calls.append(n)
                    if isinstance(n.func, ast.Attribute) and n.func.attr in ('append', 'pop', 'extend', 'remove', 'clear', 'update', 'insert'):
                        self._targets(n.func.value, names, fields)
                elif isinstance(n, ast.ExceptHandler) and n.name:
                    names.add(n.name)
        return names, fields, calls

    def _targets(self, tg, names, fields):
        if isinstance(tg, ast.Name):
            names.add(tg.id)
        elif isinstance(tg, (ast.Tuple, ast.List)):
            for x in tg.elts:
                self._targets(x, names, fields)
        elif isinstance(tg, ast.Attribute):
            fields.add(tg.attr)
        elif isinstance(tg, ast.Subscript):
            self._targets(tg.value, names, fields)

    def havoc_loop(self, body, st, extra_names=()):
        """havoc everything the loop body may change; frames come from the invariant"""
        names, fields, calls = self.assigned_in(body)
        for n in sorted(names | set(extra_names)):
            if n in st.loc:
                v = st.loc[n]
                if isinstance(v.t, (TTuple, TType, TExc, TRange, TItems, TValues, TDictDisplay)) or v.t is NONE:
                    raise Unbound('loop-carried local %s of type %s' % (n, v.t))
                if (isinstance(v.t, (TList, TDict)) and (getattr(v.t, 'elem', None) is NONE or getattr(v.t, 'val', None) is NONE)):
                    raise Unbound('loop-carried local %s is an untyped empty container: declare it in contract.locals' % n)
                st.loc[n] = fresh_sv(v.t, 'lv_' + n)
                st.type_facts(st.loc[n])
                st.origin.pop(n, None)
        mods = set()
        for f in fields:
            for cn, cd in CLASSES.items():
                if f in cd.fields:
                    mods.add((cn, f))
        ghosts = set()
        allocs = False
        for c in self.callee_contracts(calls, st):
            for m in list(c.modifies) + list(c.ghost_mods):
                if m.startswith('$'):
                    ghosts.add(m[1:])
                else:
                    cls, f = m.split('.')
                    r = find_field(cls, f)
                    mods.add((r[0], f))
            allocs = allocs or c.allocates
        for (cn, f) in sorted(mods):
            ty = CLASSES[cn].fields[f]
            st.heap[(cn, f)] = fresh('HL_%s.%s' % (cn, f), z3.ArraySort(RefS, ty.sort()))
            self.invalidate_aliases(st, cn, f, None)
        for g in sorted(ghosts):
            st.ghost[g] = fresh_sv(st.ghost[g].t, 'gl_' + g)
            st.type_facts(st.ghost[g])
        # allocation may have happened
        a2 = fresh('allocL', z3.ArraySort(RefS, z3.BoolSort()))
        old = st.alloc
        st.assume(FA('ref', lambda r: z3.Implies(z3.Select(old, r), z3.Select(a2, r))))
        st.alloc = a2
        o2 = fresh('next_oidL', z3.IntSort())
        st.assume(o2 >= st.next_oid)
        st.next_oid = o2
        return mods

    def callee_contracts(self, calls, st):
        """contracts possibly invoked by the call nodes (syntactic over-approximation by method name)"""
        out = []
        for n in calls:
            d = dotted(n.func)
            if d in CONTRACTS:
                out.append(CONTRACTS[d])
                continue
            if isinstance(n.func, ast.Attribute):
                m = n.func.attr
                for q, c in CONTRACTS.items():
                    if q.endswith('.' + m):
                        out.append(c)
            elif isinstance(n.func, ast.Name):
                if n.func.id in CONTRACTS:
                    out.append(CONTRACTS[n.func.id])
            else:
                # computed callee: every function-typed contract of the same property group
                for q, c in CONTRACTS.items():
                    if q.startswith('fun:') and (set(c.props) & set(self.c.props)):
                        out.append(c)
        return out

    def st_For(self, s, st):
        if s.orelse:
            raise Unbound('for-else')
        ordinal = self.loop_ordinal(s)
        inv = self.c.loops.get(ordinal)
        if inv is None:
            raise Unbound('loop #%d (line %s) has no invariant in the contract' % (ordinal, s.lineno))
        outs = []
        for r in self.ev(s.iter, st):
            if r.exc is not None:
                outs.append(Out('raise', r.st, exc=r.exc, node=r.node))
                continue
            outs.extend(self.for_loop(s, r.val, r.st, inv, ordinal))
        return outs

    def for_loop(self, s, itv, st, inv, ordinal):
        n, elem = self.iter_view(itv, st, s)
        st.assume(n >= 0)
        it_sv = itv if isinstance(itv.t, TList) else None
        # init
        C = Ctx(self, st, self.entry, self.params, k=z3.IntVal(0), it=it_sv)
        g = self.spec(inv, C, 'invariant of loop #%d' % ordinal)
        self.oblige('loop%d.init' % ordinal, st, g, node=s, extra_hyps=C.side)
        # arbitrary iteration
        sh = st.copy()
        tnames = set()
        self._targets(s.target, tnames, set())
        self.havoc_loop(s.body, sh)
        k = fresh('k%d' % ordinal, z3.IntSort())
        sh_base = sh.copy()
        Ch = Ctx(self, sh, self.entry, self.params, k=k, it=it_sv)
        invh = self.spec(inv, Ch, 'invariant of loop #%d' % ordinal)
        sh.assume(*Ch.side)
        sh.assume(invh)
        # body
        sb = sh.copy().assume(0 <= k, k < n).note('L%s: loop#%d iteration k' % (s.lineno, ordinal))
        x = elem(k)
        sb.type_facts(x) if not isinstance(x.t, TTuple) else [sb.type_facts(y) for y in x.z]
        outs = []
        for r in self.assign(s.target, x, sb, s):
            self.loop_stack.append(k)
            try:
                body_outs = self.block(s.body, r.st)
            finally:
                self.loop_stack.pop()
            for o in body_outs:
                if o.kind in ('fall', 'continue'):
                    C2 = Ctx(self, o.st, self.entry, self.params, k=k + 1, it=it_sv)
                    g2 = self.spec(inv, C2, 'invariant of loop #%d' % ordinal)
                    self.oblige('loop%d.preserve' % ordinal, o.st, g2, node=s, extra_hyps=C2.side)
                elif o.kind == 'break':
                    outs.append(Out('fall', o.st))
                else:
                    outs.append(o)
        # exit
        # exit: the invariant with k := n (syntactically, so that triggers match)
        se = sh_base.note('L%s: loop#%d exit' % (s.lineno, ordinal))
        Ce = Ctx(self, se, self.entry, self.params, k=n, it=it_sv)
        inve = self.spec(inv, Ce, 'invariant of loop #%d' % ordinal)
        se.assume(*Ce.side)
        se.assume(inve)
        outs.append(Out('fall', se))
        return outs

    def st_While(self, s, st):
        if s.orelse:
            raise Unbound('while-else')
        ordinal = self.loop_ordinal(s)
        inv = self.c.loops.get(ordinal)
        if inv is None:
            raise Unbound('loop #%d (line %s) has no invariant in the contract' % (ordinal, s.lineno))
        C = Ctx(self, st, self.entry, self.params)
        self.oblige('loop%d.init' % ordinal, st, self.spec(inv, C, 'invariant of loop #%d' % ordinal), node=s, extra_hyps=C.side)
        sh = st.copy()
        self.havoc_loop(s.body, sh)
        Ch = Ctx(self, sh, self.entry, self.params)
        invh = self.spec(inv, Ch, 'invariant of loop #%d' % ordinal)
        sh.assume(*Ch.side)
        sh.assume(invh)
        outs = []
        for r in self.ev(s.test, sh):
            if r.exc is not None:
                outs.append(Out('raise', r.st, exc=r.exc, node=r.node))
                continue
            tv = self.truthy(r.val)
            sb = r.st.copy().assume(tv).note('L%s: while#%d iteration' % (s.lineno, ordinal))
            for o in self.block(s.body, sb):
                if o.kind in ('fall', 'continue'):
                    C2 = Ctx(self, o.st, self.entry, self.params)
                    self.oblige('loop%d.preserve' % ordinal, o.st, self.spec(inv, C2, 'invariant of loop #%d' % ordinal), node=s, extra_hyps=C2.side)
                elif o.kind == 'break':
                    outs.append(Out('fall', o.st))
                else:
                    outs.append(o)
            outs.append(Out('fall', r.st.copy().assume(z3.Not(tv)).note('L%s: while#%d exit' % (s.lineno, ordinal))))
        return outs

    def loop_ordinal(self, node):
        """syntactic ordinal of a loop inside the function (source order)"""
        if not hasattr(self, '_loops'):
            self._loops = [n for n in ast.walk(self.fn) if isinstance(n, (ast.For, ast.While))]
            self._loops.sort(key=lambda n: (n.lineno, n.col_offset))
        for i, n in enumerate(self._loops):
            if n is node:
                return i
        raise Unbound('loop not found')

    def do_yield(self, y, st):
        """a yield may resume normally or be the point where the generator is closed (GeneratorExit raised here)"""
        outs = []
        rs = self.ev(y.value, st) if y.value is not None else [Res(st, NONE_V)]
        for r in rs:
            if r.exc is not None:
                outs.append(Out('raise', r.st, exc=r.exc, node=r.node))
                continue
            g = r.st.ghost.get('yields')
            if g is not None:
                r.st.ghost['yields'] = SV(INT, g.z + 1)
            outs.append(Out('fall', r.st))
            outs.append(Out('raise', r.st.copy().note('L%s: generator closed at this yield' % y.lineno), exc='GeneratorExit', node=y))
        return outs


# ----------------------------------------------------------------------------------------------
# per-function driver
# ----------------------------------------------------------------------------------------------

def strip_docstring(body):
    if body and isinstance(body[0], ast.Expr) and isinstance(body[0].value, ast.Constant) and isinstance(body[0].value.value, str):
        return body[1:]
    return body


def verify_function(contract, fndef, prefix, ghost_decl=None, module_consts=None, executor_cls=FnExecutor):
    """symbolically execute the real body against its contract -> (executor with obligations)"""
    ex = executor_cls(contract, fndef, prefix, module_consts)
    st = State(ex)
    st.alloc = z3.Const('alloc0', z3.ArraySort(RefS, z3.BoolSort()))
    st.next_oid = z3.Const('next_oid0', z3.IntSort())
    for g, ty in (ghost_decl or {}).items():
        st.ghost[g] = fresh_sv(ty, 'g0_' + g)
        st.type_facts(st.ghost[g])
    params = {}
    argnames = [a.arg for a in fndef.args.args]
    if fndef.args.vararg is not None:
        argnames.append(fndef.args.vararg.arg)
    if fndef.args.kwarg is not None:
        argnames.append(fndef.args.kwarg.arg)     # **kw: a record of the keywords given
    declared = list(contract.params)
    if argnames != declared:
        raise Unbound('parameter list of %s is %s, contract declares %s' % (contract.qualname, argnames, declared))
    for n, ty in contract.params.items():
        v = fresh_sv(ty, 'p_' + n)
        params[n] = v
        st.loc[n] = v
        st.type_facts(v)
        if n == 'self':
            st.assume(v.z != NULL, z3.Select(st.alloc, v.z))
            ex.nonnull.add(v.z.decl().name())
            st.assume(ex.isinst(v.z, ty.cls))
    for n, ty in getattr(contract, 'closure', {}).items():
        v = fresh_sv(ty, 'cv_' + n)
        params[n] = v
        st.loc[n] = v
        st.type_facts(v)
    for n, v in getattr(contract, 'globals', {}).items():
        ex.module_consts[n] = v
    ex.params = params
    entry = st.copy()
    ex.entry = entry
    C = Ctx(ex, st, st, params)
    pre = ex.spec(contract.requires, C, 'precondition')
    st.assume(*C.side)
    st.assume(pre)
    ex.entry = st.copy()
    ex.pre_hyps = list(st.pc)
    # vacuity canary: `requires => False` must NOT be provable (a contradictory precondition would discharge everything)
    ex.oblige('canary.requires-satisfiable', st.copy(), z3.BoolVal(False), node=fndef, meta={'canary': True})
    outs = ex.block(strip_docstring(fndef.body), st)
    # exits
    for o in outs:
        if o.kind in ('fall', 'return'):
            res = o.val if (o.kind == 'return' and o.val is not None) else NONE_V
            try:
                res = ex.coerce(res, contract.returns, o.st) if contract.returns is not NONE else NONE_V
            except Unbound:
                if res.t is NONE and isinstance(contract.returns, (TRef, TOpt)):
                    res = ex.coerce(res, contract.returns, o.st)
                else:
                    raise
            C2 = Ctx(ex, o.st, ex.entry, params, result=res)
            post = ex.spec(contract.ensures, C2, 'postcondition')
            ex.oblige('post', o.st, post, node=o.node or fndef, extra_hyps=C2.side)
            # frame: heap arrays not listed in modifies must be unchanged
            allowed = set()
            for m in list(contract.modifies) + list(contract.ghost_mods):
                if not m.startswith('$'):
                    cls, f = m.split('.')
                    r = find_field(cls, f)
                    allowed.add((r[0], f))
            for key, arr in o.st.heap.items():
                if key in allowed:
                    continue
                a0 = ex._h0.get(key)
                if a0 is not None and not a0.eq(arr):
                    ex.oblige('frame.%s.%s' % key, o.st,
                              FA('ref', lambda r, arr=arr, a0=a0: z3.Implies(z3.Select(ex.entry.alloc, r), z3.Select(arr, r) == z3.Select(a0, r))))
            for gname, gv in o.st.ghost.items():
                if ('$' + gname) not in contract.modifies and ('$' + gname) not in contract.ghost_mods and not gv.z.eq(ex.entry.ghost[gname].z):
                    ex.oblige('frame.$%s' % gname, o.st, gv.z == ex.entry.ghost[gname].z)
        elif o.kind == 'raise':
            allowed = None
            for exc, cond in contract.raises.items():
                if exc_is(o.exc, exc):
                    allowed = (exc, cond)
                    break
            if allowed is None:
                ex.oblige('noexc.%s@L%s' % (o.exc, getattr(o.node, 'lineno', '?')), o.st, z3.BoolVal(False), node=o.node,
                          meta={'exception': o.exc})
            else:
                Cx = Ctx(ex, ex.entry, ex.entry, params)
                ex.oblige('exc.%s@L%s.allowed' % (o.exc, getattr(o.node, 'lineno', '?')), o.st, allowed[1](Cx),
                          node=o.node, extra_hyps=Cx.side, meta={'exception': o.exc})
                if allowed[0] in contract.exc_ensures:
                    C2 = Ctx(ex, o.st, ex.entry, params)
                    ex.oblige('exc.%s@L%s.post' % (o.exc, getattr(o.node, 'lineno', '?')), o.st,
                              contract.exc_ensures[allowed[0]](C2), node=o.node, extra_hyps=C2.side)
        else:
            raise Unbound('%s outside loop' % o.kind)
    return ex
