"""Bind sidecar contracts to the real source text in /repo's working tree (re-read on every run)."""
import ast
import os
import hashlib

REPO = os.environ.get('VERIF_REPO', '/repo')

_cache = {}


def parse_file(relpath, repo=None):
    repo = repo or REPO
    p = os.path.join(repo, relpath)
    key = (p, os.path.getmtime(p))
    if key not in _cache:
        import warnings
        with open(p, encoding='utf-8') as f:
            src = f.read()
        with warnings.catch_warnings():
            warnings.simplefilter('ignore')
            _cache[key] = (ast.parse(src, filename=p), src)
    return _cache[key]


def find_function(relpath, qualname, repo=None):
    """qualname: 'func', 'Class.method', 'Class.prop.setter', 'outer.inner' (nested def).
    -> ast.FunctionDef ; raises KeyError when the function no longer exists (=> unbound)."""
    tree, _ = parse_file(relpath, repo)
    parts = qualname.split('.')
    setter = False
    if parts[-1] in ('setter', 'getter'):
        setter = parts[-1] == 'setter'
        kind = parts.pop()
    else:
        kind = None
    node = tree
    for i, p in enumerate(parts):
        found = None
        body = node.body
        cands = []
        for n in body_walk(body, nested=(i > 0 and isinstance(node, (ast.FunctionDef, ast.AsyncFunctionDef)))):
            if isinstance(n, (ast.FunctionDef, ast.ClassDef, ast.AsyncFunctionDef)) and n.name == p:
                cands.append(n)
        if not cands:
            raise KeyError('%s: %s not found in %s' % (qualname, p, relpath))
        if i == len(parts) - 1 and kind is not None:
            for n in cands:
                decos = [ast.unparse(d) for d in n.decorator_list]
                if kind == 'setter' and any(d.endswith('.setter') for d in decos):
                    found = n
                if kind == 'getter' and 'property' in decos:
                    found = n
            if found is None:
                raise KeyError('%s: no %s for %s' % (qualname, kind, p))
        else:
            # plain: prefer the undecorated-by-setter definition
            plain = [n for n in cands if not any(ast.unparse(d).endswith('.setter') for d in getattr(n, 'decorator_list', []))]
            found = (plain or cands)[0]
        node = found
    return node


def body_walk(body, nested):
    """direct children; for functions also defs nested anywhere inside (try/if/with blocks)"""
    if not nested:
        for n in body:
            yield n
        return
    stack = list(body)
    while stack:
        n = stack.pop(0)
        yield n
        if isinstance(n, (ast.FunctionDef, ast.ClassDef, ast.AsyncFunctionDef)):
            continue
        for f in ('body', 'orelse', 'finalbody', 'handlers'):
            for c in getattr(n, f, []) or []:
                if isinstance(c, ast.ExceptHandler):
                    stack.extend(c.body)
                else:
                    stack.append(c)


def source_digest(fndef):
    return hashlib.sha256(ast.dump(fndef).encode()).hexdigest()[:16]
