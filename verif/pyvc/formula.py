"""K1 (pyvc) -- quantifier placeholders, recurrence-defined spec functions and grounding.

Queries sent to the solver are quantifier-free (DESIGN 2.2.8).  Contract authors write quantifiers as
``FA('idx', lambda i: ...)`` / ``EX(...)``; these return fresh z3 Bool *placeholders*.  `ground` takes
the satisfiability query Phi = hyps /\\ not goal and replaces every placeholder according to its
polarity in Phi:

  FA at +  (must hold)      -> conjunction of instances over the term pool      (weakening: sound for UNSAT)
  FA at -  (not forall)     -> one instance at fresh skolem constants           (exact)
  EX at +                   -> one instance at fresh skolem constants           (exact)
  EX at -                   -> disjunction over the pool under the negation     (weakening)

A SAT answer may therefore be spurious (an instance was missing) -- which is why every counterexample
is replayed on the real code before it is called a violation.
"""
import itertools
import z3
from .types import RefS, StrS, Ty, fresh, fresh_name, str_axioms

_Q = {}  # placeholder name -> (kind, pools, fn, at)
LAZY_FACTS = []   # typing facts produced while quantifier bodies are evaluated during grounding


_PATS = {}  # placeholder name -> explicit trigger function (bound consts -> list of terms)


def _mk(kind, args, pats):
    *pools, fn = args
    name = fresh_name('Q' + kind)
    _Q[name] = (kind, pools, fn)
    if pats is not None:
        _PATS[name] = pats
    return z3.Bool(name)


def FA(*args, pats=None):
    return _mk('FA', args, pats)


def EX(*args, pats=None):
    return _mk('EX', args, pats)


class _SortTy(Ty):
    def __init__(self, s):
        self._s = s
        self.name = 'sort:' + s.name()

    def sort(self):
        return self._s


def _pool_sort(p):
    if isinstance(p, Ty):
        return p.sort()
    return {'idx': z3.IntSort(), 'int': z3.IntSort(), 'ref': RefS, 'str': StrS, 'real': z3.RealSort()}[p]


# ----------------------------------------------------------------------------------------------
# recurrence-defined spec functions
# ----------------------------------------------------------------------------------------------

AXIOM_SCHEMAS = {}   # decl name -> fn(app) -> [facts]; assumed library facts instantiated at every occurrence


class RecFun:
    """f(p1..pn, k) with f(.., k<=0) = base(ps), f(.., k) = step(ps, k-1, f(.., k-1)).
    Extra passive index parameters are ordinary ps.  The definition is instantiated by `ground`
    at every application occurring in the query (and once more at the predecessor).

    `prefix_param`: index of the parameter that is the list's element array; the step function may read
    it only at index k (checked by proving the lemma below).  Then the *prefix lemma*
        p >= k  ==>  f(Store(a,p,v), .., k) == f(a, .., k)
    is proved once by induction (`lemma_obligations`) and instantiated at every application whose array
    argument is a Store term."""
    registry = {}

    def __init__(self, name, param_sorts, ret_sort, base, step, lemmas=(), prefix_param=0):
        self.name = name
        self.f = z3.Function(name, *param_sorts, z3.IntSort(), ret_sort)
        self.base, self.step = base, step
        self.lemmas = list(lemmas)  # each: lambda ps, k, f -> z3 Bool (proved by induction in selftest)
        self.prefix_param = prefix_param
        self.param_sorts = list(param_sorts)
        RecFun.registry[name] = self

    def __call__(self, *args):
        return self.f(*args)

    def defn(self, ps, k):
        app = self.f(*ps, k)
        km = z3.simplify(k - 1)
        return z3.If(k <= 0, app == self.base(*ps), app == self.step(*ps, km, self.f(*ps, km)))

    def congruence(self, a1, a2):
        """meta-lemma (holds for every recurrence, by induction on k): if base and step agree on [0,k)
        then the values at k agree.  Instantiated for two applications that differ only in array args."""
        n = a1.num_args()
        ps1 = [a1.arg(i) for i in range(n - 1)]
        ps2 = [a2.arg(i) for i in range(n - 1)]
        k = a1.arg(n - 1)
        if not k.eq(a2.arg(n - 1)):
            return None
        differ = False
        for x, y in zip(ps1, ps2):
            if x.eq(y):
                continue
            if not z3.is_array(x):
                return None
            differ = True
        if not differ:
            return None
        rs = self.f.range()
        ante = z3.And(self.base(*ps1) == self.base(*ps2),
                      FA('idx', lambda i: z3.Implies(z3.And(0 <= i, i < k),
                                                     FA(_SortTy(rs), lambda pv: self.step(*ps1, i, pv) == self.step(*ps2, i, pv)))))
        return z3.Implies(ante, a1 == a2)

    def unfold(self, app):
        *ps, k = [app.arg(i) for i in range(app.num_args())]
        out = [self.defn(ps, k)]
        for lem in self.lemmas:
            out.append(lem(ps, k, self.f))
            out.append(z3.Implies(k > 0, lem(ps, k - 1, self.f)))
        pp = self.prefix_param
        if pp is not None and z3.is_app(ps[pp]) and ps[pp].decl().kind() == z3.Z3_OP_STORE:
            a, p, _v = ps[pp].children()
            ps2 = list(ps)
            ps2[pp] = a
            out.append(z3.Implies(p >= k, app == self.f(*ps2, k)))
        return out

    def lemma_obligations(self):
        """induction: base and step, as (name, hyps, goal) with fresh params"""
        obs = []
        ps = [fresh('lp', s) for s in self.param_sorts]
        k = fresh('lk', z3.IntSort())
        for n, lem in enumerate(self.lemmas):
            obs.append(('lemma/%s#%d.base' % (self.name, n), [k <= 0, self.defn(ps, k)], lem(ps, k, self.f)))
            obs.append(('lemma/%s#%d.step' % (self.name, n), [k > 0, self.defn(ps, k), lem(ps, k - 1, self.f)],
                        lem(ps, k, self.f)))
        pp = self.prefix_param
        if pp is not None:
            srt = self.param_sorts[pp]
            p = fresh('lpos', z3.IntSort())
            v = fresh('lval', srt.range())
            ps2 = list(ps)
            ps2[pp] = z3.Store(ps[pp], p, v)
            eq = lambda kk: self.f(*ps2, kk) == self.f(*ps, kk)
            obs.append(('lemma/%s.prefix.base' % self.name, [k <= 0, p >= k, self.defn(ps, k), self.defn(ps2, k)], eq(k)))
            obs.append(('lemma/%s.prefix.step' % self.name,
                        [k > 0, p >= k, self.defn(ps, k), self.defn(ps2, k), eq(k - 1)], eq(k)))
        return obs


# ----------------------------------------------------------------------------------------------
# grounding
# ----------------------------------------------------------------------------------------------

class GroundingError(Exception):
    pass


def _placeholders(phi):
    """-> {name: polarity}, polarity in {+1,-1,0(both)}"""
    res = {}
    seen = set()

    def walk(e, pol):
        key = (e.get_id(), pol)
        if key in seen:
            return
        seen.add(key)
        if z3.is_const(e) and e.decl().kind() == z3.Z3_OP_UNINTERPRETED and z3.is_bool(e):
            nm = e.decl().name()
            if nm in _Q:
                if nm in res and res[nm] != pol:
                    res[nm] = 0
                else:
                    res.setdefault(nm, pol)
            return
        if not z3.is_app(e):
            return
        k = e.decl().kind()
        ch = e.children()
        if k == z3.Z3_OP_AND or k == z3.Z3_OP_OR:
            for c in ch:
                walk(c, pol)
        elif k == z3.Z3_OP_NOT:
            walk(ch[0], -pol)
        elif k == z3.Z3_OP_IMPLIES:
            walk(ch[0], -pol)
            walk(ch[1], pol)
        elif k == z3.Z3_OP_ITE and z3.is_bool(e):
            walk(ch[0], 0)
            walk(ch[1], pol)
            walk(ch[2], pol)
        else:
            for c in ch:
                walk(c, 0)

    walk(phi, 1)
    return res


def _subterms(phi):
    seen = {}
    stack = [phi]
    while stack:
        e = stack.pop()
        i = e.get_id()
        if i in seen:
            continue
        seen[i] = e
        if z3.is_app(e):
            stack.extend(e.children())
    return seen.values()


def _pools(phi, skolems, extra):
    """term pools by kind, computed from the current formula"""
    idx, ints, refs, strs, reals, bysort = {}, {}, {}, {}, {}, {}
    for e in _subterms(phi):
        if not z3.is_app(e):
            continue
        s = e.sort()
        k = e.decl().kind()
        if k == z3.Z3_OP_SELECT:
            i = e.arg(1)
            if i.sort() == z3.IntSort():
                idx[i.get_id()] = i
            elif i.sort() == z3.RealSort():
                reals[i.get_id()] = i
            else:
                bysort.setdefault(i.sort().name(), {})[i.get_id()] = i
        if k == z3.Z3_OP_STORE:
            i = e.arg(1)
            if i.sort() == z3.IntSort():
                idx[i.get_id()] = i
            elif i.sort() == z3.RealSort():
                reals[i.get_id()] = i
            else:
                bysort.setdefault(i.sort().name(), {})[i.get_id()] = i
        if s == RefS:
            refs[e.get_id()] = e
        elif s == StrS:
            strs[e.get_id()] = e
        elif k == z3.Z3_OP_UNINTERPRETED and e.num_args() == 0:
            if s == z3.IntSort():
                ints[e.get_id()] = e
            elif s == z3.RealSort():
                reals[e.get_id()] = e
            elif not z3.is_bool(e):
                bysort.setdefault(s.name(), {})[e.get_id()] = e
    for sk in skolems:
        s = sk.sort()
        if s == z3.IntSort():
            idx[sk.get_id()] = sk
        elif s == RefS:
            refs[sk.get_id()] = sk
        elif s == StrS:
            strs[sk.get_id()] = sk
        elif s == z3.RealSort():
            reals[sk.get_id()] = sk
        else:
            bysort.setdefault(s.name(), {})[sk.get_id()] = sk
    for t in extra:
        if t.sort() == z3.IntSort():
            idx[t.get_id()] = t
    ints.update(idx)
    return dict(idx=list(idx.values()), int=list(ints.values()), ref=list(refs.values()),
                str=list(strs.values()), real=list(reals.values()),
                bysort={k: list(v.values()) for k, v in bysort.items()})


def _pool_for(p, pools):
    if isinstance(p, Ty):
        s = p.sort()
        if s == z3.IntSort():
            return pools['int']
        if s == RefS:
            return pools['ref']
        if s == StrS:
            return pools['str']
        if s == z3.RealSort():
            return pools['real']
        return pools['bysort'].get(s.name(), [])
    return pools[p]



# ----------------------------------------------------------------------------------------------
# trigger-based instance selection (syntactic E-matching, arrays compared modulo Store chains)
# ----------------------------------------------------------------------------------------------
_ANALYSIS = {}


def _contains_any(e, ids, memo):
    i = e.get_id()
    if i in memo:
        return memo[i]
    if i in ids:
        memo[i] = True
        return True
    r = any(_contains_any(c, ids, memo) for c in e.children()) if z3.is_app(e) else False
    memo[i] = r
    return r


def _array_base(a):
    while z3.is_app(a) and a.decl().kind() == z3.Z3_OP_STORE:
        a = a.arg(0)
    return a


def _array_bases(a, out=None, depth=0):
    """ids of the arrays `a` may coincide with on part of its domain: through Store chains and ite"""
    if out is None:
        out = set()
    while z3.is_app(a) and a.decl().kind() == z3.Z3_OP_STORE:
        a = a.arg(0)
    if z3.is_app(a) and a.decl().kind() == z3.Z3_OP_ITE and depth < 6:
        _array_bases(a.arg(1), out, depth + 1)
        _array_bases(a.arg(2), out, depth + 1)
    out.add(a.get_id())
    return out


_MATCH_HEADS = (z3.Z3_OP_SELECT, z3.Z3_OP_UNINTERPRETED, z3.Z3_OP_DT_ACCESSOR, z3.Z3_OP_DT_CONSTRUCTOR)


def _analyze(nm):
    """-> (bound consts, patterns, explicit?); pattern = (term, set of var indices, tier).
    A pattern is a Select / uninterpreted application containing bound variables in which every
    variable-containing argument is itself a bound variable or a (nested) matchable application."""
    if nm in _ANALYSIS:
        return _ANALYSIS[nm]
    kind, ps, fn = _Q[nm]
    bs = [fresh('bv', _pool_sort(p)) for p in ps]
    keep = list(LAZY_FACTS)
    body = fn(*bs)
    pat_terms = _PATS[nm](*bs) if nm in _PATS else None
    LAZY_FACTS[:] = keep      # facts about the analysis-only bound constants are of no use
    ids = {b.get_id(): n for n, b in enumerate(bs)}
    memo = {}
    mmemo = {}

    def matchable(e):
        """e contains vars; can it be matched structurally?"""
        i = e.get_id()
        if i in mmemo:
            return mmemo[i]
        if i in ids:
            r = True
        elif not z3.is_app(e) or e.decl().kind() not in _MATCH_HEADS:
            r = False
        else:
            r = all((not _contains_any(c, ids, memo)) or matchable(c) for c in e.children())
        mmemo[i] = r
        return r

    def vars_of(e, acc):
        if e.get_id() in ids:
            acc.add(ids[e.get_id()])
        elif z3.is_app(e):
            for c in e.children():
                if _contains_any(c, ids, memo):
                    vars_of(c, acc)
        return acc

    pats = []
    explicit = None
    src = body
    if pat_terms is not None:
        explicit = {t.get_id() for t in pat_terms}
        src = z3.And(body, *[t == t for t in pat_terms])
    for e in _subterms(src):
        if not z3.is_app(e) or e.num_args() == 0:
            continue
        k = e.decl().kind()
        if k not in (z3.Z3_OP_SELECT, z3.Z3_OP_UNINTERPRETED):
            continue
        if not _contains_any(e, ids, memo) or not matchable(e):
            continue
        if explicit is not None and e.get_id() not in explicit:
            continue
        tier = 0
        if z3.is_bool(e):
            tier = 2 if (k == z3.Z3_OP_SELECT and e.arg(0).sort().domain() == RefS) else 0
        if explicit is not None:
            tier = 0
        pats.append((e, vars_of(e, set()), tier))
    _ANALYSIS[nm] = (bs, pats, explicit is not None, ids, memo)
    return _ANALYSIS[nm]


def _match(p, g, ids, memo, binding):
    """structural match of pattern p against ground term g; arrays that are ground in the pattern are
    compared modulo Store chains / ite.  Extends `binding` (var index -> term); -> bool"""
    pi = p.get_id()
    if pi in ids:
        v = ids[pi]
        if p.sort() != g.sort():
            return False
        if v in binding:
            return binding[v].eq(g)
        binding[v] = g
        return True
    if not _contains_any(p, ids, memo):
        if p.eq(g):
            return True
        if z3.is_array(p) and z3.is_array(g) and p.sort() == g.sort():
            return bool(_array_bases(p) & _array_bases(g))
        return False
    if z3.is_array(g):
        g = _array_base(g)
    if not z3.is_app(g) or g.num_args() != p.num_args():
        return False
    dp, dg = p.decl(), g.decl()
    if dp.kind() != dg.kind():
        return False
    if dp.kind() in (z3.Z3_OP_UNINTERPRETED, z3.Z3_OP_DT_ACCESSOR, z3.Z3_OP_DT_CONSTRUCTOR) and not dp.eq(dg):
        return False
    for i in range(p.num_args()):
        if not _match(p.arg(i), g.arg(i), ids, memo, binding):
            return False
    return True


def _index_ground(phi):
    raise NotImplementedError


def _trigger_candidates(nm, index):
    """-> ('tuples', [tuple of terms]) when some pattern binds all variables (joint matches only), else a
    per-variable list of candidate terms (None for a variable without pattern).  Patterns are tried in tiers
    (0: non-boolean terms, 1: membership tests, 2: allocation guards); first tier that yields anything wins."""
    bs, pats, is_explicit, ids, memo = _analyze(nm)
    sel, uf, allsel = index
    n = len(bs)
    per_tier = [[None] * n for _ in range(3)]
    joint = [None, None, None]
    for (t, vs, tier) in pats:
        k = t.decl().kind()
        if k == z3.Z3_OP_SELECT:
            if _contains_any(t.arg(0), ids, memo):
                grounds = allsel
            else:
                grounds = []
                for b in _array_bases(t.arg(0)):
                    grounds.extend(sel.get(b, []))
        else:
            grounds = uf.get(t.decl().name(), [])
        cands = per_tier[tier]
        for v in vs:
            if cands[v] is None:
                cands[v] = {}
        covers = len(vs) == n and n > 1
        if covers and joint[tier] is None:
            joint[tier] = {}
        for g in grounds:
            if g.decl().kind() == z3.Z3_OP_STORE and k == z3.Z3_OP_SELECT:
                # a store mentions an index of the array: match (array, index) only
                binding = {}
                if not (_match(t.arg(0), g.arg(0), ids, memo, binding) and _match(t.arg(1), g.arg(1), ids, memo, binding)):
                    continue
            else:
                binding = {}
                if not _match(t, g, ids, memo, binding):
                    continue
            for v, term in binding.items():
                cands[v][term.get_id()] = term
            if covers and len(binding) == n:
                tup = tuple(binding[i] for i in range(n))
                joint[tier][tuple(x.get_id() for x in tup)] = tup
    for tier in range(3):
        if joint[tier]:
            return ('tuples', list(joint[tier].values()))
    if is_explicit and any(j is not None for j in joint):
        return ('tuples', [])
    out = []
    for v in range(n):
        chosen = None
        for tier in range(3):
            c = per_tier[tier][v]
            if c is not None:
                chosen = c if chosen is None else chosen
                if c:
                    chosen = c
                    break
        out.append(None if chosen is None else list(chosen.values()))
    return out


MAX_INST = 600
MAX_GEN = 4
_USED_DEBUG = {}
MAX_TOTAL = 6000


def ground(hyps, goal, extra_terms=(), rounds=10, unfold_depth=3, stats=None, triggers=True):
    """-> list of quantifier-free z3 assertions, equisatisfiable-or-weaker than hyps /\\ not goal.

    Incremental: the assertion list only grows; every assertion is traversed once.  A placeholder P stays
    in the formula as a free Boolean and is constrained by guarded instances:
        P weak-positive  (FA at +):   P  ==> body(t)        for candidate terms t
        P weak-negative  (EX at -):   body(t) ==> P
        P exact-negative (FA at -):   P \\/ not body(sk)     (fresh sk)
        P exact-positive (EX at +):   P ==> body(sk)
    which is equisatisfiable with substituting the (partial) expansion for P, because each rule only
    speaks about the polarity in which P occurs."""
    G = _Grounder(extra_terms, unfold_depth, triggers)
    G.add([h for h in hyps] + [z3.Not(goal)], 0)
    for rnd in range(1, rounds + 1):
        if not G.step(rnd):
            break
    G.step_exact(rounds + 1)
    if stats is not None:
        stats['instances'] = G.ninst
        stats['skolems'] = len(G.skolems)
        stats['unfoldings'] = len(G.done)
        stats['congruences'] = len(G.paired)
        stats['assertions'] = len(G.out)
    global _USED_DEBUG
    _USED_DEBUG = G.used
    return G.out + str_axioms()


class _Grounder:
    def __init__(self, extra_terms, unfold_depth, triggers):
        self.out = []
        self.seen = set()            # ids of visited subterms
        self.gen = {}                # term id -> round in which it first appeared
        self.sel = {}                # array-base id -> [select/store terms]
        self.uf = {}                 # decl name -> [applications]
        self.allsel = []             # every select/store term
        self.pool = dict(idx={}, int={}, ref={}, str={}, real={}, bysort={})
        self.ph = {}                 # placeholder name -> set of polarities {+1,-1}
        self.exact_done = set()      # (name, polarity) already skolemised
        self.used = {}
        self.skolems = []
        self.ninst = 0
        self.done = set()
        self._alive = []      # expressions whose ids are recorded below: kept alive so that z3 cannot recycle the ids
        self.recgen = {}
        self.recapps = []            # not yet unfolded applications of recurrence functions
        self.apps_by_fun = {}
        self.paired = set()
        self.unfold_depth = unfold_depth
        self.triggers = triggers
        self.pending_axioms = []
        for t in extra_terms:
            if t.sort() == z3.IntSort():
                self.pool['idx'][t.get_id()] = t
        del LAZY_FACTS[:]

    # -- registration of new assertions ---------------------------------------------------------
    def add(self, fs, rnd, skip_guard=None):
        for f in fs:
            self.out.append(f)
            self._polarity(f, 1)
            self._index(f, rnd)

    def _polarity(self, e, pol):
        """register placeholder occurrences along the boolean skeleton"""
        stack = [(e, pol)]
        seen = set()
        while stack:
            e, pol = stack.pop()
            key = (e.get_id(), pol)
            if key in seen:
                continue
            seen.add(key)
            if not z3.is_bool(e):
                continue
            if not z3.is_app(e):
                continue
            d = e.decl()
            k = d.kind()
            if k == z3.Z3_OP_UNINTERPRETED:
                if e.num_args() == 0:
                    nm = d.name()
                    if nm in _Q:
                        s = self.ph.setdefault(nm, set())
                        if pol == 0:
                            s.update((1, -1))
                        else:
                            s.add(pol)
                continue
            ch = e.children()
            if k == z3.Z3_OP_AND or k == z3.Z3_OP_OR:
                for c in ch:
                    stack.append((c, pol))
            elif k == z3.Z3_OP_NOT:
                stack.append((ch[0], -pol))
            elif k == z3.Z3_OP_IMPLIES:
                stack.append((ch[0], -pol))
                stack.append((ch[1], pol))
            elif k == z3.Z3_OP_ITE:
                stack.append((ch[0], 0))
                stack.append((ch[1], pol))
                stack.append((ch[2], pol))
            else:
                for c in ch:
                    if z3.is_bool(c):
                        stack.append((c, 0))

    def _index(self, f, rnd):
        stack = [f]
        seen = self.seen
        pool = self.pool
        while stack:
            e = stack.pop()
            i = e.get_id()
            if i in seen:
                continue
            seen.add(i)
            self.gen[i] = rnd
            if not z3.is_app(e):
                continue
            n = e.num_args()
            d = e.decl()
            k = d.kind()
            s = e.sort()
            if n:
                ch = e.children()
                stack.extend(ch)
                if k == z3.Z3_OP_SELECT or k == z3.Z3_OP_STORE:
                    for b in _array_bases(ch[0]):
                        self.sel.setdefault(b, []).append(e)
                    self.allsel.append(e)
                    ix = ch[1]
                    isrt = ix.sort()
                    if isrt == z3.IntSort():
                        pool['idx'][ix.get_id()] = ix
                    elif isrt == z3.RealSort():
                        pool['real'][ix.get_id()] = ix
                    elif isrt != RefS and isrt != StrS:
                        pool['bysort'].setdefault(isrt.name(), {})[ix.get_id()] = ix
                elif k == z3.Z3_OP_UNINTERPRETED:
                    nm = d.name()
                    self.uf.setdefault(nm, []).append(e)
                    if nm in RecFun.registry:
                        self.recapps.append(e)
                        self.recgen.setdefault(i, max(0, rnd - 1))
                    if nm in AXIOM_SCHEMAS and rnd < 3:
                        self.pending_axioms.extend(AXIOM_SCHEMAS[nm](e))
            if s == RefS:
                pool['ref'][i] = e
            elif s == StrS:
                pool['str'][i] = e
            elif n == 0 and k == z3.Z3_OP_UNINTERPRETED:
                if s == z3.IntSort():
                    pool['int'][i] = e
                elif s == z3.RealSort():
                    pool['real'][i] = e
                elif not z3.is_bool(e):
                    pool['bysort'].setdefault(s.name(), {})[i] = e

    def _pool_for(self, p):
        pool = self.pool
        if isinstance(p, Ty):
            s = p.sort()
            if s == z3.IntSort():
                return list(pool['int'].values()) + list(pool['idx'].values())
            if s == RefS:
                return list(pool['ref'].values())
            if s == StrS:
                return list(pool['str'].values())
            if s == z3.RealSort():
                return list(pool['real'].values())
            return list(pool['bysort'].get(s.name(), {}).values())
        if p == 'int':
            return list(pool['int'].values()) + list(pool['idx'].values())
        return list(pool[p].values())

    # -- one round ---------------------------------------------------------------------------------
    def step_exact(self, rnd):
        new = []
        for nm, pols in list(self.ph.items()):
            kind, ps, fn = _Q[nm]
            P = z3.Bool(nm)
            for pol in list(pols):
                exact = (kind == 'FA' and pol < 0) or (kind == 'EX' and pol > 0)
                if not exact or (nm, pol) in self.exact_done:
                    continue
                self.exact_done.add((nm, pol))
                sks = [fresh('sk', _pool_sort(p)) for p in ps]
                self.skolems.extend(sks)
                for sk in sks:
                    if sk.sort() == z3.IntSort():
                        self.pool['idx'][sk.get_id()] = sk
                body = fn(*sks)
                if kind == 'FA':
                    new.append((z3.Or(P, z3.Not(body)), body, -1))
                else:
                    new.append((z3.Implies(P, body), body, 1))
        return self._commit(new, rnd)

    def _commit(self, new, rnd):
        """new: (assertion, body, polarity of body inside the assertion)"""
        for (f, body, pol) in new:
            self.out.append(f)
            self._polarity(body, pol)
            self._index(f, rnd)
        if LAZY_FACTS:
            facts = list(LAZY_FACTS)
            del LAZY_FACTS[:]
            self.add(facts, rnd)
        return bool(new)

    def step(self, rnd):
        progress = self.step_rec(rnd)
        while self.step_exact(rnd):
            progress = True
        new = []
        index = (self.sel, self.uf, self.allsel)
        for nm, pols in list(self.ph.items()):
            kind, ps, fn = _Q[nm]
            P = z3.Bool(nm)
            for pol in list(pols):
                weak = (kind == 'FA' and pol > 0) or (kind == 'EX' and pol < 0)
                if not weak:
                    continue
                cands = [self._pool_for(p) for p in ps]
                tuples = None
                if self.triggers:
                    tc = _trigger_candidates(nm, index)
                    if isinstance(tc, tuple):
                        tuples = [ts for ts in tc[1] if all(self.gen.get(t.get_id(), 0) < MAX_GEN for t in ts)]
                    else:
                        cands = [c if t is None else t for c, t in zip(cands, tc)]
                        cands = [[t for t in c if self.gen.get(t.get_id(), 0) < MAX_GEN] for c in cands]
                if self.ninst > MAX_TOTAL:
                    raise GroundingError('more than %d quantifier instances' % MAX_TOTAL)
                seen = self.used.setdefault((nm, pol), set())
                for ts in (tuples if tuples is not None else itertools.product(*cands)):
                    key = tuple(t.get_id() for t in ts)
                    if key in seen:
                        continue
                    if len(seen) >= MAX_INST:
                        break
                    seen.add(key)
                    body = fn(*ts)
                    self.ninst += 1
                    if kind == 'FA':
                        new.append((z3.Implies(P, body), body, 1))
                    else:
                        new.append((z3.Implies(body, P), body, -1))
        if self._commit(new, rnd):
            progress = True
        return progress

    def step_rec(self, rnd):
        """definitions of recurrence functions at new occurrences + congruence instances for pairs"""
        new = []
        ax, self.pending_axioms = self.pending_axioms, []
        for f in ax:
            new.append((f, f, 1))
        apps, self.recapps = self.recapps, []
        for e in apps:
            rf = RecFun.registry.get(e.decl().name())
            if rf is None or e.get_id() in self.done:
                continue
            g = self.recgen.get(e.get_id(), 0)
            if g >= self.unfold_depth:
                continue
            self.done.add(e.get_id())
            self._alive.append(e)
            facts = rf.unfold(e)
            for f in facts:
                for e2 in _subterms(f):
                    if z3.is_app(e2) and e2.num_args() > 0 and e2.decl().kind() == z3.Z3_OP_UNINTERPRETED \
                            and e2.decl().name() in RecFun.registry and e2.get_id() not in self.recgen \
                            and e2.get_id() != e.get_id():
                        self.recgen[e2.get_id()] = g + 1
                        self._alive.append(e2)
            self.recgen.setdefault(e.get_id(), g)
            for f in facts:
                new.append((f, f, 1))
            lst = self.apps_by_fun.setdefault(rf.name, [])
            for a1 in lst:
                if len(self.paired) > 80:
                    break
                key = (a1.get_id(), e.get_id())
                if key in self.paired:
                    continue
                inst = rf.congruence(a1, e)
                if inst is not None:
                    self.paired.add(key)
                    new.append((inst, inst, 1))
            lst.append(e)
        return self._commit(new, rnd)
