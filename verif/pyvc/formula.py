"""K1 (pyvc) -- quantifier placeholders, recurrence-defined spec functions and grounding.

Queries sent to the solver are quantifier-free (DESIGN 2.2.8).  Contract authors write quantifiers as
``FA('idx', lambda i: ...)`` / ``EX(...)``; these return fresh z3 Bool *placeholders*.  `ground` takes
the satisfiability query Phi = hyps /\\ not goal and replaces every placeholder according to its
polarity in Phi:

  FA at +  (must hold)      -> conjunction of instances over the term pool      (weakening: sound for UNSAT)
  FA at -  (not forall)     -> one instance at fresh skolem constants           (exact)
  EX at +                   -> one instance at fresh skolem constants           (exact)
  EX at -                   -> disjunction over the pool under the negation     (weakening)

A SAT answer may therefore be spurious (an instance was missing) -- which is why every counterexample
is replayed on the real code before it is called a violation.
"""
import itertools
import z3
from .types import RefS, StrS, Ty, fresh, fresh_name, str_axioms

_Q = {}  # placeholder name -> (kind, pools, fn, at)
LAZY_FACTS = []   # typing facts produced while quantifier bodies are evaluated during grounding


_PATS = {}  # placeholder name -> explicit trigger function (bound consts -> list of terms)


def _mk(kind, args, pats):
    *pools, fn = args
    name = fresh_name('Q' + kind)
    _Q[name] = (kind, pools, fn)
    if pats is not None:
        _PATS[name] = pats
    return z3.Bool(name)


def FA(*args, pats=None):
    return _mk('FA', args, pats)


def EX(*args, pats=None):
    return _mk('EX', args, pats)


class _SortTy(Ty):
    def __init__(self, s):
        self._s = s
        self.name = 'sort:' + s.name()

    def sort(self):
        return self._s


def _pool_sort(p):
    if isinstance(p, Ty):
        return p.sort()
    return {'idx': z3.IntSort(), 'int': z3.IntSort(), 'ref': RefS, 'str': StrS, 'real': z3.RealSort()}[p]


# ----------------------------------------------------------------------------------------------
# recurrence-defined spec functions
# ----------------------------------------------------------------------------------------------

class RecFun:
    """f(p1..pn, k) with f(.., k<=0) = base(ps), f(.., k) = step(ps, k-1, f(.., k-1)).
    Extra passive index parameters are ordinary ps.  The definition is instantiated by `ground`
    at every application occurring in the query (and once more at the predecessor).

    `prefix_param`: index of the parameter that is the list's element array; the step function may read
    it only at index k (checked by proving the lemma below).  Then the *prefix lemma*
        p >= k  ==>  f(Store(a,p,v), .., k) == f(a, .., k)
    is proved once by induction (`lemma_obligations`) and instantiated at every application whose array
    argument is a Store term."""
    registry = {}

    def __init__(self, name, param_sorts, ret_sort, base, step, lemmas=(), prefix_param=0):
        self.name = name
        self.f = z3.Function(name, *param_sorts, z3.IntSort(), ret_sort)
        self.base, self.step = base, step
        self.lemmas = list(lemmas)  # each: lambda ps, k, f -> z3 Bool (proved by induction in selftest)
        self.prefix_param = prefix_param
        self.param_sorts = list(param_sorts)
        RecFun.registry[name] = self

    def __call__(self, *args):
        return self.f(*args)

    def defn(self, ps, k):
        app = self.f(*ps, k)
        km = z3.simplify(k - 1)
        return z3.If(k <= 0, app == self.base(*ps), app == self.step(*ps, km, self.f(*ps, km)))

    def congruence(self, a1, a2):
        """meta-lemma (holds for every recurrence, by induction on k): if base and step agree on [0,k)
        then the values at k agree.  Instantiated for two applications that differ only in array args."""
        n = a1.num_args()
        ps1 = [a1.arg(i) for i in range(n - 1)]
        ps2 = [a2.arg(i) for i in range(n - 1)]
        k = a1.arg(n - 1)
        if not k.eq(a2.arg(n - 1)):
            return None
        differ = False
        for x, y in zip(ps1, ps2):
            if x.eq(y):
                continue
            if not z3.is_array(x):
                return None
            differ = True
        if not differ:
            return None
        rs = self.f.range()
        ante = z3.And(self.base(*ps1) == self.base(*ps2),
                      FA('idx', lambda i: z3.Implies(z3.And(0 <= i, i < k),
                                                     FA(_SortTy(rs), lambda pv: self.step(*ps1, i, pv) == self.step(*ps2, i, pv)))))
        return z3.Implies(ante, a1 == a2)

    def unfold(self, app):
        *ps, k = [app.arg(i) for i in range(app.num_args())]
        out = [self.defn(ps, k)]
        for lem in self.lemmas:
            out.append(lem(ps, k, self.f))
            out.append(z3.Implies(k > 0, lem(ps, k - 1, self.f)))
        pp = self.prefix_param
        if pp is not None and z3.is_app(ps[pp]) and ps[pp].decl().kind() == z3.Z3_OP_STORE:
            a, p, _v = ps[pp].children()
            ps2 = list(ps)
            ps2[pp] = a
            out.append(z3.Implies(p >= k, app == self.f(*ps2, k)))
        return out

    def lemma_obligations(self):
        """induction: base and step, as (name, hyps, goal) with fresh params"""
        obs = []
        ps = [fresh('lp', s) for s in self.param_sorts]
        k = fresh('lk', z3.IntSort())
        for n, lem in enumerate(self.lemmas):
            obs.append(('lemma/%s#%d.base' % (self.name, n), [k <= 0, self.defn(ps, k)], lem(ps, k, self.f)))
            obs.append(('lemma/%s#%d.step' % (self.name, n), [k > 0, self.defn(ps, k), lem(ps, k - 1, self.f)],
                        lem(ps, k, self.f)))
        pp = self.prefix_param
        if pp is not None:
            srt = self.param_sorts[pp]
            p = fresh('lpos', z3.IntSort())
            v = fresh('lval', srt.range())
            ps2 = list(ps)
            ps2[pp] = z3.Store(ps[pp], p, v)
            eq = lambda kk: self.f(*ps2, kk) == self.f(*ps, kk)
            obs.append(('lemma/%s.prefix.base' % self.name, [k <= 0, p >= k, self.defn(ps, k), self.defn(ps2, k)], eq(k)))
            obs.append(('lemma/%s.prefix.step' % self.name,
                        [k > 0, p >= k, self.defn(ps, k), self.defn(ps2, k), eq(k - 1)], eq(k)))
        return obs


# ----------------------------------------------------------------------------------------------
# grounding
# ----------------------------------------------------------------------------------------------

class GroundingError(Exception):
    pass


def _placeholders(phi):
    """-> {name: polarity}, polarity in {+1,-1,0(both)}"""
    res = {}
    seen = set()

    def walk(e, pol):
        key = (e.get_id(), pol)
        if key in seen:
            return
        seen.add(key)
        if z3.is_const(e) and e.decl().kind() == z3.Z3_OP_UNINTERPRETED and z3.is_bool(e):
            nm = e.decl().name()
            if nm in _Q:
                if nm in res and res[nm] != pol:
                    res[nm] = 0
                else:
                    res.setdefault(nm, pol)
            return
        if not z3.is_app(e):
            return
        k = e.decl().kind()
        ch = e.children()
        if k == z3.Z3_OP_AND or k == z3.Z3_OP_OR:
            for c in ch:
                walk(c, pol)
        elif k == z3.Z3_OP_NOT:
            walk(ch[0], -pol)
        elif k == z3.Z3_OP_IMPLIES:
            walk(ch[0], -pol)
            walk(ch[1], pol)
        elif k == z3.Z3_OP_ITE and z3.is_bool(e):
            walk(ch[0], 0)
            walk(ch[1], pol)
            walk(ch[2], pol)
        else:
            for c in ch:
                walk(c, 0)

    walk(phi, 1)
    return res


def _subterms(phi):
    seen = {}
    stack = [phi]
    while stack:
        e = stack.pop()
        i = e.get_id()
        if i in seen:
            continue
        seen[i] = e
        if z3.is_app(e):
            stack.extend(e.children())
    return seen.values()


def _pools(phi, skolems, extra):
    """term pools by kind, computed from the current formula"""
    idx, ints, refs, strs, reals, bysort = {}, {}, {}, {}, {}, {}
    for e in _subterms(phi):
        if not z3.is_app(e):
            continue
        s = e.sort()
        k = e.decl().kind()
        if k == z3.Z3_OP_SELECT:
            i = e.arg(1)
            if i.sort() == z3.IntSort():
                idx[i.get_id()] = i
            elif i.sort() == z3.RealSort():
                reals[i.get_id()] = i
            else:
                bysort.setdefault(i.sort().name(), {})[i.get_id()] = i
        if k == z3.Z3_OP_STORE:
            i = e.arg(1)
            if i.sort() == z3.IntSort():
                idx[i.get_id()] = i
            elif i.sort() == z3.RealSort():
                reals[i.get_id()] = i
            else:
                bysort.setdefault(i.sort().name(), {})[i.get_id()] = i
        if s == RefS:
            refs[e.get_id()] = e
        elif s == StrS:
            strs[e.get_id()] = e
        elif k == z3.Z3_OP_UNINTERPRETED and e.num_args() == 0:
            if s == z3.IntSort():
                ints[e.get_id()] = e
            elif s == z3.RealSort():
                reals[e.get_id()] = e
            elif not z3.is_bool(e):
                bysort.setdefault(s.name(), {})[e.get_id()] = e
    for sk in skolems:
        s = sk.sort()
        if s == z3.IntSort():
            idx[sk.get_id()] = sk
        elif s == RefS:
            refs[sk.get_id()] = sk
        elif s == StrS:
            strs[sk.get_id()] = sk
        elif s == z3.RealSort():
            reals[sk.get_id()] = sk
        else:
            bysort.setdefault(s.name(), {})[sk.get_id()] = sk
    for t in extra:
        if t.sort() == z3.IntSort():
            idx[t.get_id()] = t
    ints.update(idx)
    return dict(idx=list(idx.values()), int=list(ints.values()), ref=list(refs.values()),
                str=list(strs.values()), real=list(reals.values()),
                bysort={k: list(v.values()) for k, v in bysort.items()})


def _pool_for(p, pools):
    if isinstance(p, Ty):
        s = p.sort()
        if s == z3.IntSort():
            return pools['int']
        if s == RefS:
            return pools['ref']
        if s == StrS:
            return pools['str']
        if s == z3.RealSort():
            return pools['real']
        return pools['bysort'].get(s.name(), [])
    return pools[p]



# ----------------------------------------------------------------------------------------------
# trigger-based instance selection (syntactic E-matching, arrays compared modulo Store chains)
# ----------------------------------------------------------------------------------------------
_ANALYSIS = {}


def _contains_any(e, ids, memo):
    i = e.get_id()
    if i in memo:
        return memo[i]
    if i in ids:
        memo[i] = True
        return True
    r = any(_contains_any(c, ids, memo) for c in e.children()) if z3.is_app(e) else False
    memo[i] = r
    return r


def _array_base(a):
    while z3.is_app(a) and a.decl().kind() == z3.Z3_OP_STORE:
        a = a.arg(0)
    return a


def _array_bases(a, out=None, depth=0):
    """ids of the arrays `a` may coincide with on part of its domain: through Store chains and ite"""
    if out is None:
        out = set()
    while z3.is_app(a) and a.decl().kind() == z3.Z3_OP_STORE:
        a = a.arg(0)
    if z3.is_app(a) and a.decl().kind() == z3.Z3_OP_ITE and depth < 6:
        _array_bases(a.arg(1), out, depth + 1)
        _array_bases(a.arg(2), out, depth + 1)
    out.add(a.get_id())
    return out


def _analyze(nm):
    """-> (bound consts, patterns); pattern = (term, [(argpos, var index)], is_pred)"""
    if nm in _ANALYSIS:
        return _ANALYSIS[nm]
    kind, ps, fn = _Q[nm]
    bs = [fresh('bv', _pool_sort(p)) for p in ps]
    body = fn(*bs)
    ids = {b.get_id(): n for n, b in enumerate(bs)}
    memo = {}
    pats = []
    explicit = None
    if nm in _PATS:
        explicit = {t.get_id() for t in _PATS[nm](*bs)}
    for e in _subterms(z3.And(body, *[t == t for t in _PATS[nm](*bs)]) if nm in _PATS else body):
        if not z3.is_app(e) or e.num_args() == 0:
            continue
        k = e.decl().kind()
        if k not in (z3.Z3_OP_SELECT, z3.Z3_OP_UNINTERPRETED):
            continue
        if not _contains_any(e, ids, memo):
            continue
        binds = []
        ok = True
        for pos, a in enumerate(e.children()):
            if a.get_id() in ids:
                binds.append((pos, ids[a.get_id()]))
            elif _contains_any(a, ids, memo):
                ok = False
                break
        if explicit is not None and e.get_id() not in explicit:
            continue
        if ok and binds:
            # 'guard' patterns: membership in the allocation set (Array Ref->Bool); used only as a last resort
            tier = 0
            if z3.is_bool(e):
                tier = 2 if (k == z3.Z3_OP_SELECT and e.arg(0).sort().domain() == RefS) else 1
            if explicit is not None:
                tier = 0
            pats.append((e, binds, tier))
    _ANALYSIS[nm] = (bs, pats)
    return _ANALYSIS[nm]


def _index_ground(phi):
    """ground Select / UF applications of phi, keyed for matching"""
    sel, uf = {}, {}
    for e in _subterms(phi):
        if not z3.is_app(e) or e.num_args() == 0:
            continue
        k = e.decl().kind()
        if k == z3.Z3_OP_SELECT or k == z3.Z3_OP_STORE:
            # (a store also mentions its index)
            for b in _array_bases(e.arg(0)):
                sel.setdefault(b, []).append(e)
        elif k == z3.Z3_OP_UNINTERPRETED:
            uf.setdefault(e.decl().name(), []).append(e)
    return sel, uf


def _trigger_candidates(nm, index):
    """per bound variable: list of candidate ground terms, or None when the variable has no pattern.
    Patterns are tried in tiers (0: non-boolean terms, 1: boolean membership tests, 2: allocation guards);
    a variable takes its candidates from the first tier that yields any."""
    bs, pats = _analyze(nm)
    sel, uf = index
    per_tier = [[None] * len(bs) for _ in range(3)]
    for (t, binds, tier) in pats:
        cands = per_tier[tier]
        k = t.decl().kind()
        if k == z3.Z3_OP_SELECT:
            grounds = []
            for b in _array_bases(t.arg(0)):
                grounds.extend(sel.get(b, []))
        else:
            grounds = uf.get(t.decl().name(), [])
        for _, v in binds:
            if cands[v] is None:
                cands[v] = {}
        for g in grounds:
            if k != z3.Z3_OP_SELECT:
                if g.num_args() != t.num_args():
                    continue
                bpos = {p for p, _ in binds}
                if any((i not in bpos) and not g.arg(i).eq(t.arg(i)) for i in range(t.num_args())):
                    continue
            for pos, v in binds:
                if pos >= g.num_args():
                    continue
                a = g.arg(pos)
                if a.sort() != bs[v].sort():
                    continue
                cands[v][a.get_id()] = a
    out = []
    for v in range(len(bs)):
        chosen = None
        for tier in range(3):
            c = per_tier[tier][v]
            if c is not None:
                chosen = c if chosen is None else chosen
                if c:
                    chosen = c
                    break
        out.append(None if chosen is None else list(chosen.values()))
    return out


MAX_INST = 600
MAX_GEN = 3
_USED_DEBUG = {}
MAX_TOTAL = 6000


def ground(hyps, goal, extra_terms=(), rounds=10, unfold_depth=3, stats=None, triggers=True):
    """-> list of quantifier-free z3 assertions equisatisfiable-or-weaker than hyps /\\ not goal"""
    phi = z3.And(*hyps, z3.Not(goal)) if hyps else z3.Not(goal)
    skolems = []
    ninst = 0
    used = {}
    global _USED_DEBUG
    _USED_DEBUG = used
    del LAZY_FACTS[:]

    def skolemise(phi):
        """exact eliminations, repeated until none is left"""
        while True:
            ph = _placeholders(phi)
            subs = []
            for nm, pol in ph.items():
                kind, ps, fn = _Q[nm]
                if pol == 0:
                    raise GroundingError('quantifier %s occurs in both polarities' % nm)
                if (kind == 'FA' and pol < 0) or (kind == 'EX' and pol > 0):
                    sks = [fresh('sk', _pool_sort(p)) for p in ps]
                    skolems.extend(sks)
                    subs.append((z3.Bool(nm), fn(*sks)))
            if not subs:
                return phi, ph
            phi = z3.substitute(phi, *subs)
            if LAZY_FACTS:
                phi = z3.And(phi, *LAZY_FACTS)
                del LAZY_FACTS[:]

    done = set()          # unfolded applications
    gen = {}              # app id -> unfolding generation (0 = occurs in the query itself)
    paired = set()
    apps_by_fun = {}

    def rec_step(phi, depth_limit):
        """definitions of recurrence functions at (new) occurrences + congruence instances for pairs"""
        new = []
        for e in list(_subterms(phi)):
            if z3.is_app(e) and e.decl().kind() == z3.Z3_OP_UNINTERPRETED and e.num_args() > 0:
                rf = RecFun.registry.get(e.decl().name())
                if rf is None or e.get_id() in done:
                    continue
                g = gen.get(e.get_id(), 0)
                if g >= depth_limit:
                    continue
                done.add(e.get_id())
                facts = rf.unfold(e)
                for f in facts:
                    for e2 in _subterms(f):
                        if z3.is_app(e2) and e2.decl().kind() == z3.Z3_OP_UNINTERPRETED and e2.num_args() > 0 \
                                and e2.decl().name() in RecFun.registry and e2.get_id() not in gen and e2.get_id() != e.get_id():
                            gen[e2.get_id()] = g + 1
                gen.setdefault(e.get_id(), g)
                new.extend(facts)
                apps_by_fun.setdefault(rf.name, []).append(e)
        # congruence: same function, same non-array arguments, different arrays
        for nm, apps in apps_by_fun.items():
            rf = RecFun.registry[nm]
            if len(paired) > 80:
                break
            for i in range(len(apps)):
                for j in range(i + 1, len(apps)):
                    a1, a2 = apps[i], apps[j]
                    key = (a1.get_id(), a2.get_id())
                    if key in paired:
                        continue
                    inst = rf.congruence(a1, a2)
                    if inst is not None and len(paired) <= 80:
                        paired.add(key)
                        new.append(inst)
        if new:
            phi = z3.And(phi, *new)
        return phi, bool(new)

    term_gen = {}

    def stamp(phi, g):
        for e in _subterms(phi):
            term_gen.setdefault(e.get_id(), g)

    for rnd in range(rounds):
        phi, grew = rec_step(phi, unfold_depth)
        phi, ph = skolemise(phi)
        stamp(phi, rnd)
        if not ph and not grew:
            break
        # weakening instantiation over the current pool; the placeholder stays in place so that terms
        # appearing later (nested skolems) are instantiated in a later round
        pools = _pools(phi, skolems, extra_terms)
        index = _index_ground(phi) if triggers else None
        progress = grew
        subs = []
        for nm, pol in ph.items():
            kind, ps, fn = _Q[nm]
            cands = [_pool_for(p, pools) for p in ps]
            if triggers:
                tc = _trigger_candidates(nm, index)
                cands = [c if t is None else t for c, t in zip(cands, tc)]
                # matching-loop guard: terms that only exist because of >= MAX_GEN earlier instantiation rounds
                cands = [[t for t in c if term_gen.get(t.get_id(), 0) < MAX_GEN] for c in cands]
            if ninst > MAX_TOTAL:
                raise GroundingError('more than %d quantifier instances' % MAX_TOTAL)
            seen = used.setdefault(nm, set())
            insts = []
            for ts in itertools.product(*cands):
                key = tuple(t.get_id() for t in ts)
                if key in seen:
                    continue
                if len(seen) >= MAX_INST:
                    break
                seen.add(key)
                insts.append(fn(*ts))
            if insts:
                progress = True
                ninst += len(insts)
                if kind == 'FA':
                    subs.append((z3.Bool(nm), z3.And(z3.Bool(nm), *insts)))
                else:
                    subs.append((z3.Bool(nm), z3.Or(z3.Bool(nm), *insts)))
        if not progress:
            break
        if subs:
            phi = z3.substitute(phi, *subs)
        if LAZY_FACTS:
            phi = z3.And(phi, *LAZY_FACTS)
            del LAZY_FACTS[:]
    phi, _g = rec_step(phi, unfold_depth)
    phi, ph = skolemise(phi)
    # drop what is left: FA at + -> True, EX at - -> False (weakening)
    subs = []
    for nm, pol in ph.items():
        kind, ps, fn = _Q[nm]
        subs.append((z3.Bool(nm), z3.BoolVal(kind == 'FA')))
    if subs:
        phi = z3.substitute(phi, *subs)
    out = [phi]
    out.extend(str_axioms())
    if stats is not None:
        stats['instances'] = ninst
        stats['skolems'] = len(skolems)
        stats['unfoldings'] = len(done)
        stats['congruences'] = len(paired)
    return out
