"""K1 (pyvc) -- type descriptors, z3 sorts and symbolic values.

Every Python value the executor manipulates is an ``SV(ty, z)``: a type descriptor and ONE z3 term
(tuples: a python tuple of SVs; None: no term).  Containers are z3 datatypes holding arrays, so
nested containers and containers in heap fields need no special treatment.
"""
import z3

RefS = z3.DeclareSort('Ref')
StrS = z3.DeclareSort('PyStr')
NULL = z3.Const('NULL', RefS)

_STR_LITS = {}


def strlit(s):
    """distinct constant per string literal (distinctness asserted by `str_axioms`)"""
    if s not in _STR_LITS:
        _STR_LITS[s] = z3.Const('str!%s' % repr(s), StrS)
    return _STR_LITS[s]


def str_axioms():
    lits = list(_STR_LITS.values())
    return [z3.Distinct(*lits)] if len(lits) > 1 else []


_fresh_n = [0]


def fresh_name(base):
    _fresh_n[0] += 1
    return '%s!%d' % (base, _fresh_n[0])


def fresh(base, sort):
    return z3.Const(fresh_name(base), sort)


# --------------------------------------------------------------------------------------------
# type descriptors
# --------------------------------------------------------------------------------------------

class Ty:
    name = '?'

    def sort(self):
        raise NotImplementedError

    def __repr__(self):
        return self.name

    def __eq__(self, o):
        return isinstance(o, Ty) and self.name == o.name

    def __hash__(self):
        return hash(self.name)


class _Prim(Ty):
    def __init__(self, name, sort):
        self.name = name
        self._sort = sort

    def sort(self):
        return self._sort


INT = _Prim('int', z3.IntSort())
BOOL = _Prim('bool', z3.BoolSort())
REAL = _Prim('real', z3.RealSort())
STR = _Prim('str', StrS)


class TNum(Ty):
    """a named real quantity (datetime = seconds on a clock, timedelta = seconds); always truthy"""

    def __init__(self, nm):
        self.name = 'num:' + nm
        self.nm = nm

    def sort(self):
        return z3.RealSort()


DATETIME = TNum('datetime')
TIMEDELTA = TNum('timedelta')


class _NoneT(Ty):
    name = 'None'

    def sort(self):
        return z3.BoolSort()  # never used


NONE = _NoneT()


class TRef(Ty):
    """nullable reference to an instance of `cls` (or a subclass)"""

    def __init__(self, cls):
        self.cls = cls
        self.name = 'ref:' + cls

    def sort(self):
        return RefS


class TOpaque(Ty):
    """a value the code only passes around (uninterpreted sort)"""
    _sorts = {}

    def __init__(self, nm):
        self.name = 'opaque:' + nm
        if nm not in TOpaque._sorts:
            TOpaque._sorts[nm] = z3.DeclareSort('Opq_' + nm)
        self._sort = TOpaque._sorts[nm]

    def sort(self):
        return self._sort


class _TAny(TOpaque):
    """parameter type that accepts any value (the value is only passed on); coercion forgets the value"""

    def __init__(self):
        TOpaque.__init__(self, 'any')
        self.name = 'any'


ANY = _TAny()


class TFun(Ty):
    """a callable value; `contract` (name in the registry) says what calling it does"""

    def __init__(self, nm, contract=None):
        self.name = 'fun:' + nm
        self.contract = contract
        self._o = TOpaque('fun_' + nm)

    def sort(self):
        return self._o.sort()


_DT = {}


def _sortname(t):
    return t.name.replace(':', '_').replace('<', '_').replace('>', '_').replace(',', '_').replace(' ', '')


class TList(Ty):
    def __init__(self, elem):
        self.elem = elem
        self.name = 'list<%s>' % elem.name
        if self.name not in _DT:
            d = z3.Datatype('L_' + _sortname(elem))
            d.declare('mk', ('len', z3.IntSort()), ('at', z3.ArraySort(z3.IntSort(), elem.sort())),
                      ('oid', z3.IntSort()))
            _DT[self.name] = d.create()
        self.dt = _DT[self.name]

    def sort(self):
        return self.dt

    def mk(self, ln, at, oid):
        return self.dt.mk(ln, at, oid)


class TSet(Ty):
    """abstract container that only supports `in` (sound abstraction of a list/tuple/set argument)"""

    def __init__(self, elem):
        self.elem = elem
        self.name = 'set<%s>' % elem.name

    def sort(self):
        return z3.ArraySort(self.elem.sort(), z3.BoolSort())


class TDict(Ty):
    """dom/val arrays + insertion-ordered key list (`keys`) + position ghost `pos`"""

    def __init__(self, key, val):
        self.key, self.val = key, val
        self.name = 'dict<%s,%s>' % (key.name, val.name)
        self.keys_t = TList(key)
        if self.name not in _DT:
            d = z3.Datatype('D_' + _sortname(key) + '__' + _sortname(val))
            d.declare('mk', ('dom', z3.ArraySort(key.sort(), z3.BoolSort())),
                      ('val', z3.ArraySort(key.sort(), val.sort())),
                      ('keys', self.keys_t.sort()),
                      ('pos', z3.ArraySort(key.sort(), z3.IntSort())),
                      ('oid', z3.IntSort()))
            _DT[self.name] = d.create()
        self.dt = _DT[self.name]

    def sort(self):
        return self.dt


class TOpt(Ty):
    def __init__(self, t):
        self.t = t
        self.name = 'opt<%s>' % t.name
        if self.name not in _DT:
            d = z3.Datatype('O_' + _sortname(t))
            d.declare('none')
            d.declare('some', ('v', t.sort()))
            _DT[self.name] = d.create()
        self.dt = _DT[self.name]

    def sort(self):
        return self.dt


class TSent(TOpt):
    """a value that is either the integer `sentinel` or a value of type t (e.g. dimensions: -1 or a list of ints);
    the sentinel is represented by `none`"""

    def __init__(self, t, sentinel):
        TOpt.__init__(self, t)
        self.sentinel = sentinel
        self.name = 'sent%d<%s>' % (sentinel, t.name)


class TRec(Ty):
    """a dict used as a record: literal keys with their own types (`fields`), each present or absent,
    plus an optional homogeneous remainder `rest` (TDict) for computed keys.  A computed key is assumed
    not to collide with a literal key (reported as an assumption by the executor)."""

    def __init__(self, nm, fields, rest=None):
        self.nm = nm
        self.fields = dict(fields)
        self.rest = rest
        self.name = 'rec:' + nm
        if self.name not in _DT:
            d = z3.Datatype('R_' + nm)
            parts = []
            for k, t in self.fields.items():
                parts.append(('has_' + _fld(k), z3.BoolSort()))
                parts.append(('v_' + _fld(k), t.sort()))
            if rest is not None:
                parts.append(('rest', rest.sort()))
            parts.append(('oid', z3.IntSort()))
            d.declare('mk', *parts)
            _DT[self.name] = d.create()
        self.dt = _DT[self.name]

    def sort(self):
        return self.dt

    def has(self, z, k):
        return _acc(getattr(self.dt, 'has_' + _fld(k)), z)

    def get(self, z, k):
        return _acc(getattr(self.dt, 'v_' + _fld(k)), z)

    def restz(self, z):
        return _acc(self.dt.rest, z)

    def update(self, z, **kw):
        """functional update: kw maps accessor names ('has_x','v_x','rest') to new terms"""
        args = []
        for i in range(self.dt.constructor(0).arity()):
            acc = self.dt.accessor(0, i)
            args.append(kw[acc.name()] if acc.name() in kw else acc(z))
        return self.dt.mk(*args)


def _fld(k):
    return ''.join(c if c.isalnum() else '_' for c in k)


class TTuple(Ty):
    def __init__(self, ts):
        self.ts = list(ts)
        self.name = 'tuple<%s>' % ','.join(t.name for t in ts)

    def sort(self):
        raise TypeError('tuples have no single sort')


# --------------------------------------------------------------------------------------------
# symbolic values
# --------------------------------------------------------------------------------------------

class SV:
    __slots__ = ('t', 'z')

    def __init__(self, t, z):
        self.t = t
        self.z = z

    def __repr__(self):
        return 'SV(%s, %s)' % (self.t, self.z)


NONE_V = SV(NONE, None)


def sv_int(n):
    return SV(INT, z3.IntVal(n) if isinstance(n, int) else n)


def sv_bool(b):
    return SV(BOOL, z3.BoolVal(b) if isinstance(b, bool) else b)


def sv_real(x):
    if isinstance(x, (int, float)):
        return SV(REAL, z3.RealVal(repr(x) if isinstance(x, float) else x))
    return SV(REAL, x)


def sv_str(s):
    return SV(STR, strlit(s) if isinstance(s, str) else s)


def fresh_sv(ty, base='v'):
    if isinstance(ty, TTuple):
        return SV(ty, tuple(fresh_sv(t, base) for t in ty.ts))
    if ty is NONE:
        return NONE_V
    return SV(ty, fresh(base, ty.sort()))


# list helpers (z-level) -------------------------------------------------------------------

def _acc(f, z):
    """accessor application, reduced when z is a constructor term"""
    r = f(z)
    if z3.is_app(z) and z.decl().kind() == z3.Z3_OP_DT_CONSTRUCTOR:
        return z3.simplify(r)
    return r


def l_len(t, z):
    return _acc(t.dt.len, z)


def l_at(t, z):
    return _acc(t.dt.at, z)


def l_oid(t, z):
    return _acc(t.dt.oid, z)


def l_empty(t, oid):
    return t.dt.mk(z3.IntVal(0), z3.K(z3.IntSort(), _default(t.elem)), oid)


def l_append(t, z, x):
    return t.dt.mk(l_len(t, z) + 1, z3.Store(l_at(t, z), l_len(t, z), x), l_oid(t, z))


def _default(ty):
    return fresh('dflt', ty.sort())


# dict helpers -------------------------------------------------------------------------------

def d_dom(t, z):
    return _acc(t.dt.dom, z)


def d_val(t, z):
    return _acc(t.dt.val, z)


def d_keys(t, z):
    return _acc(t.dt.keys, z)


def d_pos(t, z):
    return _acc(t.dt.pos, z)


def d_oid(t, z):
    return _acc(t.dt.oid, z)


def d_empty(t, oid):
    return t.dt.mk(z3.K(t.key.sort(), z3.BoolVal(False)), z3.K(t.key.sort(), _default(t.val)),
                   l_empty(t.keys_t, z3.IntVal(-1)), z3.K(t.key.sort(), z3.IntVal(-1)), oid)


def d_store(t, z, k, v):
    has = z3.Select(d_dom(t, z), k)
    keys = d_keys(t, z)
    kt = t.keys_t
    nkeys = kt.dt.mk(z3.If(has, l_len(kt, keys), l_len(kt, keys) + 1),
                     z3.If(has, l_at(kt, keys), z3.Store(l_at(kt, keys), l_len(kt, keys), k)), l_oid(kt, keys))
    npos = z3.If(has, d_pos(t, z), z3.Store(d_pos(t, z), k, l_len(t.keys_t, keys)))
    return t.dt.mk(z3.Store(d_dom(t, z), k, z3.BoolVal(True)), z3.Store(d_val(t, z), k, v), nkeys, npos,
                   d_oid(t, z))


def d_wf(t, z, FA):
    """well-formedness of the key list w.r.t. dom (quantifier placeholders via FA)"""
    keys = d_keys(t, z)
    kl, ka = l_len(t.keys_t, keys), l_at(t.keys_t, keys)
    dom, pos = d_dom(t, z), d_pos(t, z)
    return z3.And(
        kl >= 0,
        FA('idx', lambda i: z3.Implies(z3.And(0 <= i, i < kl),
                                       z3.And(z3.Select(dom, ka[i]), z3.Select(pos, ka[i]) == i))),
        FA(t.key, lambda k: z3.Implies(z3.Select(dom, k),
                                       z3.And(0 <= z3.Select(pos, k), z3.Select(pos, k) < kl,
                                              ka[z3.Select(pos, k)] == k)),
           pats=lambda k: [z3.Select(dom, k)]))
