"""K1 (pyvc) -- symbolic state: locals, Burstall heap, allocation set, ghost variables, path condition."""
import z3
from .types import *  # noqa
from .spec import CLASSES, find_field


class Unbound(Exception):
    """the function left the supported subset / a callee has no contract: verdict 'unbound', never 'violated'"""


class State:
    __slots__ = ('ex', 'loc', 'heap', 'alloc', 'ghost', 'pc', 'next_oid', 'origin', 'stale', 'trace', 'known')

    def __init__(self, ex):
        self.ex = ex
        self.loc = {}
        self.heap = {}        # (declaring cls, field) -> z3 Array(Ref -> sort)
        self.alloc = None     # Array(Ref -> Bool)
        self.ghost = {}
        self.pc = []
        self.next_oid = None  # z3 Int
        self.origin = {}      # local name -> alias origin (see exec.assign_path)
        self.stale = set()
        self.trace = []       # human-readable path description (branch decisions) for reports
        self.known = {}       # ast id -> the (live) atom assumed on this path (cheap pruning of repeated forks); holding the
                              # expression keeps its id from being recycled by z3 for a different term

    def copy(self):
        s = State(self.ex)
        s.loc = dict(self.loc)
        s.heap = dict(self.heap)
        s.alloc = self.alloc
        s.ghost = dict(self.ghost)
        s.pc = list(self.pc)
        s.next_oid = self.next_oid
        s.origin = dict(self.origin)
        s.stale = set(self.stale)
        s.trace = list(self.trace)
        s.known = dict(self.known)
        return s

    def assume(self, *conds):
        for c in conds:
            if c is None or c is True:
                continue
            if c is False:
                c = z3.BoolVal(False)
            if z3.is_true(c):
                continue
            self.pc.append(c)
            self.known[c.get_id()] = c
            if z3.is_and(c):
                for x in c.children():
                    self.known[x.get_id()] = x
        return self

    def fork(self, ok, note):
        """-> (state where ok holds | None, state where it fails | None); prunes syntactically decided forks"""
        if ok.get_id() in self.known:
            return self, None
        oks = z3.simplify(ok)
        if z3.is_true(oks):
            return self, None
        if z3.is_false(oks):
            return None, self.copy().note(note)
        if oks.get_id() in self.known:
            return self, None
        bad = self.copy().assume(z3.Not(ok)).note(note)
        good = self.copy().assume(ok)
        good.known[oks.get_id()] = oks
        return good, bad

    def note(self, s):
        self.trace.append(s)
        return self

    # heap ---------------------------------------------------------------------------------
    def heap_arr(self, cls, f, ty):
        key = (cls, f)
        if key not in self.heap:
            # first touch: the initial (entry) array, shared by all states of this verification
            self.heap[key] = self.ex.initial_heap(cls, f, ty)
        return self.heap[key]

    def heap_arr_cf(self, cls, f):
        r = find_field(cls, f)
        if r is None:
            raise Unbound('undeclared field %s.%s' % (cls, f))
        return self.heap_arr(r[0], f, r[1])

    def read(self, ref_z, cls, f):
        r = find_field(cls, f)
        if r is None:
            raise Unbound('undeclared field %s.%s' % (cls, f))
        dc, ty = r
        z = z3.simplify(z3.Select(self.heap_arr(dc, f, ty), ref_z))
        self.type_facts(SV(ty, z))
        return SV(ty, z)

    def write(self, ref_z, cls, f, sv):
        r = find_field(cls, f)
        if r is None:
            raise Unbound('undeclared field %s.%s' % (cls, f))
        dc, ty = r
        v = self.ex.coerce(sv, ty, self)
        self.heap[(dc, f)] = z3.Store(self.heap_arr(dc, f, ty), ref_z, v.z)

    def type_facts(self, sv):
        """typing invariants of a value read from the heap / havoc'd"""
        t = sv.t
        if isinstance(t, TRef):
            self.assume(z3.Or(sv.z == NULL, z3.Select(self.alloc, sv.z)))
        elif isinstance(t, TList):
            self.assume(l_len(t, sv.z) >= 0, l_oid(t, sv.z) < self.next_oid)
        elif isinstance(t, TDict):
            self.assume(l_len(t.keys_t, d_keys(t, sv.z)) >= 0, d_oid(t, sv.z) < self.next_oid)

    def new_oid(self):
        o = self.next_oid
        self.next_oid = o + 1
        return o

    def new_ref(self, cls):
        r = fresh('new_' + cls, RefS)
        self.assume(r != NULL, z3.Not(z3.Select(self.alloc, r)),
                    z3.Select(self.ex.typeof, r) == CLASSES[cls].id)
        self.alloc = z3.Store(self.alloc, r, z3.BoolVal(True))
        return r
