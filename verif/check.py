"""Decide one property:  python3-vt -m verif.check <id> --tier quick|thorough

exit 0 held (modulo known findings) | 1 violation (VIOLATION line printed) | 2 undecided/unbound only | 3 checker crash
Protocol: DESIGN 2.5.
"""
import argparse
import importlib
import json
import os
import re
import subprocess
import sys
import time
import traceback

ROOT = os.path.dirname(os.path.dirname(os.path.abspath(__file__)))
sys.path.insert(0, ROOT)
REPO = os.environ.get('VERIF_REPO', '/repo')
VENV_PY = '/venv/bin/python'


def norm_name(n):
    """obligation name without line numbers / duplicate counters (stable across harmless edits)"""
    n = re.sub(r'@L\d+', '', n)
    n = re.sub(r'#\d+', '', n)
    return n


def load_json(path, default):
    try:
        with open(path) as f:
            return json.load(f)
    except (OSError, ValueError):
        return default


def run_native(script, args, timeout=300, env_extra=None):
    """run a harness under the repo's interpreter against the working tree; -> (rc, stdout)"""
    env = dict(os.environ)
    env['PYTHONPATH'] = REPO + os.pathsep + ROOT
    env['PYTHONWARNINGS'] = 'ignore'
    env.update(env_extra or {})
    try:
        p = subprocess.run(['timeout', str(timeout), VENV_PY, '-W', 'ignore', script] + list(args), capture_output=True,
                           text=True, env=env, cwd=ROOT)
        return p.returncode, p.stdout, p.stderr
    except Exception as e:
        return 99, '', str(e)


def main():
    ap = argparse.ArgumentParser()
    ap.add_argument('prop')
    ap.add_argument('--tier', default=os.environ.get('VERIF_TIER', 'quick'))
    ap.add_argument('--replay', default=None)
    ap.add_argument('--update-baseline', action='store_true')
    ap.add_argument('--only', default=None, help='substring of qualnames to verify (debugging)')
    a = ap.parse_args()
    seed = int(os.environ.get('VERIF_SEED', '0') or 0)
    try:
        # BPTK writes its log into the working directory of the harnesses: keep it from growing without bound
        _lp = os.path.join(ROOT, 'bptk_py.log')
        if os.path.getsize(_lp) > 5000000:
            open(_lp, 'w').close()
    except OSError:
        pass
    if a.replay:
        rc, out, err = run_native(a.replay, [], timeout=300)
        sys.stdout.write(out)
        sys.stderr.write(err[-2000:])
        return 1 if rc != 0 else 0
    t0 = time.time()
    try:
        from contracts import props
        cfg = props.PROPS[a.prop]
    except Exception:
        traceback.print_exc()
        return 3
    try:
        return decide(a.prop, cfg, a.tier, seed, t0, a.update_baseline, a.only)
    except Exception:
        traceback.print_exc()
        return 3


def decide(prop, cfg, tier, seed, t0, update_baseline, only):
    from verif import k1pool
    thorough = tier == 'thorough'
    timeout_s = 120 if thorough else 60
    verdicts, infos = [], {}
    trusted, assumptions = [], set(cfg.get('assumptions', []))
    functions = []
    # ---------------- K1: contracts on real function bodies -----------------------------------------
    mods = cfg.get('mods', [])
    for m in mods:
        importlib.import_module(m)
    from verif.pyvc.spec import CONTRACTS
    from verif.pyvc.formula import RecFun, ground
    k1names = [q for q in cfg.get('k1', []) if (not only or only in q)]
    if k1names:
        infos, vs = k1pool.run(mods, prop, k1names, timeout_s=timeout_s, second=thorough, fallback=False)
        verdicts.extend(vs)
    for q, c in CONTRACTS.items():
        if c.trusted and (prop in c.props):
            trusted.append('%s: %s' % (q, c.note or 'assumed contract'))
    # lemma obligations of the recurrence-defined spec functions (induction, proved every run)
    import z3
    if k1names:
        for rf in RecFun.registry.values():
            for (n, h, g) in rf.lemma_obligations():
                ts = time.time()
                s = z3.Solver()
                s.set('timeout', timeout_s * 1000)
                s.add(*ground(h, g))
                r = s.check()
                verdicts.append(dict(name='%s/%s' % (prop, n), qualname='lemma', secs=round(time.time() - ts, 4),
                                     status={'unsat': 'discharged', 'sat': 'counterexample'}.get(str(r), 'undecided'),
                                     solver='z3-%s' % z3.get_version_string()))
    # ---------------- other engines registered by the property (K2 templates, structural obligations) ---
    for eng in cfg.get('engines', []):
        mod = importlib.import_module(eng)
        r = mod.run(prop, cfg, tier, seed)
        verdicts.extend(r.get('verdicts', []))
        trusted.extend(r.get('trusted', []))
        assumptions.update(r.get('assumptions', []))
        functions.extend(r.get('functions', []))
        for k, v in r.get('infos', {}).items():
            infos[k] = v
    for q, i in infos.items():
        assumptions.update(i.get('assumptions') or [])
        functions.append(dict(function=q, file=i.get('file'), line=i.get('line'), digest=i.get('digest'),
                              obligations=i.get('n', 0), unbound=i.get('unbound'), crash=i.get('crash')))
    # ---------------- classification ----------------------------------------------------------------
    crashed = [f for f in functions if f.get('crash')] + [v for v in verdicts if v['status'] == 'crash']
    unbound = [f for f in functions if f.get('unbound')]
    bad = [v for v in verdicts if v['status'] == 'counterexample']
    undec = [v for v in verdicts if v['status'] == 'undecided']
    n_ob = len([v for v in verdicts if v.get('kind', 'proof') == 'proof'])
    n_dis = len([v for v in verdicts if v['status'] == 'discharged' and v.get('kind', 'proof') == 'proof'])
    bounded = [v for v in verdicts if v.get('kind') == 'bounded']
    base_path = os.path.join(ROOT, 'baseline', prop + '.json')
    if update_baseline:
        os.makedirs(os.path.dirname(base_path), exist_ok=True)
        names = sorted({norm_name(v['name']) for v in verdicts if v['status'] == 'discharged'})
        with open(base_path, 'w') as f:
            json.dump(dict(property=prop, discharged_on_unchanged_tree=names), f, indent=1)
        print('baseline written: %d names' % len(names))
    baseline = set(load_json(base_path, {}).get('discharged_on_unchanged_tree', []))
    known = load_json(os.path.join(ROOT, 'known_findings.json'), {'findings': [], 'fixed': []})
    my_known = [k for k in known.get('findings', []) if k.get('property') == prop]

    violations = []   # (obligation names, replay path, reproduced?)
    known_hits = []
    exit_code = 0
    # native replay / search harness of the property
    harness = cfg.get('harness')
    need_search = bool(bad or undec or unbound)
    hres = None
    if harness and (need_search or thorough or cfg.get('always_harness')):
        budget = cfg.get('harness_budget', (20, 120))[1 if thorough else 0]
        hint = sorted({v.get('qualname', '') for v in bad + undec} | {f['function'] for f in unbound})
        models = [dict(name=v['name'], model=v.get('model')) for v in bad if v.get('model')][:8]
        os.makedirs(os.path.join(ROOT, 'replays'), exist_ok=True)
        hint_file = os.path.join(ROOT, 'replays', '%s.hint.json' % prop)
        with open(hint_file, 'w') as f:
            json.dump(dict(functions=hint, models=models, seed=seed, budget_s=budget, known=my_known, prop=prop, tier=tier), f)
        rc, out, err = run_native(os.path.join(ROOT, harness), [hint_file], timeout=budget + 60)
        hres = dict(rc=rc, out=out[-4000:], err=err[-1500:])
        try:
            hjson = json.loads(out.strip().splitlines()[-1]) if out.strip() else {}
        except ValueError:
            hjson = {}
        hres['json'] = hjson
    hj = (hres or {}).get('json', {}) or {}
    failures = hj.get('failures', [])          # each: {what, script, known: <id or None>}
    new_failures = [f for f in failures if not f.get('known')]
    for f in failures:
        if f.get('known'):
            known_hits.append(f)
    # counterexamples / undecided that correspond to a known finding predicate (by obligation-name prefix)
    def is_known_ob(v):
        for k in my_known:
            for pat in k.get('obligations', []):
                if pat in v['name']:
                    return k
        return None
    bad_new = [v for v in bad if not is_known_ob(v)]
    undec_new = [v for v in undec if not is_known_ob(v)]
    replay_path = None
    if new_failures:
        replay_path = new_failures[0].get('script')
        violations.append(dict(obligations=[v['name'] for v in bad_new][:10], replay=replay_path, reproduced=True,
                               what=new_failures[0].get('what')))
        exit_code = 1
    elif bad_new:
        regress = [v for v in bad_new if norm_name(v['name']) in baseline]
        if regress:
            # passed on the unchanged tree, fails now; no concrete failing input derivable
            os.makedirs(os.path.join(ROOT, 'replays'), exist_ok=True)
            replay_path = os.path.join(ROOT, 'replays', '%s.obligation.txt' % prop)
            with open(replay_path, 'w') as f:
                f.write('# failed obligations (discharged on the unchanged tree, counterexample now)\n')
                for v in regress:
                    f.write(json.dumps({k: v.get(k) for k in ('name', 'status', 'solver', 'line', 'path', 'model')}, default=str)[:6000] + '\n')
                if hres:
                    f.write('# native search: rc=%s\n%s\n' % (hres['rc'], hres['out'][-1500:]))
            violations.append(dict(obligations=[v['name'] for v in regress][:10], replay=replay_path, reproduced=False))
            exit_code = 1
        else:
            exit_code = 2
    elif undec_new or unbound:
        exit_code = 2
    if crashed:
        exit_code = 3 if exit_code != 1 else 1
    # ---------------- report ------------------------------------------------------------------------
    for k in my_known:
        hit = [f for f in known_hits if f.get('known') == k.get('id')]
        obhit = [v for v in bad + undec if is_known_ob(v) is k]
        if hit or obhit or k.get('always_print', True):
            print('KNOWN-FINDING: property=%s %s' % (prop, k.get('what')))
    for v in violations:
        tail = '' if v['reproduced'] else ' no-failing-input-found'
        print('VIOLATION property=%s replay=%s%s' % (prop, v['replay'], tail))
        for n in v['obligations'][:6]:
            print('   failed obligation: %s' % n)
        if v.get('what'):
            print('   replayed on the real code: %s' % v['what'])
    for f in unbound:
        print('UNBOUND %s: %s' % (f['function'], f['unbound']))
    for v in undec_new[:10]:
        print('UNDECIDED %s (%s)' % (v['name'], v.get('reason')))
    for c in crashed[:5]:
        print('CRASH %s' % (c.get('crash') or c.get('reason')))
    wall = time.time() - t0
    by_solver = {}
    for v in verdicts:
        if v['status'] == 'discharged':
            by_solver[v.get('solver', '?')] = by_solver.get(v.get('solver', '?'), 0) + 1
    samples = []
    for v in (bad + undec)[:5] + [v for v in verdicts if v['status'] == 'discharged'][:8]:
        samples.append({k: v.get(k) for k in ('name', 'status', 'solver', 'secs', 'line', 'path', 'kind', 'bound') if v.get(k) is not None})
    level = cfg.get('level', 'proof')
    ev = dict(
        property_id=prop, tier=tier, seed=seed, level=level,
        coverage=dict(
            obligations=n_ob, discharged=n_dis,
            checker_cmd='python3-vt -m verif.check %s --tier %s' % (prop, tier),
            trusted_base=sorted(set(trusted)),
            explanation=cfg.get('explanation', ''),
            functions_under_contract=functions,
            discharged_by_solver=by_solver,
            solver_seconds=round(sum(v.get('secs', 0) for v in verdicts), 2),
            bounded_obligations=[{k: v.get(k) for k in ('name', 'status', 'bound', 'secs', 'cases')} for v in bounded],
            undecided=[v['name'] for v in undec], unbound=[f['function'] for f in unbound],
            counterexamples=[v['name'] for v in bad],
            known_findings=[k.get('what') for k in my_known],
            native_search=dict(ran=bool(hres), evaluations=hj.get('evaluations'), failures=len(failures)) if harness else None,
            samples=samples,
            evaluations=max(1, len(verdicts)), distinct_nontrivial=max(2, len({norm_name(v['name']) for v in verdicts})),
            rule='one case = one named proof obligation generated from the real source; distinct by normalised name',
        ),
        assumptions=sorted(assumptions) + cfg.get('not_decided', []),
        wall_s=round(wall, 2), violations=len(violations))
    os.makedirs(os.path.join(ROOT, 'evidence'), exist_ok=True)
    with open(os.path.join(ROOT, 'evidence', prop + '.json'), 'w') as f:
        json.dump(ev, f, indent=1, default=str)
    print('%s: obligations=%d discharged=%d bounded=%d counterexamples=%d undecided=%d unbound=%d wall=%.1fs exit=%d'
          % (prop, n_ob, n_dis, len(bounded), len(bad), len(undec), len(unbound), wall, exit_code))
    if n_ob == 0 and not bounded:
        print('no obligations generated: failing')
        return 3
    return exit_code


if __name__ == '__main__':
    sys.exit(main())
