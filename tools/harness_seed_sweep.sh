#!/bin/bash
# run every native harness on the unchanged tree with several seeds; any failure that is not a known finding is a false alarm to fix
# usage: tools/harness_seed_sweep.sh   (results in /tmp/sweep.log)
cd /verif
python3 - <<'PY0'
import json
from contracts import props
out=[(p, c['harness'], c.get('harness_budget',(20,120))[0]) for p,c in sorted(props.PROPS.items()) if c.get('harness')]
json.dump(out, open('/tmp/harness_list.json','w'))
PY0
python3 - <<'PY' > /tmp/sweep_jobs.txt
import json
for p,h,b in json.load(open('/tmp/harness_list.json')):
    for sd in range(40, 46):
        print(p, h, b, sd)
PY
run_one() {
  p=$1; h=$2; b=$3; sd=$4
  known=$(python3 -c "
import json; d=json.load(open('/verif/known_findings.json')); print(json.dumps([k for k in d['findings'] if k.get('property')=='$p']))")
  hint=/tmp/sweep_hint_${p}_${sd}.json
  echo "{\"functions\":[],\"models\":[],\"seed\":$sd,\"budget_s\":$b,\"known\":$known,\"prop\":\"$p\",\"tier\":\"quick\"}" > $hint
  out=$(PYTHONPATH=/repo:/verif timeout $((b+90)) /venv/bin/python -W ignore $h $hint 2>/dev/null | tail -1)
  python3 - "$p" "$sd" <<PY2
import json,sys
p,sd=sys.argv[1:3]
try:
    d=json.loads('''$out'''.replace("\\\\","\\\\\\\\")) if False else json.loads(r'''$out''')
except Exception as e:
    print(p, sd, 'UNPARSEABLE', repr(r'''$out'''[:200])); sys.exit(0)
new=[f for f in d.get('failures',[]) if not f.get('known')]
print(p, sd, 'evals', d.get('evaluations'), 'NEW-FAILURES' if new else 'ok', (new[0]['what'][:300] if new else ''))
PY2
}
export -f run_one
cat /tmp/sweep_jobs.txt | xargs -P 5 -L 1 bash -c 'run_one $0 $1 $2 $3' > /tmp/sweep.log 2>&1
echo done >> /tmp/sweep.log
