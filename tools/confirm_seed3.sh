#!/bin/bash
# confirm_seed.sh <prop> <n>: confirm a sub-agent's seeded change in its scratch worktree and store it under /verif/seeded
set -u
P=$1; N=$2
WT=/tmp/seed3/$P/wt; OUT=/tmp/seed3/$P/out; M=$((N+2)); DST=/verif/seeded/$P-$M
[ -f $OUT/patch$N.diff ] || { echo "no patch"; exit 2; }
git -C $WT checkout -q -- . ; git -C $WT clean -fdq
cd $WT
timeout 600 /venv/bin/python $OUT/demo$N.py > /tmp/seed3/$P/demo$N.before.log 2>&1; RB=$?
git -C $WT apply $OUT/patch$N.diff || { echo "patch does not apply"; exit 2; }
timeout 600 /venv/bin/python $OUT/demo$N.py > /tmp/seed3/$P/demo$N.after.log 2>&1; RA=$?
nice -n 10 timeout 1500 /venv/bin/python -m pytest -q -p no:cacheprovider --timeout=900 2>&1 | tail -3 > /tmp/seed3/$P/tests$N.log
git -C $WT checkout -q -- . ; git -C $WT clean -fdq
SUMMARY=$(tail -1 /tmp/seed3/$P/tests$N.log)
mkdir -p $DST
cp $OUT/patch$N.diff $DST/patch.diff; cp $OUT/demo$N.py $DST/demo.py
python3 - "$P" "$N" "$RB" "$RA" "$SUMMARY" <<'PY'
import json,sys,re
P,N,RB,RA,SUMMARY=sys.argv[1:6]
notes=open('/tmp/seed3/%s/out/notes.md'%P).read()
meta=dict(property=P, change=int(N)+2, wave=3, base_commit='cedfd0f', demo_exit_unmodified=int(RB), demo_exit_with_patch=int(RA), test_suite_with_patch=SUMMARY,
  confirmed = (RB=='0' and RA=='1' and '106 passed' in SUMMARY and '1 failed' in SUMMARY),
  ran=["cd <scratch worktree at pinned HEAD> && /venv/bin/python demo.py  (before and after `git apply patch.diff`)",
       "/venv/bin/python -m pytest -q -p no:cacheprovider --timeout=900  (with the patch applied)"],
  notes_from_author=notes[:6000])
json.dump(meta, open('/verif/seeded/%s-%d/meta.json'%(P,int(N)+2),'w'), indent=1)
print(P,N,'confirmed' if meta['confirmed'] else 'NOT CONFIRMED', RB, RA, SUMMARY)
PY
