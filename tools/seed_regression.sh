#!/bin/bash
# seed_regression.sh [ids...]: apply every stored seeded change to /repo (temporarily), run the property's quick check,
# undo the change, and log the verdict.  /repo must be clean; nothing is committed there.
set -u
LOG=${SEED_LOG:-/verif/seeded/regression.log}
: > $LOG
cd /verif
[ -z "$(git -C /repo status --short)" ] || { echo "/repo not clean"; exit 2; }
IDS=${@:-$(ls seeded | grep -E '^C[0-9]+-[0-9]+$' | sort)}
for S in $IDS; do
  P=${S%-*}
  PATCH=seeded/$S/patch_rebased.diff; [ -f $PATCH ] || PATCH=seeded/$S/patch.diff
  if ! git -C /repo apply --3way /verif/$PATCH >/dev/null 2>&1; then
    git -C /repo checkout -q HEAD -- . ; git -C /repo reset -q
    echo "$S does-not-apply (the code it changed was repaired by a fix: commit)" >> $LOG; continue
  fi
  git -C /repo reset -q
  OUT=$(timeout 2400 python3-vt -m verif.check $P --tier quick 2>&1); RC=$?
  git -C /repo checkout -q HEAD -- . ; git -C /repo clean -fdq BPTK_Py
  V=$(echo "$OUT" | grep -m1 '^VIOLATION' | cut -c1-160)
  W=$(echo "$OUT" | grep -m1 'replayed on the real code' | cut -c1-220)
  O=$(echo "$OUT" | grep -m1 'failed obligation' | cut -c1-160)
  echo "$S rc=$RC | $V | $O | $W" >> $LOG
done
[ -z "$(git -C /repo status --short)" ] && echo "repo clean" >> $LOG
