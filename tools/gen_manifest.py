#!/usr/bin/env python3
"""Regenerate MANIFEST.json from contracts/props.py (claimed checks) + manifest_meta.py (texts)."""
import json, os, sys
ROOT = os.path.dirname(os.path.dirname(os.path.abspath(__file__)))
sys.path.insert(0, ROOT)
from contracts import manifest_meta as mm

BASE_CMD = "cd /repo && /venv/bin/python -m pytest -ra -q -p no:cacheprovider --timeout=900 --continue-on-collection-errors"
checks = []
for pid in sorted(mm.CLAIMED):
    c = mm.CLAIMED[pid]
    checks.append(dict(
        property_id=pid,
        quick_cmd="python3-vt -m verif.check %s --tier quick" % pid,
        thorough_cmd="python3-vt -m verif.check %s --tier thorough" % pid,
        evidence_file="/verif/evidence/%s.json" % pid,
        replay_cmd_template="python3-vt -m verif.check %s --replay {path}" % pid,
        engine=c['engine'],
        level_claimed=dict(category=c['category'], text=c['text'], design_ref=c['design_ref']),
        level_note=c['note'],
        technique=c['technique']))
man = dict(
    version=1,
    setup_cmd="python3-vt -m verif.selftest",
    hooks=dict(guard="BPTK_PY_VERIF", enable="none needed: contracts live in sidecar files under /verif/contracts and are bound to /repo's source text on every run; no hook commits",
               baseline_off_cmd=BASE_CMD, source_commits=[], add_only=True),
    engines=[
        dict(name="pyvc (K1)", path="verif/pyvc", serves_properties=sorted(p for p in mm.CLAIMED if 'K1' in mm.CLAIMED[p]['engine']),
             kind_free_text="own verification-condition generator: forward symbolic execution of the real function ASTs over z3 terms, cut at loops by invariants and at calls by callee contracts; quantifier-free queries by skolemisation + trigger-based instantiation; z3 5.1, cvc5 / z3 4.8 on unknown"),
        dict(name="tmplvc (K2)", path="verif/tmplvc", serves_properties=sorted(p for p in mm.CLAIMED if 'K2' in mm.CLAIMED[p]['engine']),
             kind_free_text="contracts for functions that emit Python text: symbolic execution over templates with holes, post pyparse(text) == Spec discharged by z3 over the reals + unit preservation against CPython's parser"),
        dict(name="bounded (K3)", path="verif/bounded", serves_properties=sorted(p for p in mm.CLAIMED if 'K3' in mm.CLAIMED[p]['engine']),
             kind_free_text="bounded stand-ins (CrossHair / exhaustive small-scope execution of the real function); never counted as proved"),
    ],
    checks=checks,
    notes="Contract-based deductive verification of the real code; see DESIGN.md. Exit codes of a check: 0 held, 1 violation, 2 undecided/unbound, 3 checker crash.",
    not_applicable=[dict(property_id=p, reason=r) for p, r in sorted(mm.NOT_APPLICABLE.items())])
json.dump(man, open(os.path.join(ROOT, 'MANIFEST.json'), 'w'), indent=1)
print('MANIFEST.json: %d checks, %d not_applicable' % (len(checks), len(man['not_applicable'])))
