"""debug helper: python3-vt tools/dbg.py <module> <qualname> <obligation-suffix> [body.py]
grounds the obligation, prints the verdict; on sat exec()s body.py with m (model), ev, C, m1/m0 (self views), st, ob, ex"""
import sys, importlib
sys.path.insert(0, '/verif')
import z3
mod, q, pat = sys.argv[1:4]
M = importlib.import_module(mod)
globals().update({k: v for k, v in vars(M).items() if not k.startswith('__')})
from verif.pyvc.spec import CONTRACTS, Ctx
from verif.pyvc.stmts import verify_function
from verif.pyvc import binder
from verif.pyvc.formula import ground
c = CONTRACTS[q]
fn = binder.find_function(c.file, c.src_name)
ex = verify_function(c, fn, 'D', ghost_decl=getattr(c, 'ghost', None))
for ob in ex.obligations:
    if ob.name.endswith(pat):
        stt_ = {}
        qs = ground(ob.hyps, ob.goal, stats=stt_)
        s = z3.Solver(); s.set('timeout', 60000); s.add(*qs); r = s.check()
        print(ob.name, r, stt_, ob.meta.get('path'))
        if r != z3.sat:
            continue
        m = s.model(); st = ob.meta['_st']
        C = Ctx(ex, st, ex.entry, ex.params)
        ev = lambda t: m.eval(t, model_completion=True)
        if 'self' in ex.params:
            m1, m0 = C.self, C.old.self
        if len(sys.argv) > 4:
            exec(open(sys.argv[4]).read())
        break
