#!/bin/bash
# confirm_seed4.sh <prop> <n> [base=/tmp/seed6] [offset=6] [wave=6]: confirm a sub-agent's seeded change in its scratch
# worktree (demo before / after, test-suite with the patch) and store it under /verif/seeded/<prop>-<n+offset>
set -u
P=$1; N=$2; BASE=${3:-/tmp/seed6}; OFF=${4:-6}; WAVE=${5:-6}
WT=$BASE/$P/wt; OUT=$BASE/$P/out; M=$((N+OFF)); DST=/verif/seeded/$P-$M
[ -f $OUT/patch$N.diff ] || { echo "no patch"; exit 2; }
git -C $WT checkout -q -- . ; git -C $WT clean -fdq
cd $WT
timeout 600 /venv/bin/python $OUT/demo$N.py > $BASE/$P/demo$N.before.log 2>&1; RB=$?
git -C $WT apply $OUT/patch$N.diff || { echo "patch does not apply"; exit 2; }
timeout 600 /venv/bin/python $OUT/demo$N.py > $BASE/$P/demo$N.after.log 2>&1; RA=$?
nice -n 10 timeout 1500 /venv/bin/python -m pytest -q -p no:cacheprovider --timeout=900 2>&1 | tail -3 > $BASE/$P/tests$N.log
git -C $WT checkout -q -- . ; git -C $WT clean -fdq
SUMMARY=$(tail -1 $BASE/$P/tests$N.log)
mkdir -p $DST
cp $OUT/patch$N.diff $DST/patch.diff; cp $OUT/demo$N.py $DST/demo.py
python3 - "$P" "$N" "$RB" "$RA" "$SUMMARY" "$BASE" "$M" "$WAVE" <<'PY'
import json,sys,subprocess
P,N,RB,RA,SUMMARY,BASE,M,WAVE=sys.argv[1:9]
notes=open('%s/%s/out/notes.md'%(BASE,P)).read()
head=subprocess.run(['git','-C','/repo','rev-parse','--short','HEAD'],capture_output=True,text=True).stdout.strip()
meta=dict(property=P, change=int(M), wave=int(WAVE), base_commit=head, demo_exit_unmodified=int(RB), demo_exit_with_patch=int(RA), test_suite_with_patch=SUMMARY,
  confirmed = (RB=='0' and RA=='1' and '106 passed' in SUMMARY and '1 failed' in SUMMARY),
  ran=["cd <scratch worktree at pinned HEAD> && /venv/bin/python demo.py  (before and after `git apply patch.diff`)",
       "/venv/bin/python -m pytest -q -p no:cacheprovider --timeout=900  (with the patch applied)"],
  notes_from_author=notes[:6000])
json.dump(meta, open('/verif/seeded/%s-%s/meta.json'%(P,M),'w'), indent=1)
print(P,N,'->',M,'confirmed' if meta['confirmed'] else 'NOT CONFIRMED', RB, RA, SUMMARY)
PY
